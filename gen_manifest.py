#!/usr/bin/env python3
"""Regenerates /verif/MANIFEST.json from the table below (kept next to the rule
tables so that a property that gains or loses a check updates both lists)."""
import json, os

HERE = os.path.dirname(os.path.abspath(__file__))

# id -> (design section, technique, what the check decides, what is assumed)
CLAIMED = {
    "C16": ("§3 C16",
            "CFG must-pass/ordering automata (go/cfg + go/types) over the fetch protocol, who-may-call and effect-site ownership tables",
            "Decides the ordering of file-system effects of the cache protocol on every control-flow path of Fetch, downloadDir, downloadZip(1), fetchModFileData, downloadModFile1, writeDiskCache and lockVersion (lock held, post-lock re-check, .partial marker brackets Unzip, temp+close+rename, single flight, artefact ownership, a partial directory left by a crashed fetch is removed before re-extraction unless the post-lock verdict proves there is none). The lock-free availability test reads the directory before the marker (the reverse of the writer's order) and the marker is kept on a failed extraction. What is renamed into the cache is complete: the blob reader's Close error is checked before the rename, and every reader modregistry.Module hands out goes through a wrapper that compares byte count and digest with the manifest's layer descriptor (defect repaired in /repo, fix: 893c4de — a short body ending in a clean EOF left a truncated zip/module file in the cache for ever). Every crash point lies between two effects whose order is fixed by these rules; it does not execute a crash.",
            "lockedfile, os.Rename atomicity and modzip.Unzip are trusted; packages mod/modcache and (for the blob readers) mod/modregistry are analysed"),
}

CLAIMED["C15"] = ("§3 C15",
    "CFG gate analysis (guard atoms with short-circuit polarity, rejecting-edge reachability) over CheckZip/checkFiles/Unzip/Create/checkPath/checkElem; constant-folded open flags; sibling obligation tables",
    "Decides that every file-system mutation of Unzip lies behind the archive check and targets filepath.Join(dir, checked entry name); that in both sibling checkers each gating check (clean path, CheckFilePath, local-module, collision, cue.mod placement/case, size limits) stands on every path to acceptance and its rejecting edge skips the entry; that files are created only with O_CREATE|O_EXCL; that declared sizes are enforced by LimitedReader(size+1) with the exhaustion test before success; that CheckedFiles.Err consults every recorded error; that the CheckFilePath chain rejects on each of its tests; that the case-fold key is iterated to the fixpoint of the fold orbit; and four agreement rules between the zip, file-list and directory checkers on cue.mod entries (every name with a special meaning under cue.mod is also tested with strings.EqualFold; the entry recorded as the module file and the not-a-directory rejection are reachable only across an edge on which the directory flag is false; submodule directories are collected by re-applying splitCUEMod to the prefix it returns) — the four defects these found were repaired in /repo (fix: a9a6766).",
    "archive/zip, io.LimitedReader and O_EXCL semantics trusted; which characters fileNameOK admits and Unicode case folding are value-level and not decided")

CLAIMED["C14"] = ("§3 C14",
    "lockset (must-hold) analysis + capture analysis of concurrently executed closures, CFG must-pass, channel-token pairing, guard atoms on Graph.Require, sorted-after-map-range; decision tables of the version comparators by finite case analysis over the CFG (three-valued evaluation of the comparators' own tests, canonical operand names), sibling agreement of the in-loop and trailing identifier checks",
    "Decides the schedule/order-independence mechanisms: shared state of the parallel walks (mvs.buildList, modrequirements.readModGraph) is only touched under one mutex; every requirement handed to g.Require is enqueued on every path; par.Work/Cache/Queue internal discipline (guarded fields, publish-before-done, single flight, token pairing); Graph.Require is a max-merge and Graph.BuildList sorts what it takes from a map. For the ordering clause it decides the branch structure of every comparator on the input classes its own tests define: cmpVersion and Versions.Max put the main module's empty version above everything (symmetrically) and \"none\" below, semver.Compare orders invalid below valid and consults major, minor, patch (length, then digits) and then the pre-release and never the build metadata, comparePrerelease implements release > pre-release, numeric < alphanumeric, numeric by value, shorter list lower; parsePrerelease/parseBuild apply the same validity tests to the last identifier as to the others. It does not decide minimality/sufficiency of the selected versions, nor the character loops (parseInt, nextIdent, isNum).",
    "sync/atomic and cmp.Compare semantics trusted; only internal/mod/mvs, internal/mod/modrequirements (readModGraph, cmpVersion), internal/mod/semver, mod/module (Versions) and internal/par are analysed")

CLAIMED["C18"] = ("§3 C18",
    "typestate extraction (state-tracking automaton over go/cfg incl. tagged-switch edges), guard gates, constant folding of done() over the State enum, must-pass ordering, field-write confinement",
    "Decides the controller's typestate relation (all Task.state assignments with their source-state guards lie within Waiting->Ready->Running->Terminated / Waiting->Terminated; received tasks are Running), that Ready requires isReady() which requires done() of every dependency and done() holds exactly for Terminated, that results are folded and the configuration recomputed before markReady and a failure returns without releasing dependants, that the task goroutine starts after updateTaskValue, writes only Task.err and always ends with the send on taskCh, that the loop's `running` flag (which decides whether it blocks on taskCh) is set exactly for tasks already Running or whose goroutine is started in the same iteration, that Task.Fill extends rather than overwrites a pending result and the pending result is cleared only after it was taken, and that checkCycle guards every initTasks path. Of dependency discovery it decides four structural conditions only: a skipped task releases its dependants, concrete containers still depend, the operand contexts of internal/core/dep that take a value apart (call arguments, for sources, slice subjects) visit everything, marked.markExpr marks the Value of every declaration kind, and getTask re-tags the children of every task whatever its state. It does not decide equality of the final configuration.",
    "Runner implementations are not analysed; packages tools/flow and internal/core/dep")

CLAIMED["C08"] = ("§3 C08",
    "exhaustiveness of type-switch dispatchers over cue/ast interfaces (go/types implements-relation), field coverage at package and at dispatcher-case granularity with flow-sensitive 'strong use', acquire/release pairing of parser comment states, CFG gates on cmd/cue fmt",
    "Decides for both formatters (cue/format v1, internal/pretty v2), ast.Walk, astutil.Apply and the parser: every dispatcher covers every implementor of the switched interface; every child and payload field of every cue/ast node type is used onward (emitted/visited/built) by the case that handles the node; every openComments is closed on every path; format.Source prints what it parsed with comments; cue fmt writes only after success and only if bytes changed. It does not decide idempotence nor that the emitted layout re-parses to the same tree.",
    "whitespace/comma/layout decisions are value-level; resolution metadata fields are excepted by name")

CLAIMED["C09"] = ("§3 C09",
    "call-graph SCC condensation of package cue/parser modulo the nesting-guard functions, loop analysis for iteratively deepened trees, dominance of panics by the bailout flag, table agreement of the three escape alphabets (constants read from go/types)",
    "Decides the parser's bailout discipline (every panic sets p.panicking first or is a reviewed unreachable assertion; entry points install the recover first), that recursion and iterative tree deepening are bounded by the nesting guard (two remaining unbounded loops are recorded as known findings), that the escape alphabets and hex digit counts of literal.appendEscapedRune, literal.unquoteChar and scanner.scanEscape agree, and that the identifier character classes of cue/ast and cue/scanner are the same predicates, with ast.IsValidIdent classifying decoded runes only through them. It does not decide position containment nor that quoting an arbitrary string unquotes to the original.",
    "hash counts and multi-line indentation are value-level; assertion panics are excepted by function with an unreachability argument")

CLAIMED["C02"] = ("§3 C02",
    "parser rules of C09 + exhaustiveness of default-panic dispatchers over internal/core/adt interfaces + acquire/release pairing automata for evaluation frames + map-iteration order-leak classification and nondeterminism-source scan",
    "Decides the parser bailout/recursion clauses (shared with C09), that every default-panic type-switch dispatcher of the evaluator, exporter, walker, dependency analysis and subsumption covers every implementor of the switched adt interface (or excepts it with a reachability reason), that PushState/PopState, PushArc/PopArc, pushOverlay/popOverlay, markDepth/unmarkDepth and incDepth/decDepth are balanced on every non-panicking path, that no map-iteration order, global random source, wall-clock time or pointer text reaches output in the pipeline packages, that the Go slice expressions of SliceExpr.evaluate are dominated by the lo>hi rejection and the length test of a user-supplied upper bound, that every inc/dec counter of the evaluator is balanced, and that every clause of internal/pkg.processErr for a non-nil error assigns the result from something that cannot be nil on every path (a failed Go builtin otherwise returns a nil expression and the evaluator crashes: json.Marshal({x: math.Sqrt(-1)}) did; repaired in /repo, fix: 2008161). It does not decide nil dereferences, other index errors, evaluator recursion depth, or time/memory bounds.",
    "value-dependent crashes are out of reach; comparator completeness of sorts is not decided")

CLAIMED["C07"] = ("§3 C07",
    "exhaustiveness of the exporter's dispatchers over adt interfaces, case-level strong field coverage of adt expression nodes, injectivity/coverage of adt.tokenMap from the composite literal, option-to-profile wiring, CFG gates for meaning-preserving guards",
    "Decides that every exporter dispatcher covers every implementor of the adt interface it switches on, that each expression-side case uses every child and payload of its node onward, that the value exporter consults arcs/base value/arc types/closedness/conjuncts, that adt.tokenMap is injective and covers every operator, that every Profile field set by cue.Value.Syntax is consulted, that a bound is dropped for `uint` only when it is `>=0`, that mergeValues' struct-less shortcuts are taken only without `...`, that the exporter's nesting counters are balanced on every path, that hoisted let names are identifiers, and that each pass of pivotter.linkDependencies is complete for all dependencies before the next begins (names reserved before let names are chosen). It does not decide that the produced expression means the same.",
    "parenthesisation, let hoisting, reference relinking and label quoting are value-level")

CLAIMED["C10"] = ("§3 C10",
    "type-resolved who-may-produce-JSON-strings rule on the appendJSON path, CFG gates (IsConcrete, json.Valid, StringLabelNeedsQuoting), kind-case exhaustiveness, SetEscapeHTML-before-Encode ordering, no map iteration on the output path",
    "Decides that string values and object keys become JSON text only through internal/encoding/json.Marshal (no HTML-escaping json.Marshal, no Go-syntax quoting), that every json.Encoder on the path sets EscapeHTML before Encode, that Value.appendJSON handles every concrete kind and rejects non-concrete values first, that the decoders return an expression only after json.Valid/Decode and the parser succeeded, that output iteration is index-wise, that the importer unquotes a key only when StringLabelNeedsQuoting is false, that the text of a number is appended only across an edge on which its Form was tested to be apd.Finite, and that no error is discarded in the literal parser cue/literal (every JSON number and string passes through it) outside five reviewed sites. The two defects these last rules found — Infinity/NaN marshalled with a nil error; exponents beyond apd's range silently dropped, so 1e100001 decoded as 1 — were repaired in /repo (fix: 1414251, deb83fd). Every parser.ParseExpr call of the JSON decoders receives its bytes through a helper that escapes U+FEFF, the one rune the CUE scanner rejects inside strings and JSON allows (defect repaired, fix: 8e6bb9c). It does not decide number spelling or escaping correctness in general.",
    "encoding/json.Encoder and apd number formatting are trusted")

CLAIMED["C12"] = ("§3 C12",
    "CFG must-pass (Validate before encode), registry agreement of the encoder/decoder switches over build.Encoding, scoped error-discipline rule, constant-folded open flags of the delayed writer, shared importer gate",
    "Decides the concreteness gate before every encValue/encFile, that every data encoding sets concrete=true and the round-trip encodings have both encoder and decoder cases with error defaults, that no error of the encode/validate/close chain is dropped in the encoder or in cue export, that the output file is opened exclusively (unless --force) only after the whole buffer exists, and the JSON importer's key-unquoting predicate. The TOML encoder calls go-toml only after a successful kind walk that rejects null, bytes and numbers beyond 64 bits (the defect — these were changed silently — was repaired in /repo, fix: e29e638). It does not decide data equality across the trip nor TOML table handling.",
    "third-party YAML/TOML emitters trusted; file-type inference is CUE-language data (types.cue), not analysed")

CLAIMED["C11"] = ("§3 C11",
    "path automata on the two YAML encoders: SetString-then-consult typestate (yaml.v3), plain-return-only-after-consult reachability and gate (goccy), key emission must-pass",
    "Narrow: decides that every string value and mapping key passes the quoting decision (shouldQuote / quoteScalar / blockLiteralSafe or an explicit tag/style) before it is emitted, in both live encoders, that the scalar switches cover all literal kinds, that bytes literals are always emitted as !!binary, the newline decision table of the goccy encoder (block literal only for multi-line literals that pass blockLiteralSafe, otherwise double quotes, never plain), that the predicate routing strings to double quotes covers every rune the emitter would escape inside single quotes (read from the library source), and that a literal block is chosen only for strings with an unindented content line. Two genuine defects found by the last two rules were repaired in /repo. It does not decide the remaining content of the quoting predicates (which plain scalars resolve as non-strings), numbers, nor the JSON-as-YAML clause.",
    "third-party emitters honour styles and raw scalars")

CLAIMED["C19"] = ("§3 C19",
    "lockset guarded-by analysis for package-level and struct-field state with alias normalisation, double-checked-insertion rule, post-init global-write scan over the API import closure, cache type and field-write ownership checks, OpContext creation who-may-call, copy-on-write rules (field writes only on local copies / fresh constructors, shallow-copy slice aliasing, unprotected append on by-value types)",
    "Decides that the runtime's shared label table and import index are accessed only under their locks (write lock for writes) and that optimistic insertions re-check under the write lock, that no other package-level variable of the API import closure is written after init unless it is a sync/atomic type or reviewed, that caches are concurrency-safe types whose published values are written only by their constructors, that the shared structs hold no OpContext or Pool, that package cue creates an OpContext only in newContext, fresh per call; and a copy-on-write discipline: immutable fields of adt.Environment are written only on a local copy or a fresh Environment, slice fields of shallow Vertex copies are replaced (never re-sliced in place) and their elements written only after replacement by a fresh slice, by-value API types never append into their own backing array unprotected, no API read path finalizes a pattern-constraint vertex of a shared value in place, and the Go-to-CUE converter never writes through a *adt.Vertex it received by type assertion from an incoming adt.Value (it may copy it). Two genuine defects found by these rules were repaired in /repo (ToDataAll rewrote the conjuncts of the shared vertex; Path.Append aliased its backing array), one is recorded as a known finding (Iterator.Next finalizes pattern constraints lazily). It does not decide lazy finalisation of other shared vertices under concurrent readers.",
    "alias-precise ownership of *adt.Vertex is out of reach (no pointer analysis)")

CLAIMED["C17"] = ("§3 C17",
    "capture discipline + lockset for every concurrently executed closure of the module loaders, map-iteration order-leak classification, CFG must-pass (Validate before Decode, re-parse before return, updateRoots before a stable exit), schema/struct field-table agreement (declaration scanner over schema.cue vs json tags), field-by-field copy completeness, decision tables of the file filter and of the root fixpoint, shared-implementation who-calls",
    "Decides that closures run concurrently by modload/modpkgload/modrequirements write captured state only under a common mutex (or atomics, per-iteration variables, per-index slice elements), that no map iteration in these packages and in modfile feeds an unsorted order-sensitive sink, that modfile.parse decodes only values validated against the selected #File schema (selected as a maximum), that Format returns only bytes its own parse accepted, that every regular field the module-file schema (schema.cue: #File, #Dep, #Source, language) declares has a json field in the Go struct it is decoded into and vice versa, that every place rebuilding a modfile.File field by field sets every exported field (the defect found — description accepted and dropped — was repaired in /repo, fix: 5e9e098), that AllModuleFiles decides whether a directory is a nested module by a scan that completes before the first file is yielded, that no resolution step branches on whether the module graph happens to be loaded (GraphIsLoaded is called only by the two reviewed work-saving sites), that the root fixpoint of updateRoots detects any change, that the file filters of loader and root scan agree, and that CheckTidy and Tidy share tidy/tidyOnce/equalRequirements. The rule that every stable exit of the load loop has reconciled the roots with the graph (updateRoots since LoadPackages) reports one known finding: the port dropped that step, and tidy can write a root below what another written root requires (witness in findings/C17). It does not decide that the fixpoint lists exactly the needed modules, nor the handling of default major versions.",
    "MVS and registry behaviour trusted")

CLAIMED["C20"] = ("§3 C20",
    "CFG gates and reachability on cmd/cue's runTrim (diff-before-write, --ignore bypass, dry-run), case-level strong field coverage of the trimmer's dependency walker, cooperating-site agreement",
    "Narrow: decides that cue trim writes files only after the trimmed package was rebuilt through the overlay and diffed against the original with a non-Identity result aborting (or --ignore), never on --dry-run or after a trim error; that the dependency walker uses every child expression of each node/clause kind it handles; that both cooperating sites exclude self-dependent comprehension output, that the conjuncts of both kinds of constraint field (`?` and `!`) are excluded from the winners, and that a disjunction becomes an overriding winner only after all its default branches were examined. It does not decide that trim.Files removes only implied fields nor idempotence; walker cases that are absent are listed for review, not judged.",
    "diff.Final.Diff is the oracle the command relies on (it compares scalars by kind only, see seeded/C20-a)")

CLAIMED["C06"] = ("§3 C06",
    "constant folding of the apd context precision reaching each arithmetic entry point (through method values, selector functions and package initialisers), CFG gates on condition flags and zero-divisor tests, three-valued evaluation of cmpTonode's per-operator result over r in {-1,0,+1}, operand-order and who-may-order rules on BinOp's comparison sites, registry agreement of the div/mod/quo/rem builtins across compile -> adt -> math/big, operand non-mutation",
    "Narrow: decides that integer +, -, * and the multiplier of number literals run in an exact decimal context (precision 0) while / and ** use precision >= 34, that numOp returns a number only without error/division-by-zero, that integer division tests for a zero divisor first and does not mutate its operands, that the literal's integral test consults Inexact, that / yields a float kind; that each ordering operator maps the three-way comparison result by its truth table, every comparison site passes Compare(left, right) in that order and numbers are ordered by (*apd.Decimal).Cmp alone; and that div/mod are wired to the Euclidean big-integer pair and quo/rem to the truncated pair with operands in order at every layer. It does not decide rounding correctness of inexact results, the Euclidean identities themselves (math/big is trusted), multiplier values or print/parse round trips. The defect found by the precision rule (34-digit rounding of big integers and of multiplier literals) was repaired in /repo (fix: commit 0f65d2f).",
    "apd and math/big semantics trusted; float +,-,* keep the 34-digit context (the spec permits rounding of floats)")

CLAIMED["C01"] = ("§3 C01",
    "per-case must-pass analysis of the two conjunct dispatchers (unshare or delegation on every path through an accumulating case), CFG gates on shareIfPossible, map-iteration order-leak classification over evaluator/compiler/build/load",
    "Narrow: decides that every accumulating case of nodeContext.scheduleConjunct / insertValueConjunct excludes structure sharing (n.unshare() or delegation) on every path, that share() is reached only past the noSharing/isShared/no-arcs/no-errors guards and unshare is sticky, that no map iteration in internal/core/adt, internal/core/compile, cue/build and cue/load feeds an unsorted order-sensitive sink, and the decision table of the scalar merge in insertValueConjunct (the first scalar is recorded; a later one of the same priority is compared for equality and never replaces it; only a strictly higher layer priority overrides), and that the `*Top` arm of insertValueConjunct writes no node state other than hasTop, the typo checker's conjunct info and statistics counters, directly or through the methods it calls (`x & _` leaves the state `x` leaves; the defect found — `_` released held-back cyclic conjuncts — was repaired in /repo, fix: 022cc54), and that every return of a still-pending arc by (*Vertex).lookup in attemptOnly mode requests a retry of the resolving task (one known finding: the return taken while allTasksCompleted tasks are outstanding does not, and a conjunct is dropped depending on declaration order). It does not decide commutativity, associativity or idempotence of the values computed (scheduler, disjunction cross product, closedness evidence).",
    "order independence of the computed values is value-level and not claimed")

CLAIMED["C03"] = ("§0.6 / §4 C03",
    "per-case path analysis of the bound/validator insertion cases (must record or simplify on every path), consult-at-the-end checks over validateValue/unify/getValidators, clone completeness; decision table of SimplifyBounds/opInfo by finite case analysis over the CFG (three-valued evaluation of the function's own tests on each class of bound pairs, canonical operand names)",
    "Decides (1) that bounds and validators are never dropped between insertion and the final validation: every path through the BoundValue and Validator cases of insertValueConjunct records the constraint (or leaves through the documented implied/finalised edges), the final validation consults both bounds and every pending check, getValidators carries them into non-concrete results, and disjunct clones copy them; (2) the cell table of SimplifyBounds: on every class of bound pairs the function distinguishes (operator pair, sign of hi-lo, hi-lo in {0,1,2}, integer/float, string/bytes order, == and != against a bound) the reachable results are exactly error-for-empty / the implying bound / keep-both as the property prescribes, opInfo's comparison and direction table, and inward/outward rounding of fractional integer limits. It does NOT decide the arithmetic the table is keyed on (apd Sub/Ceil/Floor/Int64, BinOpBool's comparisons) nor unification of basic types and kinds outside SimplifyBounds.",
    "apd and BinOpBool results are the table's inputs and are trusted")

CLAIMED["C05"] = ("§0.6 / §4 C05",
    "CFG gates on the final closedness verdict (checkTypos) and on the required-field check (validator.validate)",
    "Narrow: decides the shape of the final verdicts only — a 'field not allowed' error is produced only for present arcs that are neither hidden/definition/let nor supported by evidence, every arc failing both tests is reported before the next arc and the combined error is attached, final validation reports every arc still ArcRequired; plus the finite skeleton of field-kind unification (ArcType order, updateArcType keeps the strictly more restrictive kind, `?`/`!` marker tables in both directions, allowedInClosed true exactly for hidden/definition/let labels). It does NOT decide which conjuncts provide evidence for which field (defID containment, replacement sets, pattern matching), which is the run-time core of the property.",
    "evidence bookkeeping is value-level and not decided")

CLAIMED["C04"] = ("§0.6 / §4 C04",
    "constant folding of the default-mode enum and of the mode()/combineDefault tables (finite domain, comparisons only), tagged-switch reachability on the Default selectors",
    "Narrow: decides the finite skeleton of default bookkeeping — the mode lattice maybeDefault < isDefault < notDefault with combineDefault as its maximum, the mark table of mode(), that a single disjunct is returned as the default only when NumDefaults == 1 (several defaults stay a disjunction, none returns the value itself), that NumDefaults counts exactly the surviving isDefault disjuncts, and that duplicate elimination (appendDisjunct) marks the retained disjunct as default exactly when the dropped duplicate was. It does NOT decide the cross product, duplicate elimination or which disjuncts survive, which is the run-time core of the property.",
    "cross product and elimination of disjuncts are value-level and not decided")

CLAIMED["C13"] = ("§0.7 / §4 C13",
    "registry exhaustiveness of the generated keyword table, def-use analysis of the per-schema state against the table's phase numbers (who writes / who reads each field, transitively through helpers, stopping at child-state constructors), operator tables of the bound keywords in both directions by finite case analysis, CFG gates on the keyword dispatcher",
    "Narrow: decides structural necessary conditions of the keyword translation — every keyword of the conformance subset has exactly one translating handler; a handler that reads per-schema state written by another keyword's handler runs in a strictly later phase (exclusiveMinimum before minimum, minContains before contains, properties/patternProperties before additionalProperties, properties before required, $schema first, ...) and state shared across phases is only narrowed; each bound keyword adds its constraint for the right core type with the right operator/builtin, and the generator spells each operator as the keyword the importer reads back as that operator (including the boolean-exclusive dialects); the dispatcher calls a handler only in its own phase and only for schema versions it is defined for; the type-name table of the type keyword; a count handed to matchN is the length of the list handed to it; a handler that inspects the collected object fields never shares a phase with one that adds fields; the generator emits the collected object constraints whenever any exist and its keyword-interaction table is symmetric; every generator item node is rebuilt with all its fields by the optimisation passes, hashed over all its fields (nodes are interned by hash) and rendered from all its fields. Two genuine defects found by these rules were repaired in /repo (allOf counted dropped members; the generator dropped all object constraints when properties, required and patterns were all present) and one is a known finding (a boolean false sub-schema is dropped by the combinators). It does NOT decide that the CUE built for a keyword or a combination of keywords accepts exactly the instances JSON Schema prescribes (matchN/matchIf/closedness interactions): that is the core of the property and needs an independent validator as oracle.",
    "constraints_gen.go is what is compiled in; CUE builtins (strings.MinRunes, list.MatchN, struct.MinFields, ...) trusted")

# properties not claimed (yet) -> reason
NOT_APPLICABLE = {
}

ALL = ["C%02d" % i for i in range(1, 21)]


def main():
    checks = []
    for pid in ALL:
        if pid not in CLAIMED:
            continue
        ref, tech, text, note = CLAIMED[pid]
        checks.append({
            "property_id": pid,
            "quick_cmd": "sh /verif/check.sh %s quick" % pid,
            "thorough_cmd": "sh /verif/check.sh %s thorough" % pid,
            "evidence_file": "/verif/evidence/%s.json" % pid,
            "replay_cmd_template": "/verif/bin/cuecheck -property %s -replay {path}" % pid,
            "engine": "cuecheck",
            "level_claimed": {
                "category": "other",
                "text": "Static analysis of a structural necessary condition, for every path/case/site of the analysed code: " + text,
                "design_ref": ref,
            },
            "level_note": note,
            "technique": "static analysis: " + tech,
        })
    na = []
    for pid in ALL:
        if pid in CLAIMED:
            continue
        reason = NOT_APPLICABLE.get(pid, "static check for this property is designed (DESIGN.md §3) but not built yet; not claimed until it runs")
        na.append({"property_id": pid, "reason": reason})
    m = {
        "version": 1,
        "setup_cmd": "sh /verif/setup.sh",
        "hooks": {
            "guard": "verif",
            "enable": "no hooks: static analysis reads /repo's source as data and adds nothing to it (build tag 'verif' is reserved and unused)",
            "baseline_off_cmd": "cd /repo && go test -mod=mod -vet=off -count=1 -timeout 25m ./...",
            "source_commits": [],
            "add_only": True,
        },
        "engines": [{
            "name": "cuecheck",
            "path": "/verif/cuecheck",
            "serves_properties": sorted(CLAIMED),
            "kind_free_text": "repository-specific static analyser (go/packages + go/types + go/cfg; call graph where needed): path automata, lockset, exhaustiveness, field coverage, table agreement, ownership/who-may-call; self-tested with in-memory mutants",
        }],
        "checks": checks,
        "not_applicable": na,
        "notes": "Technique family: static analysis only. All claims are at level 'other': each check decides named structural clauses that are necessary conditions of its property (see DESIGN.md §3) and states what it does not decide. thorough = quick rules + mutant self-test (every registered mutant must be reported) + whole-repo discovery scans.",
    }
    with open(os.path.join(HERE, "MANIFEST.json"), "w") as f:
        json.dump(m, f, indent=1)
        f.write("\n")
    try:
        import jsonschema
        jsonschema.validate(m, json.load(open("/root/.vp/MANIFEST.schema.json")))
        print("MANIFEST.json valid:", len(checks), "checks,", len(na), "not applicable")
    except ImportError:
        print("MANIFEST.json written (jsonschema not available)")


if __name__ == "__main__":
    main()
