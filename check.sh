#!/bin/sh
# usage: check.sh <property-id> [quick|thorough]
# Builds the checker if needed and decides the property from /repo's current source.
set -u
id="$1"; tier="${2:-${VERIF_TIER:-quick}}"
here=$(cd "$(dirname "$0")" && pwd)
export PATH=/opt/veriftools/go1.26.8/bin:$PATH GOPROXY=off GOSUMDB=off GOTOOLCHAIN=local GOWORK=off
if [ ! -x "$here/bin/cuecheck" ] || [ -n "$(find "$here/cuecheck" -name '*.go' -newer "$here/bin/cuecheck" -not -path '*/vendor/*' 2>/dev/null | head -1)" ]; then
  sh "$here/setup.sh" >&2 || { echo "check.sh: building the checker failed" >&2; exit 2; }
fi
exec "$here/bin/cuecheck" -property "$id" -tier "$tier" -repo "${VERIF_REPO:-/repo}" -verif "$here"
