#!/usr/bin/env python3
"""usage: tools_store_seed.py <seed-id e.g. C16-a> <property> <caught_by rule or 'MISSED: reason'> <needs> <ran>
Copies a sub-agent seed from /tmp/seeds into /verif/seeded/<id>/ with meta.json."""
import sys, os, shutil, json, glob
sid, prop, caught, needs, ran = sys.argv[1:6]
src = '/tmp/seeds/' + sid
dst = '/verif/seeded/' + sid
os.makedirs(dst, exist_ok=True)
for f in glob.glob(src + '/*'):
    b = os.path.basename(f)
    if b == 'patch.diff' or b.endswith('_test.go') or b.endswith('.sh') or b == 'NOTES.md' or b.endswith('.cue') or b.endswith('.go'):
        shutil.copy(f, dst)
meta = {
    'id': sid, 'property': prop,
    'breaks': open(src + '/NOTES.md').read().split('\n')[0].lstrip('# ').strip() if os.path.exists(src + '/NOTES.md') else '',
    'needs_to_manifest': needs,
    'confirmed': ran,
    'detected_by': caught,
    'source': 'independent sub-agent given only the property text and its own scratch worktree',
}
json.dump(meta, open(dst + '/meta.json', 'w'), indent=1)
print('stored', dst)
