#!/bin/sh
# usage: tools_try_seed.sh <patch.diff> <property>...   applies the patch to /repo, runs the checks, undoes it
patch="$1"; shift
git -C /repo apply "$patch" || exit 3
for p in "$@"; do /verif/bin/cuecheck -property "$p" 2>&1 | grep -v "^ok" | cut -c1-300; done
git -C /repo checkout -- . ; git -C /repo status --short | head -3
