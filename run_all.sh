#!/bin/sh
# usage: run_all.sh [quick|selftest]   runs every claimed check; exits non-zero if any raises an alarm or breaks
here=$(cd "$(dirname "$0")" && pwd)
mode="${1:-quick}"
sh "$here/setup.sh" >/dev/null || exit 2
rc=0
for p in $(python3 -c "import json;print(' '.join(c['property_id'] for c in json.load(open('$here/MANIFEST.json'))['checks']))"); do
  if [ "$mode" = selftest ]; then
    out=$("$here/bin/cuecheck" -property "$p" -verif "$here" -selftest 2>&1); st=$?
    echo "$out" | grep -vE "^(caught|silent) " 
  else
    out=$("$here/bin/cuecheck" -property "$p" -verif "$here" 2>&1); st=$?
    echo "$out" | tail -1
  fi
  [ $st -ne 0 ] && { echo "!! $p exit $st"; rc=1; }
done
exit $rc
