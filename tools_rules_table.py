#!/usr/bin/env python3
"""Regenerate the rules table of DESIGN.md §0.3 from the evidence files.

The table sits between the markers <!-- rules-table:begin --> and
<!-- rules-table:end -->.  Run after `sh run_all.sh quick`.
"""
import json, glob, collections, re, sys
rows = []
tot = 0
for f in sorted(glob.glob('/verif/evidence/C*.json')):
    e = json.load(open(f))
    pid = e['property_id']
    c = collections.Counter(o['rule'].split('.', 1)[1] for o in e['coverage']['all_obligations'])
    m = json.load(open(f'/verif/mutants/{pid}.json'))
    n = len(m) if isinstance(m, list) else len(m.get('mutants', []))
    tot += n
    rules = ", ".join(f"{k} {v}" if v > 1 else k for k, v in sorted(c.items()))
    rows.append(f"| {pid} | {rules} | {n} |")
b = json.load(open('/verif/mutants/benign.json'))
nb = len(b) if isinstance(b, list) else len(b.get('mutants', []))
out = ["<!-- rules-table:begin -->",
       "| Id | Rules (obligations decided on the unchanged tree) | Mutants |",
       "|----|-------------------|---------|"] + rows + ["",
       f"All {tot} defect mutants are caught by the rule named in their `expect` field and the {nb} benign",
       "mutants (behaviour-preserving edits) leave every check silent",
       "(`cuecheck -property <id> -selftest`).",
       "<!-- rules-table:end -->"]
p = '/verif/DESIGN.md'
s = open(p).read()
new, k = re.subn(r"<!-- rules-table:begin -->.*?<!-- rules-table:end -->", lambda _: "\n".join(out), s, flags=re.S)
if k != 1:
    sys.exit("markers not found")
open(p, 'w').write(new)
print(f"{tot} mutants, {nb} benign")
