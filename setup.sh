#!/bin/sh
# Builds /verif/bin/cuecheck from the vendored sources; needs only the Go toolchain on disk.
set -eu
here=$(cd "$(dirname "$0")" && pwd)
export PATH=/opt/veriftools/go1.26.8/bin:$PATH GOPROXY=off GOSUMDB=off GOTOOLCHAIN=local GOWORK=off GOFLAGS=-mod=vendor
mkdir -p "$here/bin" "$here/evidence"
cd "$here/cuecheck"
go build -o "$here/bin/cuecheck" .
echo "built $here/bin/cuecheck"
