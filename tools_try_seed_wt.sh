#!/bin/sh
# usage: tools_try_seed_wt.sh <abs patch.diff> <property>...
# Like tools_try_seed.sh but never touches /repo: the patch is applied in a scratch
# worktree and the checker is pointed at it (-repo). Safe while a `vp run` is active.
patch="$1"; shift
wt=/tmp/try-$$
git -C /repo worktree add --detach "$wt" HEAD >/dev/null 2>&1 || exit 3
git -C "$wt" apply "$patch" || { git -C /repo worktree remove --force "$wt"; exit 3; }
mkdir -p /tmp/try-verif-$$ && cp /verif/known_findings.json /tmp/try-verif-$$/
for p in "$@"; do /verif/bin/cuecheck -repo "$wt" -verif /tmp/try-verif-$$ -property "$p" 2>&1 | grep -v "^ok" | sed "s#$wt/##g" | cut -c1-300; done
git -C /repo worktree remove --force "$wt"; rm -rf /tmp/try-verif-$$
