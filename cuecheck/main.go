// Command cuecheck decides structural clauses of the properties in
// /verif/properties.jsonl from the source of cue-lang/cue under /repo.
// It never executes repository code: it parses and type-checks it and runs
// rule tables over syntax trees, control-flow graphs and call graphs.
package main

import (
	"encoding/json"
	"flag"
	"fmt"
	"os"
	"path/filepath"
	"runtime/debug"
	"runtime/pprof"
	"sort"
	"strings"
	"time"
)

const (
	repoDefault  = "/repo"
	verifDefault = "/verif"
	modPrefix    = "cuelang.org/go/"
)

// A propCheck is the rule table of one property.
type propCheck struct {
	id    string
	pkgs  []string // package patterns (relative to the repo module) to load
	run   func(c *Ctx)
	about string // the explanation written to the evidence file
	trust []string
}

var registry = map[string]*propCheck{}

func register(p *propCheck) { registry[p.id] = p }

func main() {
	var (
		prop     = flag.String("property", "", "property id (C01..C20)")
		tier     = flag.String("tier", os.Getenv("VERIF_TIER"), "quick|thorough")
		repo     = flag.String("repo", repoDefault, "repository root")
		verif    = flag.String("verif", verifDefault, "verif root")
		mutant   = flag.String("mutant", "", "apply the mutant with this id in memory (self-test)")
		selftest = flag.Bool("selftest", false, "run all mutants of the property and require each to be caught")
		replay   = flag.String("replay", "", "re-evaluate the instance recorded in this violation file")
		list     = flag.Bool("list", false, "list properties")
		verbose  = flag.Bool("v", false, "print every obligation")
	)
	flag.Parse()
	if *tier == "" {
		*tier = "quick"
	}
	if *list {
		ids := make([]string, 0, len(registry))
		for id := range registry {
			ids = append(ids, id)
		}
		sort.Strings(ids)
		fmt.Println(strings.Join(ids, " "))
		return
	}
	if *replay != "" {
		var v violationFile
		b, err := os.ReadFile(*replay)
		if err == nil {
			err = json.Unmarshal(b, &v)
		}
		if err != nil {
			fmt.Fprintln(os.Stderr, "cuecheck: cannot read replay file:", err)
			os.Exit(2)
		}
		*prop = v.Property
		os.Setenv("CUECHECK_REPLAY_KEY", v.Key)
	}
	pc := registry[*prop]
	if pc == nil {
		fmt.Fprintf(os.Stderr, "cuecheck: unknown property %q\n", *prop)
		os.Exit(2)
	}
	if *selftest {
		os.Exit(runSelfTest(pc, *repo, *verif, *tier))
	}
	c := &Ctx{
		Prop: pc.id, Tier: *tier, Repo: *repo, Verif: *verif,
		Verbose: *verbose, start: time.Now(), MutantID: *mutant,
		replayKey: os.Getenv("CUECHECK_REPLAY_KEY"),
	}
	defer func() {
		if r := recover(); r != nil {
			if b, ok := r.(brokenCheck); ok {
				fmt.Fprintf(os.Stderr, "cuecheck: BROKEN CHECK property=%s: %s\n", pc.id, string(b))
				os.Exit(2)
			}
			fmt.Fprintf(os.Stderr, "cuecheck: panic in checker: %v\n%s", r, debug.Stack())
			os.Exit(2)
		}
	}()
	c.loadKnown()
	if *mutant != "" {
		c.applyMutant(*mutant)
	}
	c.load(pc.pkgs)
	c.note("load: %.1fs", time.Since(c.start).Seconds())
	if pf := os.Getenv("CUECHECK_CPUPROFILE"); pf != "" {
		f, _ := os.Create(pf)
		pprof.StartCPUProfile(f)
		defer pprof.StopCPUProfile()
	}
	pc.run(c)
	pprof.StopCPUProfile()
	if c.Tier == "thorough" && *mutant == "" {
		// The thorough tier additionally proves that the rules can fire:
		// every registered mutant of this property must be reported.
		st := selfTestResults(pc, *repo, *verif)
		c.SelfTest = st
		for _, r := range st {
			if r.Status == "missed" {
				c.broken("self-test: mutant %s (%s) was not reported by rule %q", r.ID, r.What, r.Expect)
			}
		}
	}
	os.Exit(c.finish(pc))
}

type brokenCheck string

// ---------------------------------------------------------------------------

type Obligation struct {
	Rule   string `json:"rule"`
	Key    string `json:"key"`
	Pos    string `json:"pos"`
	OK     bool   `json:"ok"`
	Detail string `json:"detail,omitempty"`
	Known  bool   `json:"known_finding,omitempty"`
}

type knownFinding struct {
	Property  string `json:"property"`
	Key       string `json:"key"`
	WhatFails string `json:"what_fails"`
	Witness   string `json:"witness"`
}

type knownFile struct {
	Findings []knownFinding `json:"findings"`
	Fixed    []string       `json:"fixed"`
}

type violationFile struct {
	Property string `json:"property"`
	Rule     string `json:"rule"`
	Key      string `json:"key"`
	Pos      string `json:"pos"`
	Detail   string `json:"detail"`
	Replay   string `json:"replay_cmd"`
}

func (c *Ctx) loadKnown() {
	b, err := os.ReadFile(filepath.Join(c.Verif, "known_findings.json"))
	if err != nil {
		return
	}
	var kf knownFile
	if err := json.Unmarshal(b, &kf); err != nil {
		c.broken("known_findings.json does not parse: %v", err)
	}
	c.known = map[string]knownFinding{}
	for _, f := range kf.Findings {
		if f.Property == c.Prop {
			c.known[f.Key] = f
		}
	}
}

// broken aborts the run: the check itself cannot give a verdict.
func (c *Ctx) broken(format string, args ...any) {
	panic(brokenCheck(fmt.Sprintf(format, args...)))
}

// finish prints the verdict, writes the evidence file and returns the exit code.
func (c *Ctx) finish(pc *propCheck) int {
	anyFail := false
	for _, o := range c.Obls {
		if !o.OK {
			if _, k := c.known[o.Key]; !k {
				anyFail = true
			}
		}
	}
	for rule, min := range c.minInstances {
		n := 0
		for _, o := range c.Obls {
			if o.Rule == rule {
				n++
			}
		}
		// When a violation is being reported, a rule that depends on the
		// violated shape may legitimately have fewer instances: the report
		// takes precedence over the vacuity guard.
		if n < min && !anyFail {
			// The sites this rule was confirmed on by hand are gone: the rule
			// can no longer establish the property for them. That is reported
			// as a violation of the rule (exit 1), naming the rule and the
			// counts, not as a silent pass and not as a crash of the checker.
			c.Obls = append(c.Obls, Obligation{Rule: rule, Key: rule + "@instances", Pos: "-", OK: false,
				Detail: fmt.Sprintf("rule %s matched %d instance(s), fewer than the %d confirmed by hand on the reference tree: the construct the rule anchors on was removed or rewritten in a form the rule does not recognise, so what it guaranteed there is no longer established", rule, n, min)})
		}
	}
	if len(c.Obls) == 0 {
		c.broken("no obligation was generated")
	}
	sort.SliceStable(c.Obls, func(i, j int) bool { return c.Obls[i].Key < c.Obls[j].Key })
	var viol []Obligation
	knownUsed := 0
	discharged := 0
	distinct := map[string]bool{}
	for i := range c.Obls {
		o := &c.Obls[i]
		distinct[o.Key] = true
		if c.replayKey != "" && o.Key != c.replayKey {
			if o.OK {
				discharged++
			}
			continue
		}
		if o.OK {
			discharged++
			continue
		}
		if k, ok := c.known[o.Key]; ok {
			o.Known = true
			knownUsed++
			fmt.Printf("KNOWN-FINDING: property=%s %s [%s at %s]\n", c.Prop, k.WhatFails, o.Key, o.Pos)
			continue
		}
		viol = append(viol, *o)
	}
	exit := 0
	vdir := filepath.Join(c.Verif, "evidence", "violations")
	for i, v := range viol {
		exit = 1
		path := filepath.Join(vdir, fmt.Sprintf("%s-%d.json", c.Prop, i+1))
		if c.MutantID != "" {
			path = filepath.Join(os.TempDir(), fmt.Sprintf("cuecheck-%s-%s-%d.json", c.Prop, c.MutantID, i+1))
		} else {
			os.MkdirAll(vdir, 0o755)
		}
		vf := violationFile{Property: c.Prop, Rule: v.Rule, Key: v.Key, Pos: v.Pos, Detail: v.Detail,
			Replay: fmt.Sprintf("%s/bin/cuecheck -property %s -replay %s", c.Verif, c.Prop, path)}
		b, _ := json.MarshalIndent(vf, "", " ")
		os.WriteFile(path, b, 0o644)
		fmt.Printf("%s: %s: %s\n", v.Pos, v.Key, v.Detail)
		fmt.Printf("VIOLATION property=%s replay=%s\n", c.Prop, path)
	}
	if c.Verbose {
		for _, o := range c.Obls {
			st := "ok  "
			if !o.OK {
				st = "FAIL"
			}
			fmt.Printf("%s %s %s %s\n", st, o.Key, o.Pos, o.Detail)
		}
	}
	fmt.Printf("cuecheck %s tier=%s: %d obligations, %d discharged, %d violations, %d known findings, %d packages, %.1fs\n",
		c.Prop, c.Tier, len(c.Obls), discharged, len(viol), knownUsed, c.nPkgs, time.Since(c.start).Seconds())
	if c.MutantID == "" && c.replayKey == "" && len(c.Prop) == 3 && c.Prop[0] == 'C' {
		c.writeEvidence(pc, discharged, len(viol), knownUsed, len(distinct))
	}
	return exit
}

func (c *Ctx) writeEvidence(pc *propCheck, discharged, nviol, nknown, ndistinct int) {
	rules := map[string]int{}
	for _, o := range c.Obls {
		rules[o.Rule]++
	}
	var samples []any
	seenRule := map[string]int{}
	for _, o := range c.Obls {
		if seenRule[o.Rule] < 2 && len(samples) < 40 {
			seenRule[o.Rule]++
			samples = append(samples, o)
		}
	}
	funcs := make([]string, 0, len(c.analysed))
	for f := range c.analysed {
		funcs = append(funcs, f)
	}
	sort.Strings(funcs)
	seed := 0
	fmt.Sscan(os.Getenv("VERIF_SEED"), &seed)
	cov := map[string]any{
		"explanation": pc.about + " Static analysis only: nothing under /repo is executed; the verdict is recomputed from the working tree on every run. " +
			"The check decides the named structural clauses (necessary conditions of the property) for every path/case/site of the analysed functions; it does not decide the behaviour itself.",
		"obligations":         len(c.Obls),
		"discharged":          discharged,
		"evaluations":         len(c.Obls),
		"distinct_nontrivial": ndistinct,
		"rule":                "one obligation per (rule, resolved construct); distinct = distinct keys; every obligation is a non-trivial statement about a path set, case set or site set of the current source",
		"checker_cmd":         fmt.Sprintf("%s/bin/cuecheck -property %s -tier %s", c.Verif, c.Prop, c.Tier),
		"trusted_base":        append([]string{"go/types", "go/cfg", "golang.org/x/tools/go/packages", "rule tables in /verif/cuecheck/rules_*.go"}, pc.trust...),
		"rules":               rules,
		"samples":             samples,
		"all_obligations":     c.Obls,
		"analysed_functions":  funcs,
		"packages_loaded":     c.nPkgs,
		"root_packages":       c.rootPkgs,
		"known_findings_used": nknown,
		"notes":               c.Notes,
		"exhaustive":          true,
	}
	if c.SelfTest != nil {
		cov["self_test"] = c.SelfTest
	}
	ev := map[string]any{
		"property_id": c.Prop,
		"tier":        c.Tier,
		"seed":        seed,
		"level":       "other",
		"coverage":    cov,
		"assumptions": append([]string{
			"linux/amd64 build configuration, non-test files",
			"third-party and standard-library callees are trusted to behave as documented",
			"rule tables were filled by reading the pinned tree; each exception carries its reason in the table",
		}, pc.trust...),
		"wall_s":     time.Since(c.start).Seconds(),
		"violations": nviol,
	}
	b, _ := json.MarshalIndent(ev, "", " ")
	dir := filepath.Join(c.Verif, "evidence")
	os.MkdirAll(dir, 0o755)
	if err := os.WriteFile(filepath.Join(dir, c.Prop+".json"), b, 0o644); err != nil {
		c.broken("cannot write evidence: %v", err)
	}
}
