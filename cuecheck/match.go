package main

import (
	"go/ast"
	"go/token"
	"go/types"
	"regexp"
	"strings"

	"golang.org/x/tools/go/types/typeutil"
)

var typeArgsRE = regexp.MustCompile(`\[[^\[\]]*\]`)

// objName renders a function object as "os.Remove", "mod/modcache.(*Cache).Fetch",
// "internal/par.(*ErrCache).Do" (type arguments stripped, module prefix stripped).
func objName(o types.Object) string {
	if o == nil {
		return ""
	}
	switch f := o.(type) {
	case *types.Func:
		f = f.Origin()
		s := f.FullName()
		for typeArgsRE.MatchString(s) {
			s = typeArgsRE.ReplaceAllString(s, "")
		}
		s = strings.ReplaceAll(s, modPrefix, "")
		// "(*mod/modcache.Cache).Fetch" -> "mod/modcache.(*Cache).Fetch"
		if strings.HasPrefix(s, "(") {
			end := strings.Index(s, ")")
			recv := s[1:end]
			star := strings.HasPrefix(recv, "*")
			recv = strings.TrimPrefix(recv, "*")
			dot := strings.LastIndex(recv, ".")
			if dot >= 0 {
				pkg, typ := recv[:dot], recv[dot+1:]
				if star {
					typ = "(*" + typ + ")"
				}
				return pkg + "." + typ + s[end+1:]
			}
		}
		return s
	case *types.Builtin:
		return f.Name()
	}
	if o.Pkg() != nil {
		return strings.TrimPrefix(o.Pkg().Path(), modPrefix) + "." + o.Name()
	}
	return o.Name()
}

// calleeObj resolves the callee of a call through type information.
func calleeObj(info *types.Info, call *ast.CallExpr) types.Object {
	return typeutil.Callee(info, call)
}

func calleeName(info *types.Info, call *ast.CallExpr) string {
	o := calleeObj(info, call)
	if o == nil {
		// conversion or call of a func-typed expression
		return ""
	}
	return objName(o)
}

// identObj returns the object an expression denotes if it is a plain
// identifier (possibly parenthesised).
func identObj(info *types.Info, e ast.Expr) types.Object {
	if id, ok := ast.Unparen(e).(*ast.Ident); ok {
		if o := info.Uses[id]; o != nil {
			return o
		}
		return info.Defs[id]
	}
	return nil
}

// ---------------------------------------------------------------------------
// facts on conditional edges

// A fact is something that certainly holds on a conditional edge.
// Pred "nil": Obj == nil is Truth. Pred "<callee>": the call callee(Obj, …) or
// Obj.callee() evaluated to Truth.
type nilFact struct {
	Obj  types.Object
	Nil  bool
	Pred string // "" for nil-ness facts
}

// condFacts returns the nil-facts about plain variables that certainly hold
// when cond evaluates to truth. Conjunctions are split on the true side,
// disjunctions on the false side. errors.Is(x, …), errors.As(x, …) and a
// successful type assertion on x imply x != nil on the true side.
func condFacts(info *types.Info, cond ast.Expr, truth bool) []nilFact {
	var out []nilFact
	for _, f := range allFacts(info, cond, truth) {
		if f.Pred == "" {
			out = append(out, f)
		}
	}
	return out
}

// allFacts is condFacts plus predicate-call facts (Pred != "", Nil holds the
// truth value of the call).
func allFacts(info *types.Info, cond ast.Expr, truth bool) []nilFact {
	cond = ast.Unparen(cond)
	switch e := cond.(type) {
	case *ast.UnaryExpr:
		if e.Op == token.NOT {
			return allFacts(info, e.X, !truth)
		}
	case *ast.BinaryExpr:
		switch e.Op {
		case token.LAND:
			if truth {
				return append(allFacts(info, e.X, true), allFacts(info, e.Y, true)...)
			}
		case token.LOR:
			if !truth {
				return append(allFacts(info, e.X, false), allFacts(info, e.Y, false)...)
			}
		case token.EQL, token.NEQ:
			var v ast.Expr
			if isNilIdent(e.Y) {
				v = e.X
			} else if isNilIdent(e.X) {
				v = e.Y
			}
			if v != nil {
				if o := identObj(info, v); o != nil {
					isNil := (e.Op == token.EQL) == truth
					return []nilFact{{Obj: o, Nil: isNil}}
				}
			}
		}
	case *ast.CallExpr:
		name := calleeName(info, e)
		var out []nilFact
		var subj types.Object
		if len(e.Args) > 0 {
			subj = identObj(info, e.Args[0])
		}
		if subj == nil {
			if sel, ok := ast.Unparen(e.Fun).(*ast.SelectorExpr); ok {
				subj = identObj(info, sel.X)
			}
		}
		if subj != nil && name != "" {
			out = append(out, nilFact{Obj: subj, Nil: truth, Pred: name})
		}
		if truth {
			switch name {
			case "errors.Is", "errors.As", "os.IsNotExist", "os.IsExist":
				if len(e.Args) > 0 {
					if o := identObj(info, e.Args[0]); o != nil {
						out = append(out, nilFact{Obj: o, Nil: false})
					}
				}
			}
		}
		return out
	}
	return nil
}

func isNilIdent(e ast.Expr) bool {
	id, ok := ast.Unparen(e).(*ast.Ident)
	return ok && id.Name == "nil"
}

// assignedObjs returns the variables assigned or defined by node n itself.
func assignedObjs(info *types.Info, n ast.Node) []types.Object {
	var out []types.Object
	add := func(e ast.Expr) {
		if o := identObj(info, e); o != nil {
			out = append(out, o)
		}
	}
	switch s := n.(type) {
	case *ast.AssignStmt:
		for _, l := range s.Lhs {
			add(l)
		}
	case *ast.ValueSpec:
		for _, id := range s.Names {
			if o := info.Defs[id]; o != nil {
				out = append(out, o)
			}
		}
	case *ast.IncDecStmt:
		add(s.X)
	}
	return out
}

// errVarOfCall returns the variable receiving the error (last) result of
// call in statement node n, or nil if the result is discarded or not an error.
// ok is false when the call does not return an error at all.
func errVarOfCall(info *types.Info, n ast.Node, call *ast.CallExpr) (v types.Object, returnsErr bool) {
	tv, ok := info.Types[call]
	if !ok {
		return nil, false
	}
	var lastIdx, nres int
	switch t := tv.Type.(type) {
	case *types.Tuple:
		nres = t.Len()
		if nres == 0 || !isErrorType(t.At(nres-1).Type()) {
			return nil, false
		}
		lastIdx = nres - 1
	default:
		if !isErrorType(tv.Type) {
			return nil, false
		}
		nres, lastIdx = 1, 0
	}
	switch s := n.(type) {
	case *ast.AssignStmt:
		if len(s.Rhs) == 1 && ast.Unparen(s.Rhs[0]) == call && len(s.Lhs) == nres {
			return identObj(info, s.Lhs[lastIdx]), true
		}
		// x, err := a(), b() style is not used for error calls; look for direct position
		for i, r := range s.Rhs {
			if ast.Unparen(r) == call && len(s.Lhs) == len(s.Rhs) && nres == 1 {
				return identObj(info, s.Lhs[i]), true
			}
		}
	case *ast.ValueSpec:
		if len(s.Values) == 1 && ast.Unparen(s.Values[0]) == call && len(s.Names) == nres {
			return info.Defs[s.Names[lastIdx]], true
		}
	}
	return nil, true
}

// ---------------------------------------------------------------------------
// "B only after A succeeded"

const (
	stNone    = 0 // A not executed (or its outcome was lost)
	stPending = 1 // A executed, error not yet tested
	stOK      = 2 // A executed and its error was tested nil
	stFailed  = 3 // on A's failure branch
)

// successAutomaton tracks, along every path, whether event A (a call in node
// set aNodes whose error result is assigned to a variable) has been executed
// and found to have succeeded. If A returns no error, executing A is success.
func (g *Graph) successAutomaton(aNodes map[int]*ast.CallExpr) Automaton {
	info := g.F.Info()
	errVar := map[int]types.Object{}
	noErr := map[int]bool{}
	direct := map[int]bool{} // A is itself (part of) a condition: `if A() == nil`, `if !A()`
	vars := map[types.Object]bool{}
	for id, call := range aNodes {
		v, returnsErr := errVarOfCall(info, g.Nodes[id].N, call)
		if !returnsErr {
			noErr[id] = true
			continue
		}
		if v != nil && v.Name() != "_" {
			errVar[id] = v
			vars[v] = true
		}
	}
	_ = direct
	return Automaton{
		Init: stNone,
		OnNode: func(id, st int) int {
			if _, ok := aNodes[id]; ok {
				if noErr[id] {
					return stOK
				}
				if errVar[id] != nil {
					return stPending
				}
				// error discarded or used inline (handled on the edge)
				return stPending
			}
			if st == stPending {
				// the error variable is overwritten before being tested
				for _, o := range assignedObjs(info, g.Nodes[id].N) {
					if vars[o] {
						return stNone
					}
				}
			}
			return st
		},
		OnEdge: func(from int, e GEdge, st int) int {
			if e.Cond == nil || st != stPending {
				return st
			}
			// inline form: `if err := A(); err != nil` is covered by errVar;
			// `if A() != nil` / `if A() == nil`:
			if call, ok := aNodes[from]; ok {
				if be, ok := ast.Unparen(e.Cond).(*ast.BinaryExpr); ok && (be.Op == token.EQL || be.Op == token.NEQ) {
					if (ast.Unparen(be.X) == call && isNilIdent(be.Y)) || (ast.Unparen(be.Y) == call && isNilIdent(be.X)) {
						if (be.Op == token.EQL) == e.Truth {
							return stOK
						}
						return stFailed
					}
				}
			}
			for _, f := range condFacts(info, e.Cond, e.Truth) {
				if vars[f.Obj] {
					if f.Nil {
						return stOK
					}
					return stFailed
				}
			}
			return st
		},
	}
}

// onlyAfterSuccess checks that every execution of a node in bNodes happens
// after a successful A on every path. It returns the offending B nodes with
// the state in which they can be reached.
func (g *Graph) onlyAfterSuccess(aNodes map[int]*ast.CallExpr, bNodes []int) (bad []int, states []uint64) {
	in := g.run(g.successAutomaton(aNodes))
	for _, b := range bNodes {
		if in[b]&^(1<<stOK) != 0 {
			bad = append(bad, b)
			states = append(states, in[b])
		}
	}
	return
}

func stateNames(mask uint64) string {
	var s []string
	names := []string{"A-not-executed", "A-executed-error-untested", "A-succeeded", "A-failed"}
	for i, n := range names {
		if mask&(1<<uint(i)) != 0 {
			s = append(s, n)
		}
	}
	return strings.Join(s, "|")
}

// callNodes maps each live node that calls one of names (not deferred) to the call.
func (g *Graph) callNodes(names ...string) map[int]*ast.CallExpr {
	out := map[int]*ast.CallExpr{}
	set := map[string]bool{}
	for _, n := range names {
		set[n] = true
	}
	live := g.live()
	for _, n := range g.Nodes {
		if n.N == nil || !live[n.ID] {
			continue
		}
		for _, c := range callsIn(n.N, false) {
			if set[calleeName(g.F.Info(), c)] {
				out[n.ID] = c
				break
			}
		}
	}
	return out
}

// callNodesWhere is callNodes with an extra predicate on the call.
func (g *Graph) callNodesWhere(pred func(*ast.CallExpr) bool, names ...string) map[int]*ast.CallExpr {
	out := map[int]*ast.CallExpr{}
	for id, c := range g.callNodes(names...) {
		// callNodes keeps the first match only; rescan for one satisfying pred
		for _, cc := range callsIn(g.Nodes[id].N, false) {
			if calleeName(g.F.Info(), cc) == calleeName(g.F.Info(), c) && pred(cc) {
				out[id] = cc
				break
			}
		}
	}
	return out
}

func keys(m map[int]*ast.CallExpr) []int {
	var out []int
	for k := range m {
		out = append(out, k)
	}
	sortInts(out)
	return out
}

func sortInts(a []int) {
	for i := 1; i < len(a); i++ {
		for j := i; j > 0 && a[j] < a[j-1]; j-- {
			a[j], a[j-1] = a[j-1], a[j]
		}
	}
}

// argIsVarFrom reports whether expression e is a variable whose (only)
// definitions in f are calls to callee with a constant string argument equal
// to constArg at position argIdx (e.g. partialPath := c.cachePath(mv, "partial")),
// or is such a call itself.
func (c *Ctx) originCall(f *Fn, e ast.Expr, callee string, argIdx int, constArg string) bool {
	info := f.Info()
	matchCall := func(x ast.Expr) bool {
		call, ok := ast.Unparen(x).(*ast.CallExpr)
		if !ok || calleeName(info, call) != callee {
			return false
		}
		if argIdx < 0 {
			return true
		}
		if argIdx >= len(call.Args) {
			return false
		}
		tv := info.Types[call.Args[argIdx]]
		return tv.Value != nil && strings.Trim(tv.Value.ExactString(), `"`) == constArg
	}
	if matchCall(e) {
		return true
	}
	o := identObj(info, e)
	if o == nil {
		return false
	}
	ndefs, nmatch := 0, 0
	// search the whole enclosing declaration: closures see outer variables
	ast.Inspect(f.Decl.Body, func(n ast.Node) bool {
		switch s := n.(type) {
		case *ast.AssignStmt:
			for i, l := range s.Lhs {
				if identObj(info, l) != o {
					continue
				}
				ndefs++
				if len(s.Rhs) == 1 && i == 0 && matchCall(s.Rhs[0]) {
					nmatch++
				} else if len(s.Rhs) == len(s.Lhs) && matchCall(s.Rhs[i]) {
					nmatch++
				}
			}
		case *ast.ValueSpec:
			for i, id := range s.Names {
				if info.Defs[id] != o {
					continue
				}
				ndefs++
				if len(s.Values) == 1 && i == 0 && matchCall(s.Values[0]) {
					nmatch++
				}
			}
		}
		return true
	})
	return ndefs > 0 && ndefs == nmatch
}

// isFailureReturn reports whether the return node id is certainly a failure
// return: it returns a non-nil error expression, or returns error variable v
// while every path into it crosses an edge establishing v != nil after the
// last assignment of v.
func (g *Graph) isFailureReturn(id int) bool {
	if !g.isSuccessReturn(id) {
		return true
	}
	r := g.Nodes[id].N.(*ast.ReturnStmt)
	if len(r.Results) == 0 {
		return false
	}
	info := g.F.Info()
	v := identObj(info, r.Results[len(r.Results)-1])
	if v == nil || !isErrorType(v.Type()) {
		return false
	}
	// backward search: every path backwards must hit a v!=nil edge before
	// hitting an assignment to v or the entry.
	seen := map[int]bool{}
	var ok func(n int) bool
	ok = func(n int) bool {
		if seen[n] {
			return true
		}
		seen[n] = true
		if len(g.Nodes[n].Preds) == 0 {
			return false
		}
		for _, p := range g.Nodes[n].Preds {
			// which edge p->n ?
			established := false
			for _, e := range g.Nodes[p].Succs {
				if e.To != n || e.Cond == nil {
					continue
				}
				for _, f := range condFacts(info, e.Cond, e.Truth) {
					if f.Obj == v && !f.Nil {
						established = true
					}
				}
			}
			if established {
				continue
			}
			for _, o := range assignedObjs(info, g.Nodes[p].N) {
				if o == v {
					return false
				}
			}
			if !ok(p) {
				return false
			}
		}
		return true
	}
	return ok(id)
}

// successReturns lists return nodes that may return a nil error.
func (g *Graph) successReturns() []int {
	var out []int
	for _, r := range g.returns() {
		if !g.isFailureReturn(r) {
			out = append(out, r)
		}
	}
	return out
}

// mustCrossFact reports whether every path from entry to target crosses an
// edge on which a fact satisfying pred holds.
func (g *Graph) mustCrossFact(target int, pred func(nilFact) bool) bool {
	info := g.F.Info()
	r := g.reach([]int{g.Entry}, nil, func(from int, e GEdge) bool {
		if e.Cond == nil {
			return false
		}
		for _, f := range allFacts(info, e.Cond, e.Truth) {
			if pred(f) {
				return true
			}
		}
		return false
	})
	return !r[target]
}

// mustPassNode reports whether every path from entry to target passes
// through one of the via nodes.
func (g *Graph) mustPassNode(target int, via map[int]bool) bool {
	if via[g.Entry] {
		return true
	}
	r := g.reach([]int{g.Entry}, func(id int) bool { return via[id] }, nil)
	return !r[target] || via[target]
}

// reachableFrom returns nodes reachable from start (excluding start unless on a cycle).
func (g *Graph) reachableFrom(start int) map[int]bool {
	out := map[int]bool{}
	work := []int{start}
	for len(work) > 0 {
		id := work[len(work)-1]
		work = work[:len(work)-1]
		for _, e := range g.Nodes[id].Succs {
			if !out[e.To] {
				out[e.To] = true
				work = append(work, e.To)
			}
		}
	}
	return out
}

func setOf(ids []int) map[int]bool {
	m := map[int]bool{}
	for _, i := range ids {
		m[i] = true
	}
	return m
}

// roots computes where the value of a path-like expression comes from, as a
// set of tags: "call:<callee>[:<const string arg>]", "param:<name>",
// "const", "field:<name>", "other". Path helpers (filepath.Join/Dir/Base,
// string concatenation) are looked through.
func (c *Ctx) roots(f *Fn, e ast.Expr, depth int) map[string]bool {
	out := map[string]bool{}
	info := f.Info()
	var visit func(e ast.Expr, d int)
	seen := map[types.Object]bool{}
	visit = func(e ast.Expr, d int) {
		if d > 8 {
			out["other"] = true
			return
		}
		e = ast.Unparen(e)
		if tv, ok := info.Types[e]; ok && tv.Value != nil {
			out["const"] = true
			return
		}
		switch x := e.(type) {
		case *ast.BinaryExpr:
			visit(x.X, d+1)
			visit(x.Y, d+1)
		case *ast.CallExpr:
			name := calleeName(info, x)
			switch name {
			case "path/filepath.Join", "path/filepath.Dir", "path/filepath.Base", "path/filepath.Clean", "path.Join", "path.Dir", "path/filepath.FromSlash":
				for _, a := range x.Args {
					visit(a, d+1)
				}
				return
			}
			tag := "call:" + name
			for _, a := range x.Args {
				if tv, ok := info.Types[a]; ok && tv.Value != nil && tv.Value.Kind().String() == "String" {
					tag += ":" + strings.Trim(tv.Value.ExactString(), `"`)
				}
			}
			out[tag] = true
		case *ast.SelectorExpr:
			if call, ok := ast.Unparen(x.X).(*ast.CallExpr); ok {
				_ = call
			}
			out["field:"+x.Sel.Name] = true
		case *ast.Ident:
			o := identObj(info, x)
			v, ok := o.(*types.Var)
			if !ok {
				out["other"] = true
				return
			}
			if seen[o] {
				return
			}
			seen[o] = true
			if isParamOf(f, v) {
				out["param:"+v.Name()] = true
				return
			}
			n := 0
			ast.Inspect(f.Decl.Body, func(nd ast.Node) bool {
				switch s := nd.(type) {
				case *ast.AssignStmt:
					for i, l := range s.Lhs {
						if identObj(info, l) != o {
							continue
						}
						n++
						if len(s.Rhs) == len(s.Lhs) {
							visit(s.Rhs[i], d+1)
						} else if len(s.Rhs) == 1 {
							if i == 0 {
								visit(s.Rhs[0], d+1)
							} else {
								out["other"] = true
							}
						}
					}
				case *ast.ValueSpec:
					for i, id := range s.Names {
						if info.Defs[id] != o {
							continue
						}
						n++
						if len(s.Values) == len(s.Names) {
							visit(s.Values[i], d+1)
						} else if len(s.Values) == 1 && i == 0 {
							visit(s.Values[0], d+1)
						}
					}
				case *ast.RangeStmt:
					if identObj(info, s.Key) == o || (s.Value != nil && identObj(info, s.Value) == o) {
						n++
						out["range"] = true
					}
				}
				return true
			})
			if n == 0 {
				out["other"] = true
			}
		default:
			out["other"] = true
		}
	}
	visit(e, depth)
	return out
}

func isParamOf(f *Fn, v *types.Var) bool {
	check := func(ft *ast.FuncType, info *types.Info) bool {
		if ft == nil || ft.Params == nil {
			return false
		}
		for _, fl := range ft.Params.List {
			for _, id := range fl.Names {
				if info.Defs[id] == v {
					return true
				}
			}
		}
		return false
	}
	if check(f.Type, f.Info()) {
		return true
	}
	if f.Decl != nil && check(f.Decl.Type, f.Info()) {
		return true
	}
	return false
}

func hasPrefixKey(m map[string]bool, prefix string) bool {
	for k := range m {
		if strings.HasPrefix(k, prefix) {
			return true
		}
	}
	return false
}

func keysOf(m map[string]bool) string {
	var ks []string
	for k := range m {
		ks = append(ks, k)
	}
	sortStrings(ks)
	return strings.Join(ks, ",")
}

func sortStrings(a []string) {
	for i := 1; i < len(a); i++ {
		for j := i; j > 0 && a[j] < a[j-1]; j-- {
			a[j], a[j-1] = a[j-1], a[j]
		}
	}
}

// pathExact renders a path-valued expression canonically, resolving local
// variables that have a single definition: "param:zipfile",
// "Dir(param:zipfile)", "Join(Dir(call:…downloadDir),…)", `Base(x)+"*.tmp"`.
func (c *Ctx) pathExact(f *Fn, e ast.Expr, depth int) string {
	info := f.Info()
	e = ast.Unparen(e)
	if depth > 8 {
		return exprString(e)
	}
	if tv, ok := info.Types[e]; ok && tv.Value != nil {
		return tv.Value.ExactString()
	}
	switch x := e.(type) {
	case *ast.BinaryExpr:
		return c.pathExact(f, x.X, depth+1) + x.Op.String() + c.pathExact(f, x.Y, depth+1)
	case *ast.CallExpr:
		name := calleeName(info, x)
		short := name
		switch name {
		case "path/filepath.Join", "path/filepath.Dir", "path/filepath.Base", "path/filepath.Clean":
			short = strings.TrimPrefix(name, "path/filepath.")
		default:
			if strings.HasPrefix(name, "mod/modcache.") {
				short = "call:" + name
			}
		}
		var args []string
		for _, a := range x.Args {
			args = append(args, c.pathExact(f, a, depth+1))
		}
		return short + "(" + strings.Join(args, ",") + ")"
	case *ast.Ident:
		o := identObj(info, x)
		v, ok := o.(*types.Var)
		if !ok {
			return x.Name
		}
		if isParamOf(f, v) {
			return "param:" + v.Name()
		}
		var defs []ast.Expr
		multi := false
		ast.Inspect(f.Decl.Body, func(nd ast.Node) bool {
			if as, ok := nd.(*ast.AssignStmt); ok {
				for i, l := range as.Lhs {
					if identObj(info, l) != o {
						continue
					}
					if len(as.Rhs) == len(as.Lhs) {
						defs = append(defs, as.Rhs[i])
					} else if len(as.Rhs) == 1 && i == 0 {
						defs = append(defs, as.Rhs[0])
					} else {
						multi = true
					}
				}
			}
			return true
		})
		if len(defs) >= 1 && !multi {
			// all definitions must agree
			first := c.pathExact(f, defs[0], depth+1)
			for _, d := range defs[1:] {
				if c.pathExact(f, d, depth+1) != first {
					return "var:" + v.Name()
				}
			}
			return first
		}
		return "var:" + v.Name()
	}
	return exprString(e)
}
