package main

import (
	"go/constant"
	"os"
	"fmt"
	"go/ast"
	"go/token"
	"go/types"
	"sort"
	"strings"
)

func init() {
	register(&propCheck{
		id:   "C16",
		pkgs: []string{"mod/modcache", "mod/modregistry"},
		run:  checkC16,
		about: "C16 (module cache never serves a partial download): decides the ORDER OF EFFECTS of the fetch protocol on every control-flow path of " +
			"(*Cache).Fetch, downloadDir, downloadZip, downloadZip1, fetchModFileData, downloadModFile1, writeDiskCache and lockVersion: lock held around extraction, " +
			"re-check after the lock, .partial marker written (successfully) before Unzip and removed only after Unzip succeeded or the tree was removed, " +
			"a partial directory left by a crashed fetch is removed before re-extraction unless the post-lock verdict proves it is not partial, downloadDir reports success only with directory present and marker absent, temp-file + close + rename for zip and module file, " +
			"download helpers reachable only through the single-flight caches and under the version lock, and ownership of every mutating file-system call on a protocol artefact. " +
			"A crash can only fall between two effects, so constraining the order of effects on all paths covers all crash points of these functions.",
		trust: []string{"lockedfile.Mutex is a correct inter-process lock", "os.Rename is atomic on the cache file system", "modzip.Unzip content (C15)"},
	})
}

const mc = "mod/modcache."

func checkC16(c *Ctx) {
	c.checkFieldWriters("ownership.field-writers", "mod/modcache", "Cache", map[string][]string{"dir": {"New"}, "reg": {"New"}})
	// errcheck-style baseline: a newly discarded error in the package is a dropped protocol/validation step
	c.checkErrorDiscipline("errors.no-new-dropped-error", "mod/modcache", map[string]string{
		"(*Cache).Fetch|os.ReadDir": "listing stale temp directories is best effort (a missing parent simply lists nothing)",
		"(*Cache).Fetch|mod/modcache.RemoveAll": "removing stale <dir>.tmp-* siblings is best effort (comment in the source)",
		"(*Cache).Fetch|os.Remove": "failure path after Unzip failed: the marker is dropped only if the tree was removed; a failing Remove leaves the marker, which is the safe state",
		"(*Cache).downloadZip1|os.Remove": "removing stale temp files of previous runs is best effort",
		"RemoveAll|path/filepath.WalkDir": "chmod walk before removal is best effort; robustio.RemoveAll's error is returned",
		"RemoveAll|os.Chmod": "as above",
		"makeDirsReadOnly|path/filepath.WalkDir": "documented best-effort",
		"makeDirsReadOnly|os.Chmod": "documented best-effort",
	})
	c16Fetch(c)
	c16DownloadDir(c)
	c16TempRename(c, c.fn("mod/modcache", "(*Cache).downloadZip1"), "zipfile", []string{"io.Copy"})
	c16TempRename(c, c.fn("mod/modcache", "(*Cache).writeDiskCache"), "file", []string{"os.(*File).Write"})
	c16SingleFlight(c)
	c16Ownership(c)
	c16Misc(c)
	c16SourceVerified(c)
	c.expect("fetch.unzip-under-lock", 1)
	c.expect("fetch.marker-before-unzip", 1)
	c.expect("fetch.marker-removed-before-success", 1)
	c.expect("downloadDir.success-needs-dir-and-no-marker", 4)
	c.expect("temp-rename.rename-after-write-and-close", 2)
	c.expect("ownership.effect-site", 8)
}

// partialArg is a predicate on calls: the argument at idx originates from
// cachePath(_, "partial").
func c16IsPartial(c *Ctx, f *Fn, e ast.Expr) bool {
	return c.originCall(f, e, mc+"(*Cache).cachePath", 1, "partial")
}

func c16Fetch(c *Ctx) {
	f := c.fn("mod/modcache", "(*Cache).Fetch")
	g := c.graph(f)
	info := f.Info()

	if os.Getenv("CUECHECK_DUMP") != "" {
		g.dump(c)
	}
	unzip := g.callNodes("mod/modzip.Unzip")
	lock := g.callNodes(mc + "(*Cache).lockVersion")
	if len(unzip) == 0 {
		c.broken("anchor: (*Cache).Fetch no longer calls modzip.Unzip; C16 rule table needs re-reading")
	}
	if !c.check("fetch.lock-present", f.Name, f.Body.Pos(), len(lock) > 0, "Fetch must take the per-version lock (lockVersion) before extracting") {
		return
	}

	// 1. Unzip only after lockVersion succeeded, and the unlock is deferred
	// before Unzip (so it is held until return).
	bad, st := g.onlyAfterSuccess(lock, keys(unzip))
	c.check("fetch.unzip-under-lock", f.Name, g.pos(keys(unzip)[0]), len(bad) == 0,
		fmt.Sprintf("modzip.Unzip must be reached only after lockVersion succeeded (reachable states: %s)", maskStr(st)))

	var unlockVar types.Object
	for id, call := range lock {
		if as, ok := g.Nodes[id].N.(*ast.AssignStmt); ok && len(as.Rhs) == 1 && ast.Unparen(as.Rhs[0]) == call && len(as.Lhs) == 2 {
			unlockVar = identObj(info, as.Lhs[0])
		}
	}
	deferUnlock := g.find(func(n ast.Node) bool {
		d, ok := n.(*ast.DeferStmt)
		return ok && unlockVar != nil && identObj(info, d.Call.Fun) == unlockVar
	})
	okDefer := len(deferUnlock) > 0
	for _, u := range keys(unzip) {
		if !g.mustPassNode(u, setOf(deferUnlock)) {
			okDefer = false
		}
	}
	// no explicit unlock() call before return
	explicit := g.find(func(n ast.Node) bool {
		if _, isDefer := n.(*ast.DeferStmt); isDefer {
			return false
		}
		for _, call := range callsIn(n, false) {
			if unlockVar != nil && identObj(info, call.Fun) == unlockVar {
				return true
			}
		}
		return false
	})
	c.check("fetch.unlock-deferred", f.Name, f.Body.Pos(), okDefer && len(explicit) == 0,
		"the unlock function returned by lockVersion must be deferred (held until Fetch returns) on every path to Unzip, and not called early")

	// 2. re-check after the lock: every destructive effect after the lock is
	// reached only when a post-lock downloadDir call reported an error.
	var lockID int
	for id := range lock {
		lockID = id
	}
	after := g.reachableFrom(lockID)
	recheck := map[int]*ast.CallExpr{}
	for id, call := range g.callNodes(mc + "(*Cache).downloadDir") {
		if after[id] {
			recheck[id] = call
		}
	}
	destructive := g.callNodes("mod/modzip.Unzip", mc+"RemoveAll", "internal/robustio.WriteFile", "os.WriteFile", "os.RemoveAll", "internal/robustio.RemoveAll", "os.Remove", "os.MkdirAll")
	var destr []int
	for id := range destructive {
		if after[id] {
			destr = append(destr, id)
		}
	}
	sort.Ints(destr)
	ok2 := len(recheck) > 0
	detail := "no downloadDir re-check after lockVersion"
	if ok2 {
		detail = "every effect after the lock is reached only when the post-lock downloadDir re-check reported not-present"
		in := g.run(g.successAutomaton(recheck))
		for _, d := range destr {
			if in[d]&^(1<<stFailed) != 0 {
				ok2 = false
				detail = fmt.Sprintf("effect at %s reachable in state %s of the post-lock downloadDir re-check (must be: re-check executed and reported not-present)", c.pos(g.pos(d)), stateNames(in[d]))
				break
			}
		}
	}
	c.check("fetch.recheck-after-lock", f.Name, g.pos(lockID), ok2, detail)
	// and the success edge of that re-check returns without touching anything
	// (implied: all effects are unreachable in stOK).

	// 3. marker written before Unzip.
	marker := g.callNodesWhere(func(call *ast.CallExpr) bool {
		return len(call.Args) > 0 && c16IsPartial(c, f, call.Args[0])
	}, "internal/robustio.WriteFile", "os.WriteFile")
	ok3 := len(marker) > 0
	d3 := "no WriteFile(cachePath(mv, \"partial\")) in Fetch"
	if ok3 {
		bad, st := g.onlyAfterSuccess(marker, keys(unzip))
		ok3 = len(bad) == 0
		d3 = fmt.Sprintf("Unzip must be reached only after the .partial marker was written successfully (reachable states: %s)", maskStr(st))
	}
	c.check("fetch.marker-before-unzip", f.Name, g.pos(keys(unzip)[0]), ok3, d3)

	// 3b. nothing creates the extraction directory (or anything inside it)
	// before the marker exists: downloadDir reads "directory present, marker
	// absent" as "complete", so the directory must come second.
	creators := g.callNodes("os.MkdirAll", "os.Mkdir", "os.OpenFile", "os.Create", "os.WriteFile", "internal/robustio.WriteFile", "os.Rename", "internal/robustio.Rename", "mod/modzip.Unzip")
	var early []string
	nCreators := 0
	if len(marker) > 0 {
		in := g.run(g.successAutomaton(marker))
		for _, id := range keys(creators) {
			call := creators[id]
			for ai, a := range call.Args {
				if ai > 1 {
					break
				}
				sh := c.pathExact(f, a, 0)
				if strings.HasPrefix(sh, "call:"+mc+"(*Cache).downloadDir") || strings.HasPrefix(sh, "Join(call:"+mc+"(*Cache).downloadDir") {
					nCreators++
					if in[id]&^(1<<stOK) != 0 {
						early = append(early, fmt.Sprintf("%s(%s) at %s", calleeName(info, call), sh, c.pos(g.pos(id))))
					}
				}
			}
		}
	}
	c.check("fetch.dir-created-only-after-marker", f.Name, f.Body.Pos(), len(early) == 0 && nCreators > 0,
		"every call that can create the extraction directory itself (or files in it) must come after the .partial marker was written successfully; offending: "+strings.Join(early, "; "))

	// 4/5. marker life cycle automaton.
	const (
		mNone      = 0 // marker not yet written
		mWritten   = 1 // marker on disk, extraction not started
		mUnzipPend = 2
		mUnzipOK   = 3 // tree complete, marker still on disk
		mUnzipBad  = 4 // half-extracted tree may exist
		mRmAllPend = 5
		mTreeGone  = 6 // half-extracted tree removed
		mRmPend    = 7 // os.Remove(marker) executed after success, untested
		mClean     = 8 // marker removed after successful extraction
		mRmFailed  = 9
		mDropped   = 10 // marker removed on the failure path (tree gone)
	)
	rmMarker := g.callNodesWhere(func(call *ast.CallExpr) bool {
		return len(call.Args) > 0 && c16IsPartial(c, f, call.Args[0])
	}, "os.Remove", "internal/robustio.Remove")
	rmAll := g.callNodesWhere(func(call *ast.CallExpr) bool {
		if len(call.Args) == 0 {
			return false
		}
		r := c.roots(f, call.Args[0], 0)
		return r["call:"+mc+"(*Cache).downloadDir"]
	}, mc+"RemoveAll", "os.RemoveAll", "internal/robustio.RemoveAll")
	errVarAt := func(m map[int]*ast.CallExpr, id int) types.Object {
		v, _ := errVarOfCall(info, g.Nodes[id].N, m[id])
		return v
	}
	var badRemove, badReturn, droppedOnFailure []string
	aut := Automaton{
		Init: mNone,
		OnNode: func(id, st int) int {
			if _, ok := marker[id]; ok {
				return mWritten
			}
			if _, ok := unzip[id]; ok {
				return mUnzipPend
			}
			if _, ok := rmAll[id]; ok && (st == mUnzipBad) {
				return mRmAllPend
			}
			if _, ok := rmMarker[id]; ok {
				switch st {
				case mUnzipOK:
					return mRmPend
				case mTreeGone:
					droppedOnFailure = append(droppedOnFailure, c.pos(g.pos(id)))
					return mDropped
				case mNone:
					return mNone
				default:
					badRemove = append(badRemove, fmt.Sprintf("%s in state %d", c.pos(g.pos(id)), st))
					return st
				}
			}
			return st
		},
		OnEdge: func(from int, e GEdge, st int) int {
			if e.Cond == nil {
				return st
			}
			facts := condFacts(info, e.Cond, e.Truth)
			has := func(m map[int]*ast.CallExpr, nilv bool) bool {
				for id := range m {
					v := errVarAt(m, id)
					for _, f := range facts {
						if v != nil && f.Obj == v && f.Nil == nilv {
							return true
						}
					}
				}
				return false
			}
			switch st {
			case mUnzipPend:
				if has(unzip, true) {
					return mUnzipOK
				}
				if has(unzip, false) {
					return mUnzipBad
				}
			case mRmAllPend:
				if has(rmAll, true) {
					return mTreeGone
				}
				if has(rmAll, false) {
					return mUnzipBad
				}
			case mRmPend:
				if has(rmMarker, true) {
					return mClean
				}
				if has(rmMarker, false) {
					return mRmFailed
				}
			}
			return st
		},
	}
	in := g.run(aut)
	for _, r := range g.successReturns() {
		// success is allowed before the marker exists (already extracted) and
		// after it was removed following a successful extraction.
		if in[r]&^(1<<mNone|1<<mClean) != 0 {
			badReturn = append(badReturn, fmt.Sprintf("%s states=%b", c.pos(g.pos(r)), in[r]))
		}
	}
	c.check("fetch.marker-removed-before-success", f.Name, f.Body.Pos(), len(badReturn) == 0 && len(rmMarker) > 0,
		"every success return after the marker was written must follow a successful os.Remove(marker) that follows a successful Unzip; offending: "+strings.Join(badReturn, "; "))
	sort.Strings(badRemove)
	c.check("fetch.marker-dropped-only-when-safe", f.Name, f.Body.Pos(), len(badRemove) == 0,
		"os.Remove(marker) may run only after Unzip succeeded, or after Unzip failed and RemoveAll(dir) succeeded; offending: "+strings.Join(uniq(badRemove), "; "))

	// 5b. the marker survives a failed extraction. downloadDir is lock-free and
	// reads stat(dir) first, stat(marker) second; a writer that rolls a failed
	// extraction back by removing the directory and then the marker lets a
	// reader that saw the half-extracted directory find the marker gone and
	// report that directory as complete. Leaving the marker (the state a crash
	// leaves, cleaned up under the lock by the next Fetch) closes the window.
	sort.Strings(droppedOnFailure)
	c.check("fetch.marker-kept-on-failed-extraction", f.Name, f.Body.Pos(), len(droppedOnFailure) == 0,
		"os.Remove(marker) must not run on the failure path of Unzip: the lock-free reader (downloadDir: stat(dir), then stat(.partial)) can observe the directory during extraction and the missing marker after the rollback, and report a directory that was never complete; offending: "+strings.Join(uniq(droppedOnFailure), "; "))

	// 6. stale-directory cleanup only under the lock.
	var cleanup []int
	for id := range g.callNodes(mc+"RemoveAll", "os.RemoveAll", "internal/robustio.RemoveAll") {
		cleanup = append(cleanup, id)
	}
	sort.Ints(cleanup)
	bad6, st6 := g.onlyAfterSuccess(lock, cleanup)
	c.check("fetch.cleanup-under-lock", f.Name, f.Body.Pos(), len(bad6) == 0 && len(cleanup) > 0,
		fmt.Sprintf("RemoveAll of stale/partial directories is only safe with the version lock held (states: %s)", maskStr(st6)))

	// 7. arguments of Unzip: target is the downloadDir directory, source the downloaded zip.
	for id, call := range unzip {
		okArgs := len(call.Args) == 3 &&
			c.roots(f, call.Args[0], 0)["call:"+mc+"(*Cache).downloadDir"] &&
			c.roots(f, call.Args[2], 0)["call:"+mc+"(*Cache).downloadZip"]
		c.check("fetch.unzip-args", f.Name, g.pos(id), okArgs,
			"Unzip must extract the zip returned by downloadZip into the directory computed by downloadDir (the one whose completeness downloadDir later reports)")
	}
	// 8. Fetch's first early success is guarded by downloadDir success.
	first := map[int]*ast.CallExpr{}
	for id, call := range g.callNodes(mc + "(*Cache).downloadDir") {
		if !after[id] {
			first[id] = call
		}
	}
	okEarly := len(first) > 0
	if okEarly {
		in := g.run(g.successAutomaton(first))
		for _, r := range g.successReturns() {
			if !after[r] && in[r]&^(1<<stOK) != 0 {
				okEarly = false
				c.note("early return %s states %s", c.pos(g.pos(r)), stateNames(in[r]))
			}
		}
	}
	c.check("fetch.early-return-needs-complete-dir", f.Name, f.Body.Pos(), okEarly,
		"a success return before the lock is taken must be guarded by downloadDir reporting a complete directory")

	// 9. a partially extracted directory left by a crashed fetch is removed
	// before the zip is extracted again (Unzip refuses a non-empty target):
	// between the lock and Unzip, RemoveAll(dir) may be skipped only on an
	// edge that proves the post-lock verdict is not a *downloadDirPartialError
	// (comma-ok type assertion or errors.As on that type).
	var dirObj types.Object
	for _, call := range unzip {
		if len(call.Args) > 0 {
			dirObj = identObj(info, call.Args[0])
		}
	}
	rmDir := g.callNodesWhere(func(call *ast.CallExpr) bool {
		return len(call.Args) == 1 && dirObj != nil && identObj(info, call.Args[0]) == dirObj
	}, mc+"RemoveAll", "os.RemoveAll", "internal/robustio.RemoveAll")
	isPartialT := func(t types.Type) bool {
		if p, ok := t.(*types.Pointer); ok {
			if n, ok := p.Elem().(*types.Named); ok {
				return n.Obj().Name() == "downloadDirPartialError" && n.Obj().Pkg() != nil && strings.HasSuffix(n.Obj().Pkg().Path(), "mod/modcache")
			}
		}
		return false
	}
	partialAtom := func(e ast.Expr) (bool, bool) {
		switch x := e.(type) {
		case *ast.Ident:
			// ok of `_, ok := err.(*downloadDirPartialError)`
			o := info.Uses[x]
			found := false
			ast.Inspect(f.Body, func(n ast.Node) bool {
				as, isAs := n.(*ast.AssignStmt)
				if !isAs || len(as.Lhs) != 2 || len(as.Rhs) != 1 || o == nil || identObj(info, as.Lhs[1]) != o {
					return true
				}
				if ta, isTA := ast.Unparen(as.Rhs[0]).(*ast.TypeAssertExpr); isTA && ta.Type != nil && isPartialT(info.TypeOf(ta.Type)) {
					found = true
				}
				return true
			})
			return found, true
		case *ast.CallExpr:
			if calleeName(info, x) == "errors.As" && len(x.Args) == 2 {
				if u, ok := ast.Unparen(x.Args[1]).(*ast.UnaryExpr); ok && u.Op == token.AND && isPartialT(info.TypeOf(u.X)) {
					return true, true
				}
			}
		}
		return false, false
	}
	okRm := len(rmDir) > 0
	nProof := 0
	r9 := g.reach([]int{lockID}, func(id int) bool { _, is := rmDir[id]; return is }, func(from int, e GEdge) bool {
		if e.Cond == nil {
			return false
		}
		p := atomOnEdge(e.Cond, e.Truth, partialAtom)
		if p.present && p.good && !p.bad && !p.na {
			nProof++
			return true
		}
		return false
	})
	for u := range unzip {
		if r9[u] {
			okRm = false
		}
	}
	c.check("fetch.partial-dir-removed-before-unzip", f.Name, f.Body.Pos(), okRm,
		fmt.Sprintf("between lockVersion and Unzip, RemoveAll(dir) may be skipped only on an edge proving the post-lock downloadDir verdict is not a *downloadDirPartialError (type assertion / errors.As); a partial directory left by a crashed fetch would otherwise make Unzip refuse the non-empty target and the next fetch fail (proof edges seen: %d)", nProof))
}

func maskStr(ms []uint64) string {
	var all uint64
	for _, m := range ms {
		all |= m
	}
	if all == 0 {
		return "A-succeeded"
	}
	return stateNames(all)
}

func uniq(a []string) []string {
	var out []string
	seen := map[string]bool{}
	for _, s := range a {
		if !seen[s] {
			seen[s] = true
			out = append(out, s)
		}
	}
	return out
}

func c16DownloadDir(c *Ctx) {
	f := c.fn("mod/modcache", "(*Cache).downloadDir")
	g := c.graph(f)
	info := f.Info()
	stats := g.callNodes("os.Stat", "os.Lstat")
	var statDir, statPartial = -1, -1
	for _, id := range sortedKeys(stats) {
		call := stats[id]
		if len(call.Args) == 1 && c16IsPartial(c, f, call.Args[0]) {
			statPartial = id
		} else {
			statDir = id
		}
	}
	if !c.check("downloadDir.stats-present", f.Name, f.Body.Pos(), statDir >= 0 && statPartial >= 0,
		"downloadDir must stat both the extraction directory and the .partial marker") {
		return
	}
	dirErr, _ := errVarOfCall(info, g.Nodes[statDir].N, stats[statDir])
	partErr, _ := errVarOfCall(info, g.Nodes[statPartial].N, stats[statPartial])
	var fiVar types.Object
	if as, ok := g.Nodes[statDir].N.(*ast.AssignStmt); ok && len(as.Lhs) == 2 {
		fiVar = identObj(info, as.Lhs[0])
	}
	n := 0
	for _, r := range g.successReturns() {
		n++
		name := fmt.Sprintf("%s#return%d", f.Name, n)
		p := g.pos(r)
		c.check("downloadDir.success-needs-dir-and-no-marker", name+"/stat-dir-ok", p,
			dirErr != nil && g.mustCrossFact(r, func(ft nilFact) bool { return ft.Pred == "" && ft.Obj == dirErr && ft.Nil }),
			"a nil-error return must lie behind os.Stat(dir) having succeeded")
		c.check("downloadDir.success-needs-dir-and-no-marker", name+"/is-dir", p,
			fiVar != nil && g.mustCrossFact(r, func(ft nilFact) bool {
				return ft.Obj == fiVar && strings.HasSuffix(ft.Pred, ".IsDir") && ft.Nil
			}),
			"a nil-error return must lie behind fi.IsDir() being true")
		c.check("downloadDir.success-needs-dir-and-no-marker", name+"/marker-stat-failed", p,
			partErr != nil && g.mustCrossFact(r, func(ft nilFact) bool { return ft.Pred == "" && ft.Obj == partErr && !ft.Nil }),
			"a nil-error return must lie behind os.Stat(.partial) having FAILED (marker absent)")
		c.check("downloadDir.success-needs-dir-and-no-marker", name+"/marker-not-exist", p,
			partErr != nil && g.mustCrossFact(r, func(ft nilFact) bool { return ft.Obj == partErr && ft.Pred == "os.IsNotExist" && ft.Nil }),
			"a nil-error return must lie behind os.IsNotExist(err) for the marker (any other stat error is not 'absent')")
		// the directory returned is the one that was checked
		ret := g.Nodes[r].N.(*ast.ReturnStmt)
		okSame := false
		if len(ret.Results) == 2 {
			a := identObj(info, ret.Results[0])
			b := identObj(info, stats[statDir].Args[0])
			okSame = a != nil && a == b
		}
		c.check("downloadDir.returns-checked-dir", name, p, okSame, "the directory returned on success must be the one that was stat'ed")
	}
	// downloadDir runs without the version lock. The writer (Fetch) creates the
	// marker, then the directory, and removes the marker last; a lock-free
	// reader is sound only if it reads in the opposite order — directory first,
	// marker second: "directory present, then marker absent" implies the marker
	// was removed after the directory was complete. Marker first, directory
	// second can see "no marker" before the extraction starts and the directory
	// while it is being filled.
	r := g.reach([]int{g.Entry}, func(x int) bool { return x == statDir }, nil)
	early := false
	for _, id := range sortedKeys(stats) {
		call := stats[id]
		if id != statDir && len(call.Args) == 1 && c16IsPartial(c, f, call.Args[0]) && r[id] {
			early = true
		}
	}
	c.check("downloadDir.marker-read-after-directory", f.Name, g.pos(statPartial), !early,
		"the lock-free availability test must stat the extraction directory before the .partial marker on every path (reverse of the writer's order: marker created, directory created, marker removed); with the marker read first a reader can report a directory that is still being extracted")
	// the marker path checked here is the one Fetch writes: both originate
	// from cachePath(_, "partial") (checked by c16IsPartial on both sides).
}

// c16TempRename checks the temp-file + close + rename discipline.
func c16TempRename(c *Ctx, f *Fn, finalParam string, writers []string) {
	g := c.graph(f)
	info := f.Info()
	var final types.Object
	for _, fl := range f.Type.Params.List {
		for _, id := range fl.Names {
			if id.Name == finalParam {
				final = info.Defs[id]
			}
		}
	}
	if final == nil {
		c.broken("anchor: %s has no parameter %q", f.Name, finalParam)
	}
	temp := g.callNodes(mc + "tempFile")
	rename := g.callNodes("os.Rename", "internal/robustio.Rename")
	if !c.check("temp-rename.shape", f.Name, f.Body.Pos(), len(temp) == 1 && len(rename) >= 1,
		"the final cache file must be produced by tempFile(...) followed by a rename") {
		return
	}
	var tempID int
	var fVar types.Object
	for id, call := range temp {
		tempID = id
		if as, ok := g.Nodes[id].N.(*ast.AssignStmt); ok && len(as.Rhs) == 1 && ast.Unparen(as.Rhs[0]) == call {
			fVar = identObj(info, as.Lhs[0])
		}
	}
	isF := func(e ast.Expr) bool { return fVar != nil && identObj(info, e) == fVar }
	// writer: io.Copy(f, r) or f.Write(data)
	write := g.callNodesWhere(func(call *ast.CallExpr) bool {
		if len(call.Args) > 0 && isF(call.Args[0]) {
			return true
		}
		if sel, ok := ast.Unparen(call.Fun).(*ast.SelectorExpr); ok && isF(sel.X) {
			return true
		}
		return false
	}, append(writers, "io.Copy", "os.(*File).Write", "os.(*File).WriteString", "os.(*File).ReadFrom")...)
	closeF := g.callNodesWhere(func(call *ast.CallExpr) bool {
		sel, ok := ast.Unparen(call.Fun).(*ast.SelectorExpr)
		return ok && isF(sel.X)
	}, "os.(*File).Close")
	rn := keys(rename)
	okArgs := true
	for _, id := range rn {
		call := rename[id]
		if len(call.Args) != 2 || identObj(info, call.Args[1]) != final {
			okArgs = false
			continue
		}
		src, ok := ast.Unparen(call.Args[0]).(*ast.CallExpr)
		if !ok || calleeName(info, src) != "os.(*File).Name" {
			okArgs = false
			continue
		}
		if sel, ok := ast.Unparen(src.Fun).(*ast.SelectorExpr); !ok || !isF(sel.X) {
			okArgs = false
		}
	}
	c.check("temp-rename.rename-args", f.Name, g.pos(rn[0]), okArgs, "rename must move the temp file (f.Name()) onto the final path parameter "+finalParam)

	okOrder := len(write) > 0 && len(closeF) > 0
	d := "temp file must be written and closed"
	if okOrder {
		b1, s1 := g.onlyAfterSuccess(temp, rn)
		b2, s2 := g.onlyAfterSuccess(write, rn)
		b3, s3 := g.onlyAfterSuccess(closeF, rn)
		b4, s4 := g.onlyAfterSuccess(write, keys(closeF))
		okOrder = len(b1)+len(b2)+len(b3)+len(b4) == 0
		d = fmt.Sprintf("rename only after tempFile ok [%s], content written ok [%s], Close ok [%s]; Close after the write [%s]",
			maskStr(s1), maskStr(s2), maskStr(s3), maskStr(s4))
	}
	c.check("temp-rename.rename-after-write-and-close", f.Name, g.pos(rn[0]), okOrder, d)

	// every success return after tempFile needs a successful rename
	after := g.reachableFrom(tempID)
	in := g.run(g.successAutomaton(rename))
	var bad []string
	for _, r := range g.successReturns() {
		if after[r] && in[r]&^(1<<stOK) != 0 {
			bad = append(bad, c.pos(g.pos(r))+" "+stateNames(in[r]))
		}
	}
	c.check("temp-rename.success-needs-rename", f.Name, f.Body.Pos(), len(bad) == 0,
		"a success return after the temp file was created must follow a successful rename; offending: "+strings.Join(bad, "; "))

	// the final path is never written in place: it may only be passed to
	// read-only or path functions, and as the rename target.
	var misuse []string
	ast.Inspect(f.Body, func(n ast.Node) bool {
		call, ok := n.(*ast.CallExpr)
		if !ok {
			return true
		}
		name := calleeName(info, call)
		for i, a := range call.Args {
			if identObj(info, a) != final {
				continue
			}
			switch {
			case name == "os.Stat", name == "os.Lstat", strings.HasPrefix(name, "path/filepath."), strings.HasPrefix(name, "path."),
				name == "os.Open", name == "internal/robustio.ReadFile", name == "os.ReadFile",
				name == mc+"logf", name == "fmt.Errorf", name == "fmt.Sprintf":
			case (name == "os.Rename" || name == "internal/robustio.Rename") && i == 1:
			default:
				misuse = append(misuse, fmt.Sprintf("%s passed to %s (arg %d) at %s", finalParam, name, i, c.pos(call.Pos())))
			}
		}
		return true
	})
	c.check("temp-rename.final-path-not-written-in-place", f.Name, f.Body.Pos(), len(misuse) == 0,
		"the final cache path may only be stat'ed/read and used as rename target; "+strings.Join(misuse, "; "))

	// stale-temp cleanup must match exactly the temp files this function
	// creates (same directory, same prefix): a wider pattern deletes the
	// in-flight temp files of other versions, which hold a different lock.
	tcall := temp[tempID]
	for id, gl := range g.callNodes("path/filepath.Glob") {
		okGlob := false
		det := "glob pattern is not Join(dir, prefix+const)"
		if len(gl.Args) == 1 && len(tcall.Args) >= 3 {
			pat := c.pathExact(f, gl.Args[0], 0)
			dirS := c.pathExact(f, tcall.Args[1], 0)
			pre := c.pathExact(f, tcall.Args[2], 0)
			want1 := "Join(call:" + mc + "quoteGlob(" + dirS + ")," + pre + "+"
			want2 := "Join(" + dirS + "," + pre + "+"
			okGlob = strings.HasPrefix(pat, want1) || strings.HasPrefix(pat, want2)
			det = fmt.Sprintf("cleanup glob %s must be anchored at tempFile's directory %s and prefix %s", pat, dirS, pre)
		}
		c.check("temp-rename.cleanup-matches-own-temps", f.Name, g.pos(id), okGlob, det)
	}

	// re-check before any effect (downloadZip1 only: the caller of
	// writeDiskCache re-checks in fetchModFileData).
	if finalParam == "zipfile" {
		stat := g.callNodesWhere(func(call *ast.CallExpr) bool {
			return len(call.Args) == 1 && identObj(info, call.Args[0]) == final
		}, "os.Stat")
		effects := g.callNodes(mc+"tempFile", "os.MkdirAll", "os.Remove", "os.Rename", "internal/robustio.Rename")
		ok := len(stat) > 0
		det := "no os.Stat(zipfile) re-check"
		if ok {
			det = "every effect is reached only after os.Stat(zipfile) failed"
			in := g.run(g.successAutomaton(stat))
			for _, id := range keys(effects) {
				if in[id]&^(1<<stFailed) != 0 {
					ok = false
					det = fmt.Sprintf("effect at %s reachable in state %s of the os.Stat(zipfile) re-check", c.pos(g.pos(id)), stateNames(in[id]))
				}
			}
		}
		c.check("temp-rename.recheck-before-download", f.Name, f.Body.Pos(), ok, det)
	}
}

// c16SingleFlight: the download helpers run only inside the single-flight
// caches and under the version lock, after a post-lock re-check.
func c16SingleFlight(c *Ctx) {
	p := c.pkg("mod/modcache")
	callersOf := func(target string) map[string][]*ast.CallExpr {
		out := map[string][]*ast.CallExpr{}
		for _, f := range c.funcs(p) {
			ast.Inspect(f.Body, func(n ast.Node) bool {
				if call, ok := n.(*ast.CallExpr); ok && calleeName(f.Info(), call) == target {
					out[f.Name] = append(out[f.Name], call)
				}
				return true
			})
			// method values / function values referring to target without calling
			ast.Inspect(f.Body, func(n ast.Node) bool {
				if sel, ok := n.(*ast.SelectorExpr); ok {
					if o, ok := f.Info().Uses[sel.Sel].(*types.Func); ok && objName(o) == target {
						if _, seen := out[f.Name]; !seen {
							out[f.Name] = nil
						}
					}
				}
				return true
			})
		}
		return out
	}
	only := func(rule, target string, allowed ...string) {
		got := callersOf(target)
		var extra []string
		for name := range got {
			ok := false
			for _, a := range allowed {
				if name == a {
					ok = true
				}
			}
			if !ok {
				extra = append(extra, name)
			}
		}
		sort.Strings(extra)
		tf := c.fn("mod/modcache", strings.TrimPrefix(target, mc))
		c.check(rule, target, tf.Decl.Pos(), len(extra) == 0 && len(got) > 0,
			fmt.Sprintf("%s may be called only from %v; other callers: %v", target, allowed, extra))
	}
	only("single-flight.who-may-call", mc+"(*Cache).downloadZip1", mc+"(*Cache).downloadZip")
	only("single-flight.who-may-call", mc+"(*Cache).downloadModFile1", mc+"(*Cache).fetchModFileData")
	only("single-flight.who-may-call", mc+"(*Cache).fetchModFileData", mc+"(*Cache).ModFile")
	only("single-flight.who-may-call", mc+"(*Cache).writeDiskModFile", mc+"(*Cache).downloadModFile1")
	only("single-flight.who-may-call", mc+"(*Cache).writeDiskCache", mc+"(*Cache).writeDiskModFile")

	// downloadZip: the call of downloadZip1 sits inside the closure passed to
	// downloadZipCache.Do, after lockVersion succeeded, with unlock deferred.
	dz := c.fn("mod/modcache", "(*Cache).downloadZip")
	cl := c.litArgOf(dz, "internal/par.(*ErrCache).Do")
	if c.check("single-flight.closure", dz.Name, dz.Decl.Pos(), cl != nil, "downloadZip must run its body inside par.ErrCache.Do (one download per version per process)") {
		// the receiver of Do is the downloadZipCache field and the key is mv
		g := c.graph(cl)
		lock := g.callNodes(mc + "(*Cache).lockVersion")
		dl := g.callNodes(mc + "(*Cache).downloadZip1")
		bad, st := g.onlyAfterSuccess(lock, keys(dl))
		c.check("single-flight.download-under-lock", cl.Name, cl.Body.Pos(), len(dl) > 0 && len(lock) > 0 && len(bad) == 0,
			"downloadZip1 must be called with the version lock held: "+maskStr(st))
		c.check("single-flight.unlock-deferred", cl.Name, cl.Body.Pos(), c16DeferUnlock(g, lock, keys(dl)), "unlock must be deferred before downloadZip1 runs")
		// nothing outside the closure calls downloadZip1
		outside := false
		ast.Inspect(dz.Body, func(n ast.Node) bool {
			if n == cl.Lit {
				return false
			}
			if call, ok := n.(*ast.CallExpr); ok && calleeName(dz.Info(), call) == mc+"(*Cache).downloadZip1" {
				outside = true
			}
			return true
		})
		c.check("single-flight.no-call-outside-closure", dz.Name, dz.Decl.Pos(), !outside, "downloadZip1 must not be called outside the ErrCache.Do closure")
		c.check("single-flight.cache-field", dz.Name, dz.Decl.Pos(), c16DoReceiverIsField(dz, "downloadZipCache"), "the single-flight cache must be the per-Cache field downloadZipCache keyed by the module version")
	}
	mfn := c.fn("mod/modcache", "(*Cache).ModFile")
	mcl := c.litArgOf(mfn, "internal/par.(*ErrCache).Do")
	if c.check("single-flight.closure", mfn.Name, mfn.Decl.Pos(), mcl != nil, "ModFile must run inside par.ErrCache.Do") {
		outside := false
		ast.Inspect(mfn.Body, func(n ast.Node) bool {
			if n == mcl.Lit {
				return false
			}
			if call, ok := n.(*ast.CallExpr); ok && calleeName(mfn.Info(), call) == mc+"(*Cache).fetchModFileData" {
				outside = true
			}
			return true
		})
		c.check("single-flight.no-call-outside-closure", mfn.Name, mfn.Decl.Pos(), !outside, "fetchModFileData must not be called outside the ErrCache.Do closure")
		c.check("single-flight.cache-field", mfn.Name, mfn.Decl.Pos(), c16DoReceiverIsField(mfn, "modFileCache"), "the single-flight cache must be the per-Cache field modFileCache")
	}
	// fetchModFileData: lock, re-check, download.
	ff := c.fn("mod/modcache", "(*Cache).fetchModFileData")
	g := c.graph(ff)
	lock := g.callNodes(mc + "(*Cache).lockVersion")
	dl := g.callNodes(mc + "(*Cache).downloadModFile1")
	bad, st := g.onlyAfterSuccess(lock, keys(dl))
	c.check("single-flight.download-under-lock", ff.Name, ff.Body.Pos(), len(dl) > 0 && len(lock) > 0 && len(bad) == 0,
		"downloadModFile1 must be called with the version lock held: "+maskStr(st))
	c.check("single-flight.unlock-deferred", ff.Name, ff.Body.Pos(), c16DeferUnlock(g, lock, keys(dl)), "unlock must be deferred before downloadModFile1 runs")
	okRe := false
	if len(lock) > 0 {
		after := g.reachableFrom(keys(lock)[0])
		re := map[int]*ast.CallExpr{}
		for id, call := range g.callNodes(mc + "(*Cache).readDiskModFile") {
			if after[id] {
				re[id] = call
			}
		}
		if len(re) > 0 {
			in := g.run(g.successAutomaton(re))
			okRe = true
			for _, id := range keys(dl) {
				if in[id]&^(1<<stFailed) != 0 {
					okRe = false
				}
			}
		}
	}
	c.check("single-flight.recheck-after-lock", ff.Name, ff.Body.Pos(), okRe, "downloadModFile1 may run only after a post-lock readDiskModFile re-check reported a miss")

	// downloadModFile1: data is returned only after writeDiskModFile, and the
	// written data is what the registry returned.
	dm := c.fn("mod/modcache", "(*Cache).downloadModFile1")
	gm := c.graph(dm)
	wr := gm.callNodes(mc + "(*Cache).writeDiskModFile")
	okW := len(wr) > 0
	if okW {
		in := gm.run(gm.successAutomaton(wr))
		for _, r := range gm.successReturns() {
			if in[r]&^(1<<stOK) != 0 {
				okW = false
			}
		}
	}
	c.check("single-flight.modfile-written-before-success", dm.Name, dm.Body.Pos(), okW, "downloadModFile1 returns success only after writeDiskModFile succeeded")

	// lockVersion locks the per-version lock file.
	lv := c.fn("mod/modcache", "(*Cache).lockVersion")
	gl := c.graph(lv)
	okLock := false
	for _, r := range gl.successReturns() {
		ret := gl.Nodes[r].N.(*ast.ReturnStmt)
		if len(ret.Results) == 1 {
			if call, ok := ast.Unparen(ret.Results[0]).(*ast.CallExpr); ok && strings.HasSuffix(calleeName(lv.Info(), call), "lockedfile.(*Mutex).Lock") {
				if sel, ok := ast.Unparen(call.Fun).(*ast.SelectorExpr); ok {
					if inner, ok := ast.Unparen(sel.X).(*ast.CallExpr); ok && strings.HasSuffix(calleeName(lv.Info(), inner), "lockedfile.MutexAt") &&
						len(inner.Args) == 1 && c.originCall(lv, inner.Args[0], mc+"(*Cache).cachePath", 1, "lock") {
						okLock = true
					}
				}
			}
		}
	}
	c.check("lock.is-per-version-lockfile", lv.Name, lv.Body.Pos(), okLock, "lockVersion must return lockedfile.MutexAt(cachePath(mod, \"lock\")).Lock()")
}

func c16DoReceiverIsField(f *Fn, field string) bool {
	ok := false
	ast.Inspect(f.Body, func(n ast.Node) bool {
		call, isCall := n.(*ast.CallExpr)
		if !isCall || calleeName(f.Info(), call) != "internal/par.(*ErrCache).Do" {
			return true
		}
		if sel, isSel := ast.Unparen(call.Fun).(*ast.SelectorExpr); isSel {
			if inner, isSel := ast.Unparen(sel.X).(*ast.SelectorExpr); isSel && inner.Sel.Name == field {
				// key argument is the module version parameter
				if len(call.Args) == 2 {
					if v, isVar := identObj(f.Info(), call.Args[0]).(*types.Var); isVar && isParamOf(f, v) {
						ok = true
					}
				}
			}
		}
		return true
	})
	return ok
}

func c16DeferUnlock(g *Graph, lock map[int]*ast.CallExpr, before []int) bool {
	info := g.F.Info()
	var unlockVar types.Object
	for id, call := range lock {
		if as, ok := g.Nodes[id].N.(*ast.AssignStmt); ok && len(as.Rhs) == 1 && ast.Unparen(as.Rhs[0]) == call && len(as.Lhs) == 2 {
			unlockVar = identObj(info, as.Lhs[0])
		}
	}
	if unlockVar == nil {
		return false
	}
	defers := g.find(func(n ast.Node) bool {
		d, ok := n.(*ast.DeferStmt)
		return ok && identObj(info, d.Call.Fun) == unlockVar
	})
	if len(defers) == 0 {
		return false
	}
	for _, b := range before {
		if !g.mustPassNode(b, setOf(defers)) {
			return false
		}
	}
	return true
}

// c16Ownership: every mutating file-system call in package modcache whose
// path argument is a protocol artefact must be one of the reviewed effect
// sites. A new mutating use of an artefact bypasses the rules above.
var c16Mutators = map[string][]int{ // callee -> path argument positions
	"os.OpenFile": {0}, "os.Create": {0}, "os.WriteFile": {0}, "os.Remove": {0}, "os.RemoveAll": {0},
	"os.Rename": {0, 1}, "os.MkdirAll": {0}, "os.Mkdir": {0}, "os.Chmod": {0}, "os.Truncate": {0}, "os.Symlink": {0, 1}, "os.Link": {0, 1},
	"internal/robustio.WriteFile": {0}, "internal/robustio.Rename": {0, 1}, "internal/robustio.RemoveAll": {0}, "internal/robustio.Remove": {0},
	"mod/modzip.Unzip": {0}, mc + "RemoveAll": {0}, mc + "makeDirsReadOnly": {0},
	mc + "(*Cache).writeDiskCache": {1}, mc + "(*Cache).writeDiskModFile": {1}, mc + "(*Cache).downloadZip1": {2},
	mc + "tempFile": {1}, mc + "(*Cache).downloadModFile1": {2},
}

// reviewed effect sites on protocol artefacts: function|callee|argpos|artefact
var c16EffectSites = map[string]string{
	"(*Cache).Fetch|" + mc + "RemoveAll|0|dir":                          "partial directory removal under the lock; failure-path removal after Unzip failed",
	"(*Cache).Fetch|os.MkdirAll|0|dir":                                  "parent of the extraction directory",
	"(*Cache).Fetch|internal/robustio.WriteFile|0|partial":              "marker creation (fetch.marker-before-unzip)",
	"(*Cache).Fetch|mod/modzip.Unzip|0|dir":                             "the extraction",
	"(*Cache).Fetch|os.Remove|0|partial":                                "marker removal (fetch.marker-*)",
	"(*Cache).Fetch|" + mc + "makeDirsReadOnly|0|dir":                   "after the marker is gone",
	"(*Cache).lockVersion|os.MkdirAll|0|lock":                           "directory of the lock file",
	"(*Cache).downloadZip$lit|" + mc + "(*Cache).downloadZip1|2|zip":    "single-flight download of the zip",
	"(*Cache).fetchModFileData|" + mc + "(*Cache).downloadModFile1|2|mod": "single-flight download of module file",
}

func c16Ownership(c *Ctx) {
	p := c.pkg("mod/modcache")
	classify := func(r map[string]bool) string {
		cp := mc + "(*Cache).cachePath"
		switch {
		case r["call:"+cp+":partial"]:
			return "partial"
		case r["call:"+cp+":zip"]:
			return "zip"
		case r["call:"+cp+":mod"]:
			return "mod"
		case r["call:"+cp+":lock"]:
			return "lock"
		case hasPrefixKey(r, "call:"+cp):
			return "cachePath"
		case r["call:"+mc+"(*Cache).readDiskModFile"] || r["call:"+mc+"(*Cache).readDiskCache"]:
			return "mod"
		case r["call:"+mc+"(*Cache).downloadDir"] && r["range"]:
			return "tmp"
		case r["call:"+mc+"(*Cache).downloadDir"]:
			return "dir"
		case r["call:"+mc+"(*Cache).downloadZip"]:
			return "zip"
		}
		return ""
	}
	seen := map[string]bool{}
	n := 0
	for _, f := range c.funcs(p) {
		short := strings.TrimPrefix(f.Name, mc)
		var visit func(body ast.Node, fn *Fn, label string)
		visit = func(body ast.Node, fn *Fn, label string) {
			ast.Inspect(body, func(nd ast.Node) bool {
				call, ok := nd.(*ast.CallExpr)
				if !ok {
					return true
				}
				name := calleeName(f.Info(), call)
				idxs, isMut := c16Mutators[name]
				if !isMut {
					return true
				}
				for _, i := range idxs {
					if i >= len(call.Args) {
						continue
					}
					art := classify(c.roots(f, call.Args[i], 0))
					if art == "" {
						continue
					}
					lbl := short
					if c16InsideLit(f, call) {
						lbl = short + "$lit"
					}
					site := fmt.Sprintf("%s|%s|%d|%s", lbl, name, i, art)
					n++
					_, reviewed := c16EffectSites[site]
					if !seen[site] || !reviewed {
						seen[site] = true
						c.check("ownership.effect-site", site, call.Pos(), reviewed,
							"mutating file-system call on protocol artefact '"+art+"' at a site that is not in the reviewed table (it would bypass the ordering rules)")
					}
				}
				return true
			})
		}
		visit(f.Body, f, short)
	}
	// parameters that carry artefacts into helpers: the helper bodies are
	// covered by temp-rename.* (zipfile, file); RemoveAll(dir) and tempFile
	// operate on what they are given.
	c.note("ownership: %d mutating calls on protocol artefacts in package modcache, %d distinct sites", n, len(seen))
	for site := range c16EffectSites {
		if !seen[site] {
			c.note("ownership: reviewed site %q no longer occurs (table entry unused)", site)
		}
	}
}

func c16InsideLit(f *Fn, call *ast.CallExpr) bool {
	in := false
	ast.Inspect(f.Body, func(n ast.Node) bool {
		if l, ok := n.(*ast.FuncLit); ok && l.Pos() <= call.Pos() && call.End() <= l.End() {
			in = true
		}
		return !in
	})
	return in
}

// c16Misc: the remaining small obligations of the protocol.
func c16Misc(c *Ctx) {
	// temp files are created exclusively (a stale or concurrent temp file is never reused)
	tf := c.fn("mod/modcache", "tempFile")
	osPkg := c.Pkgs["os"]
	flag := func(name string) int64 {
		k := osPkg.Types.Scope().Lookup(name).(*types.Const)
		v, _ := constant.Int64Val(k.Val())
		return v
	}
	okExcl := false
	ast.Inspect(tf.Body, func(n ast.Node) bool {
		if call, ok := n.(*ast.CallExpr); ok && calleeName(tf.Info(), call) == "os.OpenFile" && len(call.Args) == 3 {
			if tv := tf.Info().Types[call.Args[1]]; tv.Value != nil {
				v, _ := constant.Int64Val(tv.Value)
				okExcl = v&flag("O_EXCL") != 0 && v&flag("O_CREATE") != 0 && v&flag("O_TRUNC") == 0
			}
		}
		return true
	})
	c.check("temp-rename.temp-file-exclusive", tf.Name, tf.Decl.Pos(), okExcl, "tempFile must create its file with O_CREATE|O_EXCL (never reuse or truncate an existing temp file)")
	// FetchFromCache and downloadZip hand out a path only after the presence check / download succeeded
	ff := c.fn("mod/modcache", "(*Cache).FetchFromCache")
	g := c.graph(ff)
	dd := g.callNodes(mc + "(*Cache).downloadDir")
	ok := len(dd) > 0
	if ok {
		in := g.run(g.successAutomaton(dd))
		for _, r := range g.successReturns() {
			if in[r]&^(1<<stOK) != 0 {
				ok = false
			}
		}
	}
	c.check("fetch.from-cache-needs-complete-dir", ff.Name, ff.Decl.Pos(), ok, "FetchFromCache may return a location only when downloadDir reported a complete directory")
	dz := c.fn("mod/modcache", "(*Cache).downloadZip")
	if cl := c.litArgOf(dz, "internal/par.(*ErrCache).Do"); cl != nil {
		gz := c.graph(cl)
		st := gz.callNodes("os.Stat")
		d1 := gz.callNodes(mc + "(*Cache).downloadZip1")
		inS := gz.run(gz.successAutomaton(st))
		inD := gz.run(gz.successAutomaton(d1))
		okZ := len(st) > 0 && len(d1) > 0
		for _, r := range gz.successReturns() {
			ret := gz.Nodes[r].N.(*ast.ReturnStmt)
			if len(ret.Results) == 2 {
				if s, isConst := constString(cl.Info(), ret.Results[0]); isConst && s == "" {
					continue
				}
			}
			if inS[r]&(1<<stOK) == 0 && inD[r]&^(1<<stOK) != 0 {
				okZ = false
			}
			if inS[r]&^(1<<stOK) != 0 && inD[r]&^(1<<stOK) != 0 {
				okZ = false
			}
		}
		c.check("fetch.zip-path-needs-file", cl.Name, cl.Body.Pos(), okZ, "downloadZip may return the zip path only if the file was found (os.Stat) or downloadZip1 succeeded")
	}
}

// c16SourceVerified: what downloadZip1 renames into the cache is a copy of a
// registry blob. Two conditions make "the copy ended" mean "the blob is
// complete": (1) the source reader's Close error is checked before the rename
// — Module.GetZip documents that the contents are not to be trusted until
// Close has succeeded; (2) the readers modregistry.Module hands out verify the
// byte count and the digest against the manifest's layer descriptor, because
// a registry implementation may end a short body with a clean EOF (only the
// HTTP client happens to check Content-Length). Without either, a truncated
// zip or module file is renamed into place and served for ever.
func c16SourceVerified(c *Ctx) {
	// (1) Close of the blob reader checked before the rename
	f := c.fn("mod/modcache", "(*Cache).downloadZip1")
	g := c.graph(f)
	info := f.Info()
	var rVar types.Object
	for id, call := range g.callNodes("mod/modregistry.(*Module).GetZip") {
		if as, ok := g.Nodes[id].N.(*ast.AssignStmt); ok && len(as.Rhs) == 1 && ast.Unparen(as.Rhs[0]) == call {
			rVar = identObj(info, as.Lhs[0])
		}
	}
	if rVar == nil {
		c.broken("anchor: downloadZip1 no longer obtains the zip through (*Module).GetZip")
	}
	closeR := g.callNodesWhere(func(call *ast.CallExpr) bool {
		sel, ok := ast.Unparen(call.Fun).(*ast.SelectorExpr)
		return ok && sel.Sel.Name == "Close" && identObj(info, sel.X) == rVar
	}, "io.Closer.Close", "io.ReadCloser.Close")
	rename := keys(g.callNodes("os.Rename", "internal/robustio.Rename"))
	ok := len(closeR) > 0 && len(rename) > 0
	det := ""
	if len(closeR) == 0 {
		det = ": the reader is only closed by a deferred call, whose error is discarded"
	} else {
		bad, st := g.onlyAfterSuccess(closeR, rename)
		if len(bad) > 0 {
			ok = false
			det = ": " + maskStr(st)
		}
	}
	var pos token.Pos
	if len(rename) > 0 {
		pos = g.pos(rename[0])
	}
	c.check("temp-rename.source-close-checked-before-rename", f.Name, pos, ok,
		"the temp file may be renamed to the cache path only after the blob reader's Close has succeeded (GetZip: \"the contents should not be assumed to be correct until the close error has been checked\")"+det)

	// (2) every blob reader of Module is verified against the layer descriptor
	mp := c.pkg("mod/modregistry")
	n := 0
	for _, fn := range c.funcs(mp) {
		if fn.Decl == nil || fn.Decl.Recv == nil || !strings.Contains(fn.Name, "(*Module).") {
			continue
		}
		finfo := fn.Info()
		fg := c.graph(fn)
		blobCalls := map[int]*ast.CallExpr{}
		for _, id := range fg.find(func(x ast.Node) bool {
			found := false
			ast.Inspect(x, func(y ast.Node) bool {
				if _, isLit := y.(*ast.FuncLit); isLit {
					return false
				}
				if call, ok := y.(*ast.CallExpr); ok {
					if nm := calleeName(finfo, call); strings.HasPrefix(nm, "cuelabs.dev/go/oci/ociregistry.") && strings.HasSuffix(nm, ".GetBlob") {
						found = true
					}
				}
				return true
			})
			return found
		}) {
			ast.Inspect(fg.Nodes[id].N, func(y ast.Node) bool {
				if call, ok := y.(*ast.CallExpr); ok {
					if nm := calleeName(finfo, call); strings.HasSuffix(nm, ".GetBlob") {
						blobCalls[id] = call
					}
				}
				return true
			})
		}
		for id, call := range blobCalls {
			n++
			var rv types.Object
			if as, ok := fg.Nodes[id].N.(*ast.AssignStmt); ok && len(as.Rhs) == 1 && ast.Unparen(as.Rhs[0]) == call {
				rv = identObj(finfo, as.Lhs[0])
			}
			okUse := rv != nil
			var badUse string
			verified := false
			if rv != nil {
				ast.Inspect(fn.Body, func(x ast.Node) bool {
					switch e := x.(type) {
					case *ast.CallExpr:
						for _, a := range e.Args {
							if identObj(finfo, a) != rv {
								continue
							}
							callee := calleeName(finfo, e)
							if c16VerifyingCtor(c, callee) {
								verified = true
							} else {
								okUse = false
								badUse = "passed to " + callee
							}
						}
					case *ast.ReturnStmt:
						for _, r := range e.Results {
							if identObj(finfo, r) == rv {
								okUse = false
								badUse = "returned as is"
							}
						}
					}
					return true
				})
			} else {
				badUse = "returned as is"
			}
			c.check("blob.reader-verified-against-descriptor", fn.Name, call.Pos(), okUse && verified,
				"a blob reader that Module hands out (or reads) must go through a wrapper that compares the bytes read with the Size and the Digest of the manifest's layer descriptor: a registry that ends a short body with a clean EOF otherwise yields a truncated zip or module file that the cache keeps for ever ("+badUse+")")
		}
	}
	c.expect("blob.reader-verified-against-descriptor", 2)
	_ = n
}

// c16VerifyingCtor: callee is a function of mod/modregistry whose result type
// has a Read method that compares against a descriptor's Size and Digest.
func c16VerifyingCtor(c *Ctx, callee string) bool {
	if !strings.HasPrefix(callee, "mod/modregistry.") {
		return false
	}
	f := c.fnOpt("mod/modregistry", strings.TrimPrefix(callee, "mod/modregistry."))
	if f == nil || f.Decl == nil || f.Decl.Type.Results == nil || len(f.Decl.Type.Results.List) != 1 {
		return false
	}
	rt := f.Info().TypeOf(f.Decl.Type.Results.List[0].Type)
	if pt, ok := rt.(*types.Pointer); ok {
		rt = pt.Elem()
	}
	named, ok := types.Unalias(rt).(*types.Named)
	if !ok {
		return false
	}
	read := c.fnOpt("mod/modregistry", "(*"+named.Obj().Name()+").Read")
	if read == nil {
		return false
	}
	size, dig := false, false
	ast.Inspect(read.Body, func(x ast.Node) bool {
		be, ok := x.(*ast.BinaryExpr)
		if !ok || (be.Op != token.EQL && be.Op != token.NEQ) {
			return true
		}
		for _, s := range []ast.Expr{be.X, be.Y} {
			if sel, ok := ast.Unparen(s).(*ast.SelectorExpr); ok {
				switch sel.Sel.Name {
				case "Size":
					size = true
				case "Digest":
					dig = true
				}
			}
		}
		return true
	})
	return size && dig
}
