package main

import (
	"fmt"
	"go/ast"
	"go/token"
	"strings"
)

func init() {
	register(&propCheck{
		id: "C02",
		pkgs: []string{"cue/parser", "cue/scanner", "internal/core/adt", "internal/core/compile", "internal/core/export", "internal/core/toposort",
			"internal/core/walk", "internal/core/dep", "internal/core/subsume", "cue/errors", "cue", "cue/format", "internal/pretty",
			"internal/encoding/json", "internal/encoding/yaml", "pkg/list", "pkg/struct", "internal/pkg"},
		run: checkC02,
		about: "C02 (parse/compile/evaluate/export never crash and are repeatable): decides (a) the parser's bailout discipline and (b) that parser recursion and iterative tree deepening are bounded by the nesting guard (shared with C09); " +
			"(c) every type-switch dispatcher over an internal/core/adt interface whose default panics covers every implementor of that interface, or the implementor is excepted with the reason it cannot reach the switch (a new node kind that misses a dispatcher is a crash for the first program that uses it); " +
			"(d) evaluation-frame pairing: PushState/PopState, PushArc/PopArc, pushOverlay/popOverlay, markDepth/unmarkDepth, incDepth/decDepth, retainProcess/releaseProcess are balanced on every non-panicking path (an unbalanced frame corrupts OpContext.errs/env/src for everything evaluated afterwards); " +
			"(e) no nondeterminism source reaches output: every range over a map in the pipeline packages is commutative, sorted before use, or a reviewed exception, and math/rand, time.Now and pointer formatting do not occur on the output path. " +
			"It does not decide absence of nil dereference / index out of range / unbounded evaluator recursion, nor time and memory bounds.",
		trust: []string{"markers/wrappers excepted from dispatchers by the reachability reasons given in the table"},
	})
}

const adtP = "internal/core/adt"

func checkC02(c *Ctx) {
	parserRules(c)
	c02Dispatchers(c)
	c02Pairing(c)
	c02Determinism(c)
	c02SliceBounds(c)
	c02BuiltinErrors(c)
	for _, p := range []string{"internal/core/adt", "internal/core/compile", "cue/parser"} {
		c.checkCounterBalance("frames.counter-balanced", p, nil)
	}
	c.expect("frames.counter-balanced", 10)
	// concurrent/fresh-context runs must agree on label identity: the
	// process-wide interning table inserts atomically (re-check under the
	// write lock). Shared with C19.
	c19Recheck(c, rtP, "getKey", []string{"labelMap", "labels"}, "mutex")
}

func c02Dispatchers(c *Ctx) {
	markers := map[string]string{
		"ListMarker":   "BaseValue marker stored in Vertex.BaseValue only; never an expression or conjunct element",
		"StructMarker": "BaseValue marker stored in Vertex.BaseValue only; never an expression or conjunct element",
	}
	structInfo := map[string]string{"StructInfo": "bookkeeping wrapper kept in Vertex.Structs; never an element of a conjunct or an operand"}
	group := map[string]string{"ConjunctGroup": "internal grouping Elem, unpacked by scheduleConjunct; never evaluated as an expression"}
	clauses := map[string]string{}
	for _, cl := range []string{"ForClause", "IfClause", "LetClause", "TryClause", "ValueClause"} {
		clauses[cl] = "Yielder: lives only in Comprehension.Clauses, never a conjunct element or declaration on its own"
	}
	param := map[string]string{"Param": "builtin parameter descriptor; never stored as a Vertex.BaseValue"}
	let := map[string]string{"LetClause": "Yielder; let declarations in structs are *LetField"}
	byElem := map[string]string{
		"Comprehension": "dispatched by exporter.elem / exporter.decl before exporter.adt is reached",
		"Ellipsis":      "dispatched by exporter.elem / exporter.decl before exporter.adt is reached",
	}
	ellipsis := map[string]string{"Ellipsis": "as a Decl it is handled by scheduleStruct, as a list element by the list evaluation; never passed to scheduleConjunct"}

	disp := []dispatcher{
		{pkg: adtP, fn: "Conjunct.Elem", iface: adtP + ".Node", implPkg: adtP, except: clauses},
		{pkg: adtP, fn: "MakeConjunct", iface: adtP + ".Node", implPkg: adtP, except: clauses},
		{pkg: adtP, fn: "ToExpr", iface: adtP + ".Node", implPkg: adtP, except: clauses},
		{pkg: "internal/core/walk", fn: "(*Visitor).node", iface: adtP + ".Node", implPkg: adtP, except: merge(markers, structInfo)},
		{pkg: adtP, fn: "(*OpContext).evalStateCI", iface: adtP + ".Expr", implPkg: adtP, except: merge(markers, group)},
		{pkg: adtP, fn: "(*OpContext).unifyNode", iface: adtP + ".Expr", implPkg: adtP, except: merge(markers, group)},
		{pkg: adtP, fn: "(*nodeContext).scheduleConjunct", iface: adtP + ".Elem", implPkg: adtP, except: merge(markers, ellipsis)},
		{pkg: adtP, fn: "(*nodeContext).insertValueConjunct", iface: adtP + ".Value", implPkg: adtP},
		{pkg: adtP, fn: "(*nodeContext).insertValueConjunct", iface: adtP + ".BaseValue", implPkg: adtP, except: param},
		{pkg: adtP, fn: "(*Vertex).Value", iface: adtP + ".BaseValue", implPkg: adtP, except: param},
		{pkg: "internal/core/dep", fn: "marked.markExpr", iface: adtP + ".Elem", implPkg: adtP},
		{pkg: "internal/core/dep", fn: "marked.markExpr", iface: adtP + ".Decl", implPkg: adtP, except: let},
		{pkg: "internal/core/export", fn: "(*exporter).decl", iface: adtP + ".Decl", implPkg: adtP, except: let},
		{pkg: "internal/core/export", fn: "(*exporter).adt", iface: adtP + ".Elem", implPkg: adtP, except: merge(markers, structInfo, byElem)},
		{pkg: "internal/core/export", fn: "(*exporter).elem", iface: adtP + ".Elem", implPkg: adtP},
		{pkg: "internal/core/export", fn: "(*exporter).bareValue", iface: adtP + ".Value", implPkg: adtP},
		{pkg: "internal/core/export", fn: "(*exporter).value", iface: adtP + ".Value", implPkg: adtP},
		{pkg: "internal/core/export", fn: "(*exporter).vertex", iface: adtP + ".BaseValue", implPkg: adtP, except: param},
		{pkg: "internal/core/export", fn: "(*exporter).comprehension", iface: adtP + ".Yielder", implPkg: adtP},
		{pkg: "internal/core/subsume", fn: "(*subsumer).vertices", iface: adtP + ".BaseValue", implPkg: adtP, except: param},
	}
	for _, d := range disp {
		c.checkDispatcher("dispatch.total", d)
	}
	c.expect("dispatch.total", 400)
}

func c02Pairing(c *Ctx) {
	bodies := c.pkgBodies(adtP)
	for _, p := range []string{"internal/core/compile", "internal/core/export", "internal/core/subsume", "internal/core/dep", "cue", "pkg/list", "pkg/struct"} {
		bodies = append(bodies, c.pkgBodies(p)...)
	}
	oc := adtP + ".(*OpContext)."
	nc := adtP + ".(*nodeContext)."
	pairs := []struct {
		name string
		spec pairSpec
		min  int
	}{
		{"PushState", pairSpec{oc + "PushState", []string{oc + "PopState"}}, 8},
		{"PushArc", pairSpec{oc + "PushArc", []string{oc + "PopArc"}}, 5},
		{"PushArcAndLabel", pairSpec{oc + "PushArcAndLabel", []string{oc + "PopArcAndLabel"}}, 1},
		{"pushOverlay", pairSpec{oc + "pushOverlay", []string{oc + "popOverlay"}}, 1},
		{"markDepth", pairSpec{nc + "markDepth", []string{nc + "unmarkDepth"}}, 1},
		{"incDepth", pairSpec{nc + "incDepth", []string{nc + "decDepth"}}, 2},
		{"retainProcess", pairSpec{nc + "retainProcess", []string{nc + "releaseProcess"}}, 3},
	}
	for _, p := range pairs {
		r := c.checkPairing("frames.paired/"+p.name, bodies, p.spec, map[string]string{})
		c.note("pairing %s: %d sites, %d paired, %d escaped", p.name, r.sites, r.ok, r.escaped)
		c.expect("frames.paired/"+p.name, p.min)
	}
}

// c02Determinism: E6 over the pipeline packages.
func c02Determinism(c *Ctx) {
	pkgs := []string{"cue/parser", "cue/scanner", "internal/core/compile", adtP, "internal/core/export", "internal/core/toposort",
		"cue/errors", "cue", "cue/format", "internal/pretty", "internal/encoding/json", "internal/encoding/yaml", "internal/core/dep", "internal/core/walk"}
	n := c.checkMapOrder("determinism.map-order", pkgs, c02MapExceptions)
	c.note("determinism: %d map iterations classified in %s", n, strings.Join(pkgs, ","))
	c.checkNoNondetSource("determinism.no-random-source", pkgs, map[string]string{
		"internal/core/adt.(*OpContext).Logf":    "debug logging behind LogEval",
		"internal/core/adt.(*nodeContext).Logf":  "debug logging behind LogEval",
		"internal/core/adt.RecordDebugGraph":     "debug graph output behind OpenGraphs",
		"internal/core/adt.OpenNodeGraph":        "debug graph output behind OpenGraphs",
		"internal/core/adt.CreateMermaidGraph":   "debug graph output",
		"internal/core/adt.(*mermaidContext).vertexInfo": "debug graph output",
		"internal/core/adt.(*mermaidContext).vertexID":   "debug graph output (mermaid), never part of evaluation results",
		"internal/core/adt.processResolver":              "argument of ctx.Logf (debug log behind LogEval)",
		"internal/core/adt.(*nodeContext).assertInitialized": "text of an internal assertion panic",
		"internal/core/toposort.(*structMeta).String":    "debug Stringer used only by toposort's debug() tracing",
	})
	_ = fmt.Sprint
}

// reviewed map iterations: function -> reason the order cannot reach output
var c02MapExceptions = map[string]string{
	"internal/core/toposort.(*GraphBuilder).Build": "Graph.Sort orders every component's nodes and the ready set with compareNodeByName/compareComponentsByNodes before emitting; the slice order only seeds the SCC search",
}

// c02SliceBounds: Go slice expressions with bounds computed from user values
// in the evaluator of CUE slice expressions (`x[lo:hi]`) must be dominated by
// the two range tests: `lo > hi` rejected, and a user-supplied `hi` compared
// with the length. A path on which the test is skipped panics out of the
// evaluator (slice bounds out of range) instead of reporting an error value.
func c02SliceBounds(c *Ctx) {
	f := c.fn(adtP, "(*SliceExpr).evaluate")
	g := c.graph(f)
	info := f.Info()
	n := 0
	for _, nd := range g.Nodes {
		if nd.N == nil {
			continue
		}
		var se *ast.SliceExpr
		inspectShallow(nd.N, func(x ast.Node) bool {
			if s, ok := x.(*ast.SliceExpr); ok && s.Low != nil && s.High != nil {
				se = s
			}
			return true
		})
		if se == nil {
			continue
		}
		lo, hi := identObj(info, se.Low), identObj(info, se.High)
		if lo == nil || hi == nil {
			continue
		}
		n++
		order := func(e ast.Expr) (bool, bool) {
			be, ok := e.(*ast.BinaryExpr)
			if !ok {
				return false, false
			}
			x, y := identObj(info, be.X), identObj(info, be.Y)
			switch {
			case be.Op == token.GTR && x == lo && y == hi, be.Op == token.LSS && x == hi && y == lo:
				return true, true
			case be.Op == token.LEQ && x == lo && y == hi, be.Op == token.GEQ && x == hi && y == lo:
				return true, false
			}
			return false, false
		}
		r := g.gateMode(order, map[int]bool{nd.ID: true}, nil, g.Entry, false)
		c.check("slice.bounds-gated", fmt.Sprintf("%s#slice%d/lo<=hi", f.Name, n), se.Pos(), r.found && !r.leak && !r.bypass,
			fmt.Sprintf("the Go slice %s must be reached only after `lo > hi` was tested and rejected on every path (found=%v leak=%v bypass=%v): otherwise `[1,2,3][5:]` panics out of the evaluator", exprString(se), r.found, r.leak, r.bypass))
		// a user-supplied upper bound is compared with the length before slicing
		assigns := g.find(func(x ast.Node) bool {
			as, ok := x.(*ast.AssignStmt)
			if !ok || as.Tok != token.ASSIGN || len(as.Lhs) != 1 || identObj(info, as.Lhs[0]) != hi {
				return false
			}
			return true
		})
		capTest := map[int]bool{}
		for _, m := range g.Nodes {
			for _, e := range m.Succs {
				if e.Cond == nil {
					continue
				}
				found := false
				ast.Inspect(e.Cond, func(y ast.Node) bool {
					if be, ok := y.(*ast.BinaryExpr); ok && (be.Op == token.GTR || be.Op == token.LEQ || be.Op == token.LSS || be.Op == token.GEQ) {
						if (identObj(info, be.X) == hi && strings.Contains(exprString(be.Y), "len(")) || (identObj(info, be.Y) == hi && strings.Contains(exprString(be.X), "len(")) {
							found = true
						}
					}
					return true
				})
				if found {
					capTest[m.ID] = true
				}
			}
		}
		okCap := len(assigns) > 0 && len(capTest) > 0
		for _, a := range assigns {
			rr := g.reach([]int{a}, func(id int) bool { return capTest[id] }, nil)
			if rr[nd.ID] {
				okCap = false
			}
		}
		c.check("slice.bounds-gated", fmt.Sprintf("%s#slice%d/hi<=len", f.Name, n), se.Pos(), okCap,
			"an upper bound taken from the expression must be compared with the length of the operand before the Go slice "+exprString(se)+" is evaluated")
	}
	c.expect("slice.bounds-gated", 4)
}
