package main

import (
	"fmt"
	"go/ast"
	"go/constant"
	"go/token"
	"go/types"
	"strings"
)

func init() {
	register(&propCheck{
		id:   "C05",
		pkgs: []string{"internal/core/adt"},
		run:  checkC05,
		about: "C05 (field constraints, patterns and closedness), narrow: decides the shape of the final closedness verdict and of the required-field check, not the evidence bookkeeping. In nodeContext.checkTypos: (a) a 'field not allowed' error is produced only for an arc that is neither hidden/definition/let (allowedInClosed) nor supported by evidence for every requirement set (hasEvidenceForAll), and only for present fields (ArcType <= ArcRequired) — 'hidden and definition fields are never restricted', 'optional constraints on absent fields never make a struct fail'; " +
			"(b) conversely every arc that fails both tests reaches notAllowedError before the next arc — 'a closed struct never silently gains a disallowed field'; (c) the combined error is attached to the node. In validator.validate: (d) a required field that is still ArcRequired at final validation outside a definition produces NewRequiredNotPresentError. " +
			"(e) the finite skeleton of field-kind unification: the ArcType enum is ordered member < required < optional < pending < not-present, updateArcType assigns the new kind exactly when it is strictly more restrictive (`a?: & a!:` is required, `a!: & a:` regular), the markers `?`/`!` map to the kinds and back, and allowedInClosed is true exactly for hidden, definition and let labels. " +
			"It does not decide which conjuncts provide evidence for which field (defID containment, replacement sets, pattern matching): that is run-time data.",
		trust: []string{"evidence sets (reqSets, conjunctInfo) are value-level and not decided"},
	})
}

func checkC05(c *Ctx) {
	c05OnceFlagOnlyNarrowed(c)
	checkC05ArcTypes(c)
	checkC05ConjunctIdentity(c)
	checkC05RecursiveClosedness(c)
	f := c.fn(adtP, "(*nodeContext).checkTypos")
	g := c.graph(f)
	info := f.Info()
	errCalls := map[int]bool{}
	for id := range g.callNodes(adtP + ".(*OpContext).notAllowedError") {
		errCalls[id] = true
	}
	if !c.check("typo.error-site", f.Name, f.Decl.Pos(), len(errCalls) == 1, "checkTypos reports disallowed fields through notAllowedError in exactly one place") {
		return
	}
	head, body, _ := g.rangeLoop(func(rs *ast.RangeStmt) bool { return strings.HasSuffix(exprString(rs.X), ".Arcs") })
	if head < 0 {
		c.broken("anchor: checkTypos no longer ranges over the vertex's arcs")
	}
	barrier := map[int]bool{head: true}
	allowed := func(e ast.Expr) (bool, bool) {
		call, ok := e.(*ast.CallExpr)
		if !ok || calleeName(info, call) != adtP+".allowedInClosed" {
			return false, false
		}
		return true, true // allowed => must NOT reach the error
	}
	evidence := func(e ast.Expr) (bool, bool) {
		call, ok := e.(*ast.CallExpr)
		if !ok || calleeName(info, call) != adtP+".(*nodeContext).hasEvidenceForAll" {
			return false, false
		}
		return true, true
	}
	for _, gs := range []struct {
		name string
		m    atomMatcher
		why  string
	}{
		{"hidden-and-definitions-never-restricted", allowed, "a hidden, definition or let field must never be reported as not allowed (allowedInClosed guard)"},
		{"evidence-admits", evidence, "a field with evidence for every requirement set must not be reported"},
	} {
		r := g.gate(gs.m, errCalls, barrier, body)
		c.check("typo."+gs.name, f.Name, g.pos(head), r.found && !r.leak && !r.bypass,
			fmt.Sprintf("%s (found=%v leak=%v bypass=%v)", gs.why, r.found, r.leak, r.bypass))
	}
	// (b) an arc failing both tests reaches the error before the next arc
	noEvidence := func(from int, e GEdge) bool { return false }
	_ = noEvidence
	var evNode = -1
	for id := range g.callNodes(adtP + ".(*nodeContext).hasEvidenceForAll") {
		evNode = id
	}
	okReach := false
	if evNode >= 0 {
		for _, e := range g.Nodes[evNode].Succs {
			if e.Cond == nil {
				continue
			}
			p := atomOnEdge(e.Cond, e.Truth, evidence)
			if p.present && p.good && !p.bad { // no evidence
				r := g.reach([]int{e.To}, func(id int) bool { return errCalls[id] }, nil)
				okReach = !r[head] && !r[g.Exit]
				if errCalls[e.To] {
					okReach = true
				}
			}
		}
	}
	c.check("typo.disallowed-field-always-reported", f.Name, g.pos(head), okReach,
		"once allowedInClosed and hasEvidenceForAll have both said no, every path to the next arc must pass notAllowedError (a closed struct never silently gains a field)")
	// the error is produced only for present fields and combined
	present := false
	combined := false
	ast.Inspect(f.Body, func(n ast.Node) bool {
		if be, ok := n.(*ast.BinaryExpr); ok && be.Op.String() == "<=" && strings.HasSuffix(exprString(be.X), ".ArcType") && exprString(be.Y) == "ArcRequired" {
			present = true
		}
		if call, ok := n.(*ast.CallExpr); ok && calleeName(info, call) == adtP+".CombineErrors" {
			combined = true
		}
		return true
	})
	c.check("typo.only-present-fields", f.Name, f.Decl.Pos(), present, "only present (member or required) fields may fail the closedness check: an optional constraint on an absent field never makes a struct fail")
	// (c) the accumulated error is attached
	attach := g.callNodes(adtP + ".(*nodeContext).AddChildError")
	errNil := func(e ast.Expr) (bool, bool) {
		be, ok := e.(*ast.BinaryExpr)
		if !ok || !isNilIdent(be.Y) || exprString(be.X) != "err" {
			return false, false
		}
		return true, be.Op.String() == "=="
	}
	// from the `err != nil` edge after the loop, the exit must not be reachable without AddChildError
	okAttach := len(attach) > 0 && combined
	for _, n := range g.Nodes {
		for _, e := range n.Succs {
			if e.Cond == nil {
				continue
			}
			p := atomOnEdge(e.Cond, e.Truth, errNil)
			if p.present && p.good && !p.bad && !g.reachableFrom(n.ID)[head] { // err != nil, after the loop
				r := g.reach([]int{e.To}, func(id int) bool { _, ok := attach[id]; return ok }, nil)
				if r[g.Exit] {
					if _, ok := attach[e.To]; !ok {
						okAttach = false
					}
				}
			}
		}
	}
	c.check("typo.error-attached", f.Name, f.Decl.Pos(), okAttach, "the combined not-allowed error must be attached to the node (AddChildError) before checkTypos returns")

	// (d) required fields
	vf := c.fn(adtP, "(*validator).validate")
	gv := c.graph(vf)
	vi := vf.Info()
	req := gv.callNodes(adtP + ".NewRequiredNotPresentError")
	isReq := func(e ast.Expr) (bool, bool) {
		be, ok := e.(*ast.BinaryExpr)
		if !ok || be.Op.String() != "==" || !strings.HasSuffix(exprString(be.X), ".ArcType") || exprString(be.Y) != "ArcRequired" {
			return false, false
		}
		return true, false
	}
	okReq := len(req) == 1
	if okReq {
		hh, _, _ := gv.rangeLoop(func(rs *ast.RangeStmt) bool { return strings.HasSuffix(exprString(rs.X), ".Arcs") })
		r := gv.gate(isReq, setOf(keys(req)), map[int]bool{hh: true}, -1)
		okReq = r.found && !r.leak
		// the error is added
		added := false
		for id := range req {
			for _, call := range callsIn(gv.Nodes[id].N, false) {
				if calleeName(vi, call) == adtP+".(*validator).add" {
					added = true
				}
			}
		}
		okReq = okReq && added
		// the loop ranges over all arcs
		h, _, _ := gv.rangeLoop(func(rs *ast.RangeStmt) bool { return strings.HasSuffix(exprString(rs.X), ".Arcs") })
		okReq = okReq && h >= 0
	}
	c.check("required.missing-field-reported", vf.Name, vf.Decl.Pos(), okReq,
		"final validation must report every arc that is still ArcRequired (a required field that no conjunct provided) through NewRequiredNotPresentError, added to the validator's errors")
}

// checkC05ArcTypes: the finite skeleton of field-constraint unification.
// ArcType is ordered from most to least restrictive (member < required <
// optional < pending < not present); unifying two declarations of a field keeps
// the more restrictive kind (`a?: _ & a!: _` is required, `a!: _ & a: _` is a
// regular field), and the syntax markers map to the kinds and back.
func checkC05ArcTypes(c *Ctx) {
	p := c.pkg(adtP)
	val := func(name string) int64 {
		k, ok := p.Types.Scope().Lookup(name).(*types.Const)
		if !ok {
			c.broken("anchor: adt.%s not found", name)
		}
		v, _ := constant.Int64Val(k.Val())
		return v
	}
	m, r, o, pe, np := val("ArcMember"), val("ArcRequired"), val("ArcOptional"), val("ArcPending"), val("ArcNotPresent")
	c.check("arctype.enum-order", "adt.ArcType", 0, m < r && r < o && o < pe && pe < np,
		fmt.Sprintf("ArcMember(%d) < ArcRequired(%d) < ArcOptional(%d) < ArcPending(%d) < ArcNotPresent(%d): comparisons such as `ArcType <= ArcRequired` (present field) and the minimum taken on unification rely on this order", m, r, o, pe, np))

	// updateArcType keeps the minimum
	f := c.fn(adtP, "(*Vertex).updateArcType")
	cf := newCaseFn(c, f)
	less, notPresent, pending := "p0 < recv.ArcType", "ArcNotPresent == recv.ArcType", "ArcPending == recv.ArcType"
	assign := -1
	for _, n := range cf.g.Nodes {
		if as, ok := n.N.(*ast.AssignStmt); ok && len(as.Lhs) == 1 && exprString(as.Lhs[0]) == "v.ArcType" && cf.canon(as.Rhs[0]) == "p0" {
			assign = n.ID
		}
	}
	missing := cf.missingAtoms(map[string]bool{less: true, notPresent: true})
	okU := assign >= 0 && len(missing) == 0
	det := fmt.Sprintf("assignment found=%v, tests missing=%v", assign >= 0, missing)
	if okU {
		_, vis := cf.walk(cf.g.Entry, map[string]bool{less: true, notPresent: false, pending: false})
		_, vis2 := cf.walk(cf.g.Entry, map[string]bool{less: false, pending: false})
		_, vis3 := cf.walk(cf.g.Entry, map[string]bool{less: true, notPresent: true, pending: false})
		okU = vis[assign] && !vis2[assign] && !vis3[assign]
		det = fmt.Sprintf("more restrictive kind assigned=%v, less or equally restrictive kind ignored=%v, not-present arc left alone=%v", vis[assign], !vis2[assign], !vis3[assign])
	}
	c.check("arctype.unify-keeps-most-restrictive", f.Name, f.Decl.Pos(), okU,
		"updateArcType must set v.ArcType = t exactly when t is strictly more restrictive than the current kind (and the arc is not ArcNotPresent): "+det)

	// syntax marker <-> kind, both directions
	ft := newCaseFn(c, c.fn(adtP, "ConstraintFromToken"))
	opt, not := eqKey("p0", "token.OPTION"), eqKey("p0", "token.NOT")
	ft.checkTable("arctype.marker-table", []caseRow{
		{name: "?", truth: map[string]bool{opt: true, not: false}, want: []string{"ArcOptional"}},
		{name: "!", truth: map[string]bool{opt: false, not: true}, want: []string{"ArcRequired"}},
		{name: "none", truth: map[string]bool{opt: false, not: false}, want: []string{"ArcMember"}},
	}, "`?` declares an optional field constraint, `!` a required one, no marker a regular field")
	tt := newCaseFn(c, c.fn(adtP, "ArcType.Token"))
	ko, kr := eqKey("recv", "ArcOptional"), eqKey("recv", "ArcRequired")
	for _, row := range []struct {
		name  string
		truth map[string]bool
		want  string
	}{
		{"optional", map[string]bool{ko: true, kr: false}, "token.OPTION"},
		{"required", map[string]bool{ko: false, kr: true}, "token.NOT"},
		{"member", map[string]bool{ko: false, kr: false}, ""},
	} {
		path, ok := tt.trace(tt.g.Entry, row.truth)
		got := tt.lastAssigned(path, "t")
		c.check("arctype.marker-table", tt.f.Name+"/"+row.name, tt.f.Decl.Pos(), ok && got == row.want && len(tt.missingAtoms(map[string]bool{ko: true, kr: true})) == 0,
			fmt.Sprintf("ArcType.Token must map %s back to %q; found %q", row.name, row.want, got))
	}

	// which labels escape closedness
	ac := newCaseFn(c, c.fn(adtP, "allowedInClosed"))
	h, d, l := "p0.IsHidden()", "p0.IsDef()", "p0.IsLet()"
	ac.checkTable("typo.allowed-in-closed-table", []caseRow{
		{name: "hidden", truth: map[string]bool{h: true, d: false, l: false}, want: []string{"true"}, sub: true},
		{name: "definition", truth: map[string]bool{h: false, d: true, l: false}, want: []string{"true"}, sub: true},
		{name: "let", truth: map[string]bool{h: false, d: false, l: true}, want: []string{"true"}, sub: true},
		{name: "regular", truth: map[string]bool{h: false, d: false, l: false}, want: []string{"false"}, sub: true},
	}, "hidden, definition and let labels are never restricted by closedness; every other label is")
}

// checkC05ConjunctIdentity: a conjunct is an expression *in an environment*.
// The two places that drop a conjunct as a duplicate of one already present
// (Vertex.findConjunct and nodeContext.insertConstraint, for pattern
// constraints) must compare both: the same `[string]: >=lo & <=hi` reached
// through two instantiations carries different bounds, and dropping the second
// as a duplicate leaves matching fields checked against the first only.
func checkC05ConjunctIdentity(c *Ctx) {
	n := 0
	for _, f := range c.funcs(c.pkg(adtP)) {
		info := f.Info()
		isConjunctX := func(e ast.Expr) (string, bool) {
			sel, ok := ast.Unparen(e).(*ast.SelectorExpr)
			if !ok || sel.Sel.Name != "x" {
				return "", false
			}
			t := info.TypeOf(sel.X)
			if t == nil {
				return "", false
			}
			if nt, ok := t.(*types.Named); ok && nt.Obj().Name() == "Conjunct" {
				return exprString(sel.X), true
			}
			return "", false
		}
		k := 0
		var visit func(cond ast.Expr, pos token.Pos)
		visit = func(cond ast.Expr, pos token.Pos) {
			var a, b string
			ast.Inspect(cond, func(x ast.Node) bool {
				if be, ok := x.(*ast.BinaryExpr); ok && be.Op == token.EQL {
					if l, ok1 := isConjunctX(be.X); ok1 {
						if r, ok2 := isConjunctX(be.Y); ok2 {
							a, b = l, r
						}
					}
				}
				return true
			})
			if a == "" {
				return
			}
			env := false
			ast.Inspect(cond, func(x ast.Node) bool {
				switch y := x.(type) {
				case *ast.CallExpr:
					if s := exprString(y.Fun); (s == a+".Env.Equal" || s == b+".Env.Equal") && len(y.Args) >= 1 {
						env = true
					}
				case *ast.BinaryExpr:
					if y.Op == token.EQL && strings.HasSuffix(exprString(y.X), ".Env") && strings.HasSuffix(exprString(y.Y), ".Env") {
						env = true
					}
				}
				return true
			})
			n++
			k++
			c.check("dedup.conjunct-identity-includes-environment", fmt.Sprintf("%s#%d", f.Name, k), pos, env,
				"two conjuncts are the same only if expression and environment are the same: a duplicate test `"+a+".x == "+b+".x` must also compare the environments ("+a+".Env.Equal(ctx, "+b+".Env))")
		}
		ast.Inspect(f.Body, func(x ast.Node) bool {
			if is, ok := x.(*ast.IfStmt); ok {
				visit(is.Cond, is.Pos())
			}
			return true
		})
	}
	c.expect("dedup.conjunct-identity-includes-environment", 2)
}

// checkC05RecursiveClosedness: when an embedded definition closes the struct
// literal that embeds it, the requirement of that struct is activated
// (`ignore = false`). If the embedded definition is recursively closed the
// activated requirement must be marked recursive in the same step, otherwise
// the enclosing struct is closed one level deep only (like close()) and
// accepts undeclared fields below an allowed field.
func checkC05RecursiveClosedness(c *Ctx) {
	f := c.fn(adtP, "(*nodeContext).addResolver")
	cf := newCaseFn(c, f)
	activate, mark := -1, -1
	for _, n := range cf.g.Nodes {
		as, ok := n.N.(*ast.AssignStmt)
		if !ok || len(as.Lhs) != 1 || len(as.Rhs) != 1 {
			continue
		}
		l := exprString(as.Lhs[0])
		switch {
		case strings.HasSuffix(l, ".ignore") && strings.HasPrefix(l, "n.reqDefIDs[") && exprString(as.Rhs[0]) == "false":
			if activate < 0 { // the first one: the walk up the chain of outer structs
				activate = n.ID
			}
		case strings.HasSuffix(l, ".isRecursive") && strings.HasPrefix(l, "n.reqDefIDs[") && exprString(as.Rhs[0]) == "true":
			mark = n.ID
		}
	}
	var rec string
	for k := range cf.atoms() {
		if k == "p1.ClosedRecursive" {
			rec = k
		}
	}
	ok := activate >= 0 && mark >= 0 && rec != ""
	det := fmt.Sprintf("activation found=%v, recursive mark found=%v, test of v.ClosedRecursive found=%v", activate >= 0, mark >= 0, rec != "")
	if ok {
		_, visT := cf.walkBlocked(activate, map[string]bool{rec: true}, map[int]bool{mark: true})
		_, visF := cf.walk(activate, map[string]bool{rec: false})
		// with a recursively closed definition no path may leave the activation step without the mark:
		// blocked walk from the activation must not reach the loop's next iteration or the exit
		head := cf.loopHead(0)
		reachedNext := false
		for _, e := range cf.g.Nodes[activate].Succs {
			r, _ := func() (map[int]bool, bool) {
				_, v := cf.walkBlocked(e.To, map[string]bool{rec: true}, map[int]bool{mark: true})
				return v, true
			}()
			if e.To != mark && ((head >= 0 && r[head]) || r[cf.g.Exit]) {
				reachedNext = true
			}
		}
		ok = visT[mark] && !reachedNext && !visF[mark]
		det = fmt.Sprintf("marked when the embedded definition is recursively closed=%v, never skipped=%v, not marked otherwise=%v", visT[mark], !reachedNext, !visF[mark])
	}
	c.check("closedness.recursive-flag-propagated", f.Name, f.Decl.Pos(), ok,
		"when addResolver activates the requirement of an enclosing struct literal for an embedded definition, it must mark it recursive iff the definition is recursively closed (v.ClosedRecursive): "+det)
}

// c05OnceFlagOnlyNarrowed: while merging the requirement sets of a node,
// `once` ("this definition needs to be satisfied only at this level, not
// recursively") is evidence accumulated over all conjuncts: as soon as one
// conjunct makes the requirement recursive it must stay recursive. Outside the
// branch that revives an ignored entry, an assignment to `.once` must
// therefore be conjunctive — its right-hand side mentions `.once` itself.
func c05OnceFlagOnlyNarrowed(c *Ctx) {
	const rule = "closedness.once-flag-only-narrowed"
	n := 0
	for _, f := range c.funcs(c.pkg(adtP)) {
		if f.Decl == nil {
			continue
		}
		var stack []ast.Node
		k := 0
		ast.Inspect(f.Body, func(x ast.Node) bool {
			if x == nil {
				stack = stack[:len(stack)-1]
				return true
			}
			stack = append(stack, x)
			as, ok := x.(*ast.AssignStmt)
			if !ok || len(as.Lhs) != 1 || len(as.Rhs) != 1 || as.Tok != token.ASSIGN {
				return true
			}
			lhs := exprString(as.Lhs[0])
			if !strings.HasSuffix(lhs, ".once") || !strings.Contains(lhs, "[") {
				return true
			}
			// only the merge loop: the element is an entry of a slice that also has .ignored
			reviving := false
			for i := len(stack) - 2; i >= 0; i-- {
				if is, ok := stack[i].(*ast.IfStmt); ok && strings.HasSuffix(exprString(is.Cond), ".ignored") {
					// in the then-branch?
					if is.Body.Pos() <= as.Pos() && as.End() <= is.Body.End() {
						reviving = true
					}
				}
			}
			k++
			n++
			if reviving {
				c.check(rule, fmt.Sprintf("%s#%d", f.Name, k), as.Pos(), true, "an ignored entry is revived: its once flag is set afresh")
				return true
			}
			conj := strings.Contains(exprString(as.Rhs[0]), ".once")
			c.check(rule, fmt.Sprintf("%s#%d", f.Name, k), as.Pos(), conj,
				"outside the branch that revives an ignored entry, the once flag of a requirement may only be narrowed (`x.once = x.once && …`): overwriting it lets a later non-recursive conjunct reopen a requirement an earlier conjunct made recursive, and fields below a closed definition are accepted")
			return true
		})
	}
	c.expect(rule, 2)
}
