package main

import (
	"fmt"
	"go/ast"
	"go/constant"
	"go/types"
	"strings"
)

func init() {
	register(&propCheck{
		id:   "C05",
		pkgs: []string{"internal/core/adt"},
		run:  checkC05,
		about: "C05 (field constraints, patterns and closedness), narrow: decides the shape of the final closedness verdict and of the required-field check, not the evidence bookkeeping. In nodeContext.checkTypos: (a) a 'field not allowed' error is produced only for an arc that is neither hidden/definition/let (allowedInClosed) nor supported by evidence for every requirement set (hasEvidenceForAll), and only for present fields (ArcType <= ArcRequired) — 'hidden and definition fields are never restricted', 'optional constraints on absent fields never make a struct fail'; " +
			"(b) conversely every arc that fails both tests reaches notAllowedError before the next arc — 'a closed struct never silently gains a disallowed field'; (c) the combined error is attached to the node. In validator.validate: (d) a required field that is still ArcRequired at final validation outside a definition produces NewRequiredNotPresentError. " +
			"(e) the finite skeleton of field-kind unification: the ArcType enum is ordered member < required < optional < pending < not-present, updateArcType assigns the new kind exactly when it is strictly more restrictive (`a?: & a!:` is required, `a!: & a:` regular), the markers `?`/`!` map to the kinds and back, and allowedInClosed is true exactly for hidden, definition and let labels. " +
			"It does not decide which conjuncts provide evidence for which field (defID containment, replacement sets, pattern matching): that is run-time data.",
		trust: []string{"evidence sets (reqSets, conjunctInfo) are value-level and not decided"},
	})
}

func checkC05(c *Ctx) {
	checkC05ArcTypes(c)
	f := c.fn(adtP, "(*nodeContext).checkTypos")
	g := c.graph(f)
	info := f.Info()
	errCalls := map[int]bool{}
	for id := range g.callNodes(adtP + ".(*OpContext).notAllowedError") {
		errCalls[id] = true
	}
	if !c.check("typo.error-site", f.Name, f.Decl.Pos(), len(errCalls) == 1, "checkTypos reports disallowed fields through notAllowedError in exactly one place") {
		return
	}
	head, body, _ := g.rangeLoop(func(rs *ast.RangeStmt) bool { return strings.HasSuffix(exprString(rs.X), ".Arcs") })
	if head < 0 {
		c.broken("anchor: checkTypos no longer ranges over the vertex's arcs")
	}
	barrier := map[int]bool{head: true}
	allowed := func(e ast.Expr) (bool, bool) {
		call, ok := e.(*ast.CallExpr)
		if !ok || calleeName(info, call) != adtP+".allowedInClosed" {
			return false, false
		}
		return true, true // allowed => must NOT reach the error
	}
	evidence := func(e ast.Expr) (bool, bool) {
		call, ok := e.(*ast.CallExpr)
		if !ok || calleeName(info, call) != adtP+".(*nodeContext).hasEvidenceForAll" {
			return false, false
		}
		return true, true
	}
	for _, gs := range []struct {
		name string
		m    atomMatcher
		why  string
	}{
		{"hidden-and-definitions-never-restricted", allowed, "a hidden, definition or let field must never be reported as not allowed (allowedInClosed guard)"},
		{"evidence-admits", evidence, "a field with evidence for every requirement set must not be reported"},
	} {
		r := g.gate(gs.m, errCalls, barrier, body)
		c.check("typo."+gs.name, f.Name, g.pos(head), r.found && !r.leak && !r.bypass,
			fmt.Sprintf("%s (found=%v leak=%v bypass=%v)", gs.why, r.found, r.leak, r.bypass))
	}
	// (b) an arc failing both tests reaches the error before the next arc
	noEvidence := func(from int, e GEdge) bool { return false }
	_ = noEvidence
	var evNode = -1
	for id := range g.callNodes(adtP + ".(*nodeContext).hasEvidenceForAll") {
		evNode = id
	}
	okReach := false
	if evNode >= 0 {
		for _, e := range g.Nodes[evNode].Succs {
			if e.Cond == nil {
				continue
			}
			p := atomOnEdge(e.Cond, e.Truth, evidence)
			if p.present && p.good && !p.bad { // no evidence
				r := g.reach([]int{e.To}, func(id int) bool { return errCalls[id] }, nil)
				okReach = !r[head] && !r[g.Exit]
				if errCalls[e.To] {
					okReach = true
				}
			}
		}
	}
	c.check("typo.disallowed-field-always-reported", f.Name, g.pos(head), okReach,
		"once allowedInClosed and hasEvidenceForAll have both said no, every path to the next arc must pass notAllowedError (a closed struct never silently gains a field)")
	// the error is produced only for present fields and combined
	present := false
	combined := false
	ast.Inspect(f.Body, func(n ast.Node) bool {
		if be, ok := n.(*ast.BinaryExpr); ok && be.Op.String() == "<=" && strings.HasSuffix(exprString(be.X), ".ArcType") && exprString(be.Y) == "ArcRequired" {
			present = true
		}
		if call, ok := n.(*ast.CallExpr); ok && calleeName(info, call) == adtP+".CombineErrors" {
			combined = true
		}
		return true
	})
	c.check("typo.only-present-fields", f.Name, f.Decl.Pos(), present, "only present (member or required) fields may fail the closedness check: an optional constraint on an absent field never makes a struct fail")
	// (c) the accumulated error is attached
	attach := g.callNodes(adtP + ".(*nodeContext).AddChildError")
	errNil := func(e ast.Expr) (bool, bool) {
		be, ok := e.(*ast.BinaryExpr)
		if !ok || !isNilIdent(be.Y) || exprString(be.X) != "err" {
			return false, false
		}
		return true, be.Op.String() == "=="
	}
	// from the `err != nil` edge after the loop, the exit must not be reachable without AddChildError
	okAttach := len(attach) > 0 && combined
	for _, n := range g.Nodes {
		for _, e := range n.Succs {
			if e.Cond == nil {
				continue
			}
			p := atomOnEdge(e.Cond, e.Truth, errNil)
			if p.present && p.good && !p.bad && !g.reachableFrom(n.ID)[head] { // err != nil, after the loop
				r := g.reach([]int{e.To}, func(id int) bool { _, ok := attach[id]; return ok }, nil)
				if r[g.Exit] {
					if _, ok := attach[e.To]; !ok {
						okAttach = false
					}
				}
			}
		}
	}
	c.check("typo.error-attached", f.Name, f.Decl.Pos(), okAttach, "the combined not-allowed error must be attached to the node (AddChildError) before checkTypos returns")

	// (d) required fields
	vf := c.fn(adtP, "(*validator).validate")
	gv := c.graph(vf)
	vi := vf.Info()
	req := gv.callNodes(adtP + ".NewRequiredNotPresentError")
	isReq := func(e ast.Expr) (bool, bool) {
		be, ok := e.(*ast.BinaryExpr)
		if !ok || be.Op.String() != "==" || !strings.HasSuffix(exprString(be.X), ".ArcType") || exprString(be.Y) != "ArcRequired" {
			return false, false
		}
		return true, false
	}
	okReq := len(req) == 1
	if okReq {
		hh, _, _ := gv.rangeLoop(func(rs *ast.RangeStmt) bool { return strings.HasSuffix(exprString(rs.X), ".Arcs") })
		r := gv.gate(isReq, setOf(keys(req)), map[int]bool{hh: true}, -1)
		okReq = r.found && !r.leak
		// the error is added
		added := false
		for id := range req {
			for _, call := range callsIn(gv.Nodes[id].N, false) {
				if calleeName(vi, call) == adtP+".(*validator).add" {
					added = true
				}
			}
		}
		okReq = okReq && added
		// the loop ranges over all arcs
		h, _, _ := gv.rangeLoop(func(rs *ast.RangeStmt) bool { return strings.HasSuffix(exprString(rs.X), ".Arcs") })
		okReq = okReq && h >= 0
	}
	c.check("required.missing-field-reported", vf.Name, vf.Decl.Pos(), okReq,
		"final validation must report every arc that is still ArcRequired (a required field that no conjunct provided) through NewRequiredNotPresentError, added to the validator's errors")
}

// checkC05ArcTypes: the finite skeleton of field-constraint unification.
// ArcType is ordered from most to least restrictive (member < required <
// optional < pending < not present); unifying two declarations of a field keeps
// the more restrictive kind (`a?: _ & a!: _` is required, `a!: _ & a: _` is a
// regular field), and the syntax markers map to the kinds and back.
func checkC05ArcTypes(c *Ctx) {
	p := c.pkg(adtP)
	val := func(name string) int64 {
		k, ok := p.Types.Scope().Lookup(name).(*types.Const)
		if !ok {
			c.broken("anchor: adt.%s not found", name)
		}
		v, _ := constant.Int64Val(k.Val())
		return v
	}
	m, r, o, pe, np := val("ArcMember"), val("ArcRequired"), val("ArcOptional"), val("ArcPending"), val("ArcNotPresent")
	c.check("arctype.enum-order", "adt.ArcType", 0, m < r && r < o && o < pe && pe < np,
		fmt.Sprintf("ArcMember(%d) < ArcRequired(%d) < ArcOptional(%d) < ArcPending(%d) < ArcNotPresent(%d): comparisons such as `ArcType <= ArcRequired` (present field) and the minimum taken on unification rely on this order", m, r, o, pe, np))

	// updateArcType keeps the minimum
	f := c.fn(adtP, "(*Vertex).updateArcType")
	cf := newCaseFn(c, f)
	less, notPresent, pending := "p0 < recv.ArcType", "ArcNotPresent == recv.ArcType", "ArcPending == recv.ArcType"
	assign := -1
	for _, n := range cf.g.Nodes {
		if as, ok := n.N.(*ast.AssignStmt); ok && len(as.Lhs) == 1 && exprString(as.Lhs[0]) == "v.ArcType" && cf.canon(as.Rhs[0]) == "p0" {
			assign = n.ID
		}
	}
	missing := cf.missingAtoms(map[string]bool{less: true, notPresent: true})
	okU := assign >= 0 && len(missing) == 0
	det := fmt.Sprintf("assignment found=%v, tests missing=%v", assign >= 0, missing)
	if okU {
		_, vis := cf.walk(cf.g.Entry, map[string]bool{less: true, notPresent: false, pending: false})
		_, vis2 := cf.walk(cf.g.Entry, map[string]bool{less: false, pending: false})
		_, vis3 := cf.walk(cf.g.Entry, map[string]bool{less: true, notPresent: true, pending: false})
		okU = vis[assign] && !vis2[assign] && !vis3[assign]
		det = fmt.Sprintf("more restrictive kind assigned=%v, less or equally restrictive kind ignored=%v, not-present arc left alone=%v", vis[assign], !vis2[assign], !vis3[assign])
	}
	c.check("arctype.unify-keeps-most-restrictive", f.Name, f.Decl.Pos(), okU,
		"updateArcType must set v.ArcType = t exactly when t is strictly more restrictive than the current kind (and the arc is not ArcNotPresent): "+det)

	// syntax marker <-> kind, both directions
	ft := newCaseFn(c, c.fn(adtP, "ConstraintFromToken"))
	opt, not := eqKey("p0", "token.OPTION"), eqKey("p0", "token.NOT")
	ft.checkTable("arctype.marker-table", []caseRow{
		{name: "?", truth: map[string]bool{opt: true, not: false}, want: []string{"ArcOptional"}},
		{name: "!", truth: map[string]bool{opt: false, not: true}, want: []string{"ArcRequired"}},
		{name: "none", truth: map[string]bool{opt: false, not: false}, want: []string{"ArcMember"}},
	}, "`?` declares an optional field constraint, `!` a required one, no marker a regular field")
	tt := newCaseFn(c, c.fn(adtP, "ArcType.Token"))
	ko, kr := eqKey("recv", "ArcOptional"), eqKey("recv", "ArcRequired")
	for _, row := range []struct {
		name  string
		truth map[string]bool
		want  string
	}{
		{"optional", map[string]bool{ko: true, kr: false}, "token.OPTION"},
		{"required", map[string]bool{ko: false, kr: true}, "token.NOT"},
		{"member", map[string]bool{ko: false, kr: false}, ""},
	} {
		path, ok := tt.trace(tt.g.Entry, row.truth)
		got := tt.lastAssigned(path, "t")
		c.check("arctype.marker-table", tt.f.Name+"/"+row.name, tt.f.Decl.Pos(), ok && got == row.want && len(tt.missingAtoms(map[string]bool{ko: true, kr: true})) == 0,
			fmt.Sprintf("ArcType.Token must map %s back to %q; found %q", row.name, row.want, got))
	}

	// which labels escape closedness
	ac := newCaseFn(c, c.fn(adtP, "allowedInClosed"))
	h, d, l := "p0.IsHidden()", "p0.IsDef()", "p0.IsLet()"
	ac.checkTable("typo.allowed-in-closed-table", []caseRow{
		{name: "hidden", truth: map[string]bool{h: true, d: false, l: false}, want: []string{"true"}, sub: true},
		{name: "definition", truth: map[string]bool{h: false, d: true, l: false}, want: []string{"true"}, sub: true},
		{name: "let", truth: map[string]bool{h: false, d: false, l: true}, want: []string{"true"}, sub: true},
		{name: "regular", truth: map[string]bool{h: false, d: false, l: false}, want: []string{"false"}, sub: true},
	}, "hidden, definition and let labels are never restricted by closedness; every other label is")
}
