package main

import (
	"fmt"
	"go/ast"
	"go/token"
	"go/types"
	"sort"
	"strings"
)

func init() {
	register(&propCheck{
		id:   "C20",
		pkgs: []string{"cmd/cue/cmd", "tools/trim", "internal/core/adt"},
		run:  checkC20,
		about: "C20 (cue trim leaves the evaluated configuration unchanged), narrow: decides (a) the command never writes a trim it has not re-validated: in cmd/cue's runTrim every path from trim.Files to a file-writing call passes the rebuild of the trimmed files (through the overlay) and the diff.Final.Diff loop whose non-Identity edge returns an error — or the user's --ignore flag, the only permitted bypass; --dry-run returns before any write; " +
			"(b) the dependency walker that keeps alive everything a surviving conjunct refers to (trimmerV3.resolveElemAll, linkStructComprehension) uses onward every child expression of each adt node kind it has a case for, and each clause kind it handles contributes its expression. " +
			"It does not decide that trim.Files removes only implied fields, nor idempotence of a second trim; expression kinds without a case in the walker are listed in the evidence for review, not judged.",
		trust: []string{"diff.Final.Diff is the oracle the command relies on"},
	})
}

func checkC20(c *Ctx) {
	c20ConstraintFieldsNeverWin(c)
	c20AllDefaultsDecidedAfterScan(c)
	c20Links(c)
	c20AllChildren(c)
	// errcheck-style baseline: a newly discarded error in the package is a dropped protocol/validation step
	c.checkErrorDiscipline("errors.no-new-dropped-error", "tools/trim", map[string]string{
	})
	f := c.fn("cmd/cue/cmd", "runTrim")
	g := c.graph(f)
	info := f.Info()
	trimCall := g.callNodes("tools/trim.Files")
	if len(trimCall) == 0 {
		c.broken("anchor: runTrim no longer calls trim.Files")
	}
	writes := g.callNodes("cmd/cue/cmd.writeFileIfChanged", "os.WriteFile", "os.Create", "os.OpenFile")
	for _, id := range g.find(func(n ast.Node) bool {
		for _, call := range callsIn(n, false) {
			if sel, ok := ast.Unparen(call.Fun).(*ast.SelectorExpr); ok && sel.Sel.Name == "Write" && strings.Contains(exprString(sel.X), "OutOrStdout") {
				return true
			}
		}
		return false
	}) {
		writes[id] = nil
	}
	accept := map[int]bool{}
	for id := range writes {
		accept[id] = true
	}
	if !c.check("cli.writes-present", f.Name, f.Decl.Pos(), len(accept) >= 2, "runTrim writes the trimmed files (to the files or to stdout)") {
		return
	}
	// the diff call and its loop
	diffCalls := g.callNodes("internal/diff.(*Profile).Diff", "internal/diff.Profile.Diff")
	if !c.check("cli.diff-present", f.Name, f.Decl.Pos(), len(diffCalls) == 1, "runTrim must compare the original and the trimmed instances with diff.Final.Diff") {
		return
	}
	diffID := keys(diffCalls)[0]
	var diffLoopHead = -1
	for _, n := range g.Nodes {
		if rs, ok := n.Stmt.(*ast.RangeStmt); ok && n.Kind.String() == "RangeLoop" {
			if p := g.pos(diffID); rs.Body.Pos() <= p && p <= rs.Body.End() {
				diffLoopHead = n.ID
			}
		}
	}
	// 1. a differing result aborts
	notIdentity := func(e ast.Expr) (bool, bool) {
		be, ok := e.(*ast.BinaryExpr)
		if !ok || (be.Op != token.NEQ && be.Op != token.EQL) {
			return false, false
		}
		isId := func(x ast.Expr) bool {
			if sel, ok := ast.Unparen(x).(*ast.SelectorExpr); ok {
				if k, ok := info.Uses[sel.Sel].(*types.Const); ok && k.Name() == "Identity" {
					return true
				}
			}
			return false
		}
		if !isId(be.X) && !isId(be.Y) {
			return false, false
		}
		return true, be.Op == token.NEQ
	}
	r := g.gate(notIdentity, accept, nil, -1)
	c.check("cli.difference-aborts", f.Name, g.pos(diffID), r.found && !r.leak,
		"when the trimmed package evaluates differently (diff kind != Identity) runTrim must not reach any write")
	// 2. every path to a write passes the diff loop or the --ignore flag
	ignoreTrue := func(from int, e GEdge) bool {
		if e.Cond == nil {
			return false
		}
		m := func(x ast.Expr) (bool, bool) {
			call, ok := x.(*ast.CallExpr)
			if !ok {
				return false, false
			}
			if sel, ok := ast.Unparen(call.Fun).(*ast.SelectorExpr); ok && sel.Sel.Name == "Bool" && exprString(sel.X) == "flagIgnore" {
				return true, false
			}
			return false, false
		}
		p := atomOnEdge(e.Cond, e.Truth, m)
		return p.present && p.good && !p.bad && !p.na
	}
	rr := g.reach([]int{g.Entry}, func(id int) bool { return id == diffLoopHead }, ignoreTrue)
	bypass := false
	for a := range accept {
		if rr[a] {
			bypass = true
		}
	}
	c.check("cli.write-only-after-diff", f.Name, f.Decl.Pos(), diffLoopHead >= 0 && !bypass,
		"every path to a write must pass the loop that diffs each original instance against its trimmed rebuild, unless the user passed --ignore")
	// 3. what is diffed is the rebuild made after trimming, through the overlay
	rebuilt := false
	call := diffCalls[diffID]
	if len(call.Args) == 2 {
		arg := ast.Unparen(call.Args[1])
		if cl, ok := arg.(*ast.CallExpr); ok {
			if sel, ok := ast.Unparen(cl.Fun).(*ast.SelectorExpr); ok {
				arg = sel.X
			}
		}
		root := rootIdent(arg)
		if root != nil {
			o := info.Uses[root]
			for id, bc := range g.callNodes("cmd/cue/cmd.buildInstances") {
				if as, ok := g.Nodes[id].N.(*ast.AssignStmt); ok && identObj(info, as.Lhs[0]) == o {
					for t := range trimCall {
						if g.reachableFrom(t)[id] && strings.Contains(exprString(bc.Args[1]), "load.Instances") {
							rebuilt = true
						}
					}
				}
			}
		}
	}
	overlaySet := false
	ast.Inspect(f.Body, func(n ast.Node) bool {
		if as, ok := n.(*ast.AssignStmt); ok && len(as.Lhs) == 1 {
			if sel, ok := ast.Unparen(as.Lhs[0]).(*ast.SelectorExpr); ok && sel.Sel.Name == "Overlay" {
				overlaySet = true
			}
		}
		return true
	})
	c.check("cli.diff-against-rebuild", f.Name, g.pos(diffID), rebuilt && overlaySet,
		"the instances compared must be rebuilt after trim.Files from the trimmed files (load overlay), not the originals")
	// 4. dry-run never writes
	dry := func(e ast.Expr) (bool, bool) {
		cl, ok := e.(*ast.CallExpr)
		if !ok {
			return false, false
		}
		if sel, ok := ast.Unparen(cl.Fun).(*ast.SelectorExpr); ok && sel.Sel.Name == "Bool" && exprString(sel.X) == "flagDryRun" {
			return true, true
		}
		return false, false
	}
	rd := g.gate(dry, accept, nil, g.Entry)
	c.check("cli.dry-run-never-writes", f.Name, f.Decl.Pos(), rd.found && !rd.leak && !rd.bypass, "--dry-run must return before any write")
	// 5. trim errors abort
	in := g.run(g.successAutomaton(trimCall))
	okT := true
	for a := range accept {
		if in[a]&(1<<stPending|1<<stFailed) != 0 {
			okT = false
		}
	}
	c.check("cli.trim-error-aborts", f.Name, f.Decl.Pos(), okT, "a failing (or unchecked) trim.Files must not be followed by a write")

	// (b) the walker
	walker := dispatcher{pkg: "tools/trim", fn: "(*trimmerV3).resolveElemAll", iface: adtP + ".Elem", implPkg: adtP}
	n := c.checkCaseFieldCoverage("walker.case-uses-children", walker, adtP+".Elem", nil, map[string]string{
		"Comprehension.Value":    "the body struct of a comprehension becomes arcs of the result; its conjuncts are visited where those arcs are trimmed",
		"Comprehension.Fallback": "as Comprehension.Value: visited as conjuncts of the arcs it produces",
		"Disjunction.Errors":     "evaluation result bookkeeping, not syntax",
		"Disjunction.owner":      "evaluation result bookkeeping, not syntax",
	})
	c.expect("walker.case-uses-children", 10)
	_ = n
	// expression kinds whose operands are evaluated in the scope of the
	// conjunct and are not resolved "as a whole": an index or a slice bound
	// may be a reference of its own (`l[x]`, `l[x:]`), which must keep the
	// declaration of x alive. They need a case (failing packages: see
	// known_findings.json / DESIGN §0.4).
	{
		wf := c.fn("tools/trim", "(*trimmerV3).resolveElemAll")
		elemT := c.lookupType(adtP + ".Elem")
		cases, _, _ := switchCases(wf.Info(), wf.Body, func(t types.Type) bool { return types.Identical(t, elemT.Type()) })
		for _, kind := range []string{"IndexExpr", "SliceExpr"} {
			has := false
			for _, tn := range implementors(c.pkg(adtP), elemT.Type().Underlying().(*types.Interface)) {
				if tn.Name() == kind && covered(tn, cases) {
					has = true
				}
			}
			c.check("walker.index-and-slice-operands-traversed", "resolveElemAll/"+kind, wf.Decl.Pos(), has,
				"resolveElemAll needs a case for *adt."+kind+" that pushes its operand expressions: a reference used as an index or slice bound (`l[x]`, `l[x:]`) must keep the referenced declaration, or the trimmed package no longer evaluates")
		}
	}
	// clause kinds handled by the two clause switches must contribute their expression
	for _, fn := range []string{"(*trimmerV3).resolveElemAll", "(*trimmerV3).linkStructComprehension"} {
		wf := c.fn("tools/trim", fn)
		d := dispatcher{pkg: "tools/trim", fn: fn, iface: adtP + ".Yielder", implPkg: adtP}
		c.checkCaseFieldCoverage("walker.clause-uses-expression", d, adtP+".Elem", nil, nil)
		// review list: clause kinds without a case
		cases, nsw, _ := switchCases(wf.Info(), wf.Body, func(t types.Type) bool {
			return types.Identical(t, c.lookupType(adtP+".Yielder").Type())
		})
		if nsw > 0 {
			var miss []string
			for _, tn := range implementors(c.pkg(adtP), c.lookupType(adtP+".Yielder").Type().Underlying().(*types.Interface)) {
				if !covered(tn, cases) {
					miss = append(miss, tn.Name())
				}
			}
			c.note("review: %s has no case for clause kinds %v (not judged: needs a failing package to be called a defect)", wf.Name, miss)
		}
	}
	c.expect("walker.clause-uses-expression", 4)
	// two cooperating sites exclude comprehension output that depends on the
	// vertex being decided: the winner selection and the cover computation
	for _, fn := range []string{"(*trimmerV3).findRedundancies", "(*trimmerV3).solvePending"} {
		sf := c.fn("tools/trim", fn)
		found := false
		ast.Inspect(sf.Body, func(n ast.Node) bool {
			if call, ok := n.(*ast.CallExpr); ok && calleeName(sf.Info(), call) == "tools/trim.(*nodeMeta).comprehensionDependsOn" {
				found = true
			}
			return true
		})
		c.check("walker.self-dependent-comprehension-excluded", sf.Name, sf.Decl.Pos(), found,
			"a conjunct produced by a comprehension that ranges over the very vertex being decided cannot keep that vertex in existence: both the winner selection (findRedundancies) and the cover computation (solvePending) must consult comprehensionDependsOn")
	}

	// review list for expression kinds
	wf := c.fn("tools/trim", "(*trimmerV3).resolveElemAll")
	elemT := c.lookupType(adtP + ".Elem")
	cases, _, _ := switchCases(wf.Info(), wf.Body, func(t types.Type) bool { return types.Identical(t, elemT.Type()) })
	var miss []string
	for _, tn := range implementors(c.pkg(adtP), elemT.Type().Underlying().(*types.Interface)) {
		if covered(tn, cases) {
			continue
		}
		// only kinds that have child expressions matter
		has := false
		for _, fld := range structFields(tn) {
			if carriesNode(fld.Type(), elemT.Type().Underlying().(*types.Interface)) && !fld.Embedded() {
				has = true
			}
		}
		if has {
			miss = append(miss, tn.Name())
		}
	}
	sort.Strings(miss)
	c.note("review: resolveElemAll has no case for expression kinds with children %v (resolvers among them are resolved as a whole; lists/structs become arcs) — not judged", miss)
	_ = fmt.Sprint
}

// c20Links: (1) every leaf conjunct with a source position gets its resolver
// links — they keep what the conjunct *refers to*, so they are needed for
// ignored conjuncts (patterns, `?`/`!` fields, disjunction branches) as well.
// (2) state shared by the before/after callbacks of an ast.Walk must be
// restored by the inverse operation (counter --, stack pop): the constructs
// they track nest (a call inside a call's arguments), so a boolean reset on
// leaving the inner one forgets the outer one.
func c20Links(c *Ctx) {
	f := c.fn("tools/trim", "(*trimmerV3).findRedundancies")
	g := c.graph(f)
	info := f.Info()
	head, _, _ := g.rangeLoop(func(rs *ast.RangeStmt) bool { return strings.HasSuffix(exprString(rs.X), ".LeafConjuncts()") })
	links := map[int]bool{}
	for id, call := range g.callNodes("tools/trim.(*trimmerV3).linkResolvers") {
		if len(call.Args) == 2 {
			links[id] = true
		}
	}
	start := -1
	for id := range g.callNodes("tools/trim.(*trimmerV3).getNodeMeta") {
		if head >= 0 && g.reachableFrom(head)[id] && (start < 0 || g.pos(id) < g.pos(start)) {
			// the first metadata lookup of the loop body: the conjunct has a source
			if as, ok := g.Nodes[id].N.(*ast.AssignStmt); ok && len(as.Lhs) == 1 && exprString(as.Lhs[0]) == "nm" {
				start = id
			}
		}
	}
	ok := head >= 0 && start >= 0 && len(links) > 0
	if ok {
		r := g.reach([]int{start}, func(id int) bool { return links[id] }, nil)
		ok = !r[head] && !r[g.Exit]
	}
	_ = info
	c.check("walker.resolvers-linked-for-every-conjunct", f.Name, f.Decl.Pos(), ok,
		"in findRedundancies every leaf conjunct that has a source must reach t.linkResolvers(c, …) before the next conjunct, whether or not the conjunct itself is ignored: the links keep the declarations the conjunct refers to (a pattern `[=~\"^max\"]: >=x` keeps `x: int`)")

	// (2) before/after callbacks of ast.Walk
	n := 0
	for _, fn := range c.funcs(c.pkg("tools/trim")) {
		fi := fn.Info()
		ast.Inspect(fn.Body, func(x ast.Node) bool {
			call, isCall := x.(*ast.CallExpr)
			if !isCall || calleeName(fi, call) != "cue/ast.Walk" || len(call.Args) != 3 {
				return true
			}
			before, ok1 := call.Args[1].(*ast.FuncLit)
			after, ok2 := call.Args[2].(*ast.FuncLit)
			if !ok1 || !ok2 {
				return true
			}
			writes := func(l *ast.FuncLit) map[types.Object][]ast.Node {
				out := map[types.Object][]ast.Node{}
				ast.Inspect(l.Body, func(y ast.Node) bool {
					switch s := y.(type) {
					case *ast.AssignStmt:
						for _, lh := range s.Lhs {
							if o := identObj(fi, lh); o != nil && o.Pos() < l.Pos() { // captured
								out[o] = append(out[o], s)
							}
						}
					case *ast.IncDecStmt:
						if o := identObj(fi, s.X); o != nil && o.Pos() < l.Pos() {
							out[o] = append(out[o], s)
						}
					}
					return true
				})
				return out
			}
			wb, wa := writes(before), writes(after)
			for o, as := range wa {
				if len(wb[o]) == 0 {
					continue
				}
				n++
				okv := true
				for _, st := range as {
					switch s := st.(type) {
					case *ast.IncDecStmt:
						// inverse of an inc/dec in the before callback
						inv := false
						for _, b := range wb[o] {
							if bi, isID := b.(*ast.IncDecStmt); isID && bi.Tok != s.Tok {
								inv = true
							}
						}
						okv = okv && inv
					case *ast.AssignStmt:
						// x = x[:len(x)-1]  (pop) or x -= k
						pop := false
						if len(s.Rhs) == 1 {
							if se, isSl := ast.Unparen(s.Rhs[0]).(*ast.SliceExpr); isSl && identObj(fi, se.X) == o {
								pop = true
							}
						}
						if s.Tok == token.SUB_ASSIGN || s.Tok == token.ADD_ASSIGN {
							pop = true
						}
						okv = okv && pop
					}
				}
				c.check("walker.nesting-state-restored-by-inverse", fmt.Sprintf("%s/%s", fn.Name, o.Name()), call.Pos(), okv,
					"variable "+o.Name()+" is written by both callbacks of ast.Walk: the constructs nest, so leaving one must undo exactly what entering it did (counter decrement, stack pop) — assigning a constant on the way out forgets the enclosing construct")
			}
			return true
		})
	}
	c.expect("walker.nesting-state-restored-by-inverse", 2)
}

// c20AllChildren: the dependency walkers of the trimmer must visit *every*
// element of a node's child slices. Ranging over the slice does; an index loop
// with a stride other than one (or over a sub-slice) silently skips children —
// e.g. every other part of an interpolation.
func c20AllChildren(c *Ctx) {
	nRange, k := 0, 0
	for _, f := range c.funcs(c.pkg("tools/trim")) {
		info := f.Info()
		isChildSlice := func(e ast.Expr) bool {
			sel, ok := ast.Unparen(e).(*ast.SelectorExpr)
			if !ok {
				return false
			}
			fv, ok := info.Uses[sel.Sel].(*types.Var)
			if !ok || !fv.IsField() || fv.Pkg() == nil || !strings.HasSuffix(fv.Pkg().Path(), adtP) {
				return false
			}
			_, isSlice := fv.Type().Underlying().(*types.Slice)
			return isSlice
		}
		ast.Inspect(f.Body, func(x ast.Node) bool {
			switch s := x.(type) {
			case *ast.RangeStmt:
				if isChildSlice(s.X) {
					nRange++
				}
			case *ast.ForStmt:
				// which adt child slice does the body index?
				// the loop variable stepped by this statement
				var loopVar types.Object
				switch p := s.Post.(type) {
				case *ast.IncDecStmt:
					loopVar = identObj(info, p.X)
				case *ast.AssignStmt:
					if len(p.Lhs) == 1 {
						loopVar = identObj(info, p.Lhs[0])
					}
				}
				if loopVar == nil {
					return true
				}
				var indexed ast.Expr
				ast.Inspect(s.Body, func(y ast.Node) bool {
					if ix, ok := y.(*ast.IndexExpr); ok && isChildSlice(ix.X) && identObj(info, ix.Index) == loopVar {
						indexed = ix.X
					}
					return true
				})
				if indexed == nil {
					return true
				}
				k++
				unit := false
				switch p := s.Post.(type) {
				case *ast.IncDecStmt:
					unit = true
				case *ast.AssignStmt:
					if len(p.Rhs) == 1 {
						if v, ok := constInt(info, p.Rhs[0]); ok && v == 1 && (p.Tok == token.ADD_ASSIGN || p.Tok == token.SUB_ASSIGN) {
							unit = true
						}
					}
				}
				// adt.Interpolation.Parts alternates string, expression, string, ...:
				// visiting the odd indices only (as internal/core/dep does) loses nothing
				if !unit && strings.HasSuffix(exprString(indexed), ".Parts") {
					if as, ok := s.Init.(*ast.AssignStmt); ok && len(as.Rhs) == 1 {
						if v, ok := constInt(info, as.Rhs[0]); ok && v == 1 {
							if p, ok := s.Post.(*ast.AssignStmt); ok && len(p.Rhs) == 1 && p.Tok == token.ADD_ASSIGN {
								if st, ok := constInt(info, p.Rhs[0]); ok && st == 2 {
									unit = true
								}
							}
						}
					}
				}
				c.check("walker.visits-every-child-element", fmt.Sprintf("%s#loop%d", f.Name, k), s.Pos(), unit,
					"an index loop over the child slice "+exprString(indexed)+" must step by one (for Interpolation.Parts the odd, expression-carrying indices suffice): a stride skips children whose references then keep nothing alive")
			}
			return true
		})
	}
	c.check("walker.visits-every-child-element", "tools/trim#range-loops", 0, nRange >= 8,
		fmt.Sprintf("the walkers range over adt child slices in %d places (expected at least 8: the scan must see them)", nRange))
}

// c20ConstraintFieldsNeverWin: an optional (`x?: v`) or required (`x!: v`)
// field constrains a field without providing it, so its conjunct must never
// be the "winner" that makes a regular field redundant: equallySpecific
// cannot tell where a conjunct came from and relies on findStaticDependencies
// having excluded both kinds (ignoreConjunct) beforehand.
func c20ConstraintFieldsNeverWin(c *Ctx) {
	const rule = "walker.constraint-fields-never-winners"
	f := c.fn("tools/trim", "(*trimmerV3).findStaticDependencies")
	bodies := append([]*Fn{f}, c.lits(f)...)
	found := false
	for _, b := range bodies {
		info := b.Info()
		var stack []ast.Node
		ast.Inspect(b.Body, func(x ast.Node) bool {
			if x == nil {
				stack = stack[:len(stack)-1]
				return true
			}
			stack = append(stack, x)
			as, ok := x.(*ast.AssignStmt)
			if !ok || len(as.Lhs) != 1 || !strings.HasSuffix(exprString(as.Lhs[0]), ".ignoreConjunct") || exprString(as.Rhs[0]) != "true" {
				return true
			}
			// the constraint tokens under which the assignment is reached
			toks := map[string]bool{}
			for i := len(stack) - 1; i >= 0; i-- {
				switch g := stack[i].(type) {
				case *ast.CaseClause:
					// a case of a switch over field.Constraint
					for j := i - 1; j >= 0; j-- {
						if sw, ok := stack[j].(*ast.SwitchStmt); ok {
							if sw.Tag != nil && strings.HasSuffix(exprString(sw.Tag), ".Constraint") {
								for _, e := range g.List {
									toks[exprString(e)] = true
								}
							}
							break
						}
					}
				case *ast.IfStmt:
					ast.Inspect(g.Cond, func(y ast.Node) bool {
						if be, ok := y.(*ast.BinaryExpr); ok && be.Op == token.EQL {
							if strings.HasSuffix(exprString(be.X), ".Constraint") {
								toks[exprString(be.Y)] = true
							}
							if strings.HasSuffix(exprString(be.Y), ".Constraint") {
								toks[exprString(be.X)] = true
							}
						}
						return true
					})
				}
			}
			if len(toks) == 0 {
				return true
			}
			found = true
			_ = info
			c.check(rule, b.Name, as.Pos(), toks["token.NOT"] && toks["token.OPTION"],
				fmt.Sprintf("the conjunct of a constraint field must be excluded from the winners for both markers, `?` (token.OPTION) and `!` (token.NOT); found %v", c20Keys(toks)))
			return true
		})
	}
	if !found {
		c.check(rule, f.Name, f.Decl.Pos(), false, "anchor: findStaticDependencies no longer sets ignoreConjunct under a test of field.Constraint")
	}
}

// c20AllDefaultsDecidedAfterScan: a disjunction with defaults overrides the
// other winners only if *every* default branch is as specific as the vertex —
// a universal condition that can be decided only after all branches were
// examined. The statement that records the disjunction as an overriding
// winner must therefore not sit inside the loop over its branches.
func c20AllDefaultsDecidedAfterScan(c *Ctx) {
	const rule = "walker.all-defaults-decided-after-scan"
	f := c.fn("tools/trim", "(*trimmerV3).findRedundancies")
	var inside, total int
	var pos token.Pos
	var stack []ast.Node
	ast.Inspect(f.Body, func(x ast.Node) bool {
		if x == nil {
			stack = stack[:len(stack)-1]
			return true
		}
		stack = append(stack, x)
		as, ok := x.(*ast.AssignStmt)
		if !ok || len(as.Lhs) != 1 || exprString(as.Lhs[0]) != "disjDefaultWinners" || !strings.HasPrefix(exprString(as.Rhs[0]), "append(") {
			return true
		}
		total++
		pos = as.Pos()
		for _, n := range stack {
			if rs, ok := n.(*ast.RangeStmt); ok && strings.HasSuffix(exprString(rs.X), ".Values") {
				inside++
				break
			}
		}
		return true
	})
	if total == 0 {
		c.broken("anchor: findRedundancies no longer records disjunction-default winners (disjDefaultWinners)")
	}
	c.check(rule, f.Name, pos, inside == 0,
		"a disjunction becomes the overriding winner only if every default branch is as specific as the vertex; that is decided after the loop over its branches, never inside it (an early decision at the first matching default drops data equal to one of several defaults)")
}


func c20Keys(m map[string]bool) []string {
	var out []string
	for k := range m {
		out = append(out, k)
	}
	sort.Strings(out)
	return out
}
