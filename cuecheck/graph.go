package main

import (
	"fmt"
	"go/ast"
	"strings"
	"go/token"
	"go/types"

	"golang.org/x/tools/go/cfg"
)

// Graph is a statement-level control-flow graph of one function body, built
// from go/cfg: one graph node per cfg node (statement, condition expression),
// one synthetic node per empty block, a synthetic EXIT reached from every
// return and from the implicit return. Conditional edges carry the branch
// polarity and the condition expression.
type Graph struct {
	F     *Fn
	Nodes []*GNode
	Entry int
	Exit  int // normal exit (returns)
}

type GNode struct {
	ID    int
	N     ast.Node   // nil for synthetic nodes
	Block *cfg.Block // owning block
	Succs []GEdge
	Preds []int
	// Case is the enclosing type-switch / switch case clause when this node is
	// the first node of a case body (used by rules keyed on cases).
	Stmt ast.Stmt
	Kind cfg.BlockKind
}

type GEdge struct {
	To    int
	Cond  ast.Expr // non-nil on the two edges out of a condition
	Truth bool     // polarity of Cond on this edge
	// For the edges out of a case expression of a tagged switch:
	// SwitchTag is the tag, CaseVal the case expression; Truth tells
	// whether tag == CaseVal on this edge.
	SwitchTag ast.Expr
	CaseVal   ast.Expr
}

func (c *Ctx) graph(f *Fn) *Graph {
	if f.g != nil {
		return f.g
	}
	info := f.Info()
	mayReturn := func(call *ast.CallExpr) bool {
		switch calleeName(info, call) {
		case "panic", "os.Exit", "log.Fatal", "log.Fatalf", "log.Panic", "log.Panicf", "runtime.Goexit":
			return false
		}
		return true
	}
	cg := cfg.New(f.Body, mayReturn)
	g := &Graph{F: f}
	first := map[*cfg.Block]int{}
	last := map[*cfg.Block]int{}
	add := func(b *cfg.Block, n ast.Node) *GNode {
		gn := &GNode{ID: len(g.Nodes), N: n, Block: b, Stmt: b.Stmt, Kind: b.Kind}
		g.Nodes = append(g.Nodes, gn)
		return gn
	}
	for _, b := range cg.Blocks {
		if len(b.Nodes) == 0 {
			gn := add(b, nil)
			first[b], last[b] = gn.ID, gn.ID
			continue
		}
		for i, n := range b.Nodes {
			gn := add(b, n)
			if i == 0 {
				first[b] = gn.ID
			} else {
				g.link(gn.ID-1, GEdge{To: gn.ID})
			}
			last[b] = gn.ID
		}
	}
	exit := &GNode{ID: len(g.Nodes)}
	g.Nodes = append(g.Nodes, exit)
	g.Exit = exit.ID
	g.Entry = first[cg.Blocks[0]]
	for _, b := range cg.Blocks {
		l := last[b]
		switch len(b.Succs) {
		case 0:
			if n := g.Nodes[l].N; n != nil {
				if _, ok := n.(*ast.ReturnStmt); ok {
					g.link(l, GEdge{To: g.Exit})
				}
			}
		case 1:
			g.link(l, GEdge{To: first[b.Succs[0]]})
		case 2:
			var cond ast.Expr
			if len(b.Nodes) > 0 {
				cond, _ = b.Nodes[len(b.Nodes)-1].(ast.Expr)
			}
			// Only the condition of an if/for/tagless-switch is a boolean
			// whose polarity can be used; a tagged switch adds the case
			// expression only, and range/select/typeswitch add nothing.
			var tag, caseVal ast.Expr
			if cond != nil {
				if sw := g.taggedSwitchOf(b); sw != nil {
					tag, caseVal = sw.Tag, cond
					cond = nil
				} else if !g.isBoolCond(b, cond) {
					cond = nil
				}
			}
			if cond != nil {
				// conditions computed into single-definition locals
				// (`valid := json.Valid(b); if !valid`) are looked through
				cond = expandCond(f, cond, 0)
			}
			g.link(l, GEdge{To: first[b.Succs[0]], Cond: cond, Truth: true, SwitchTag: tag, CaseVal: caseVal})
			g.link(l, GEdge{To: first[b.Succs[1]], Cond: cond, Truth: false, SwitchTag: tag, CaseVal: caseVal})
		}
	}
	// drop edges out of dead nodes (the unreachable blocks go/cfg creates
	// after return/panic) so that backward searches see live predecessors only
	live := g.reach([]int{g.Entry}, nil, nil)
	for _, n := range g.Nodes {
		if !live[n.ID] {
			n.Succs = nil
		}
		var ps []int
		for _, p := range n.Preds {
			if live[p] {
				ps = append(ps, p)
			}
		}
		n.Preds = ps
	}
	f.g = g
	return g
}

// taggedSwitchOf returns the tagged switch statement whose case expression
// ends block b, if any.
func (g *Graph) taggedSwitchOf(b *cfg.Block) *ast.SwitchStmt {
	for _, s := range b.Succs {
		if s.Kind == cfg.KindSwitchCaseBody || s.Kind == cfg.KindSwitchNextCase {
			if cc, ok := s.Stmt.(*ast.CaseClause); ok {
				if sw := g.enclosingSwitch(cc); sw != nil && sw.Tag != nil {
					return sw
				}
			}
		}
	}
	return nil
}

func (g *Graph) isBoolCond(b *cfg.Block, cond ast.Expr) bool {
	tv, ok := g.F.Info().Types[cond]
	if !ok {
		return false
	}
	bt, ok := tv.Type.Underlying().(*types.Basic)
	if !ok || bt.Info()&types.IsBoolean == 0 {
		return false
	}
	// In `switch tag { case c: }` the node is c alone; it is boolean only if
	// tag is boolean, in which case polarity would be wrong. Detect by
	// checking whether the successor blocks belong to a tagged switch.
	for _, s := range b.Succs {
		if s.Kind == cfg.KindSwitchCaseBody || s.Kind == cfg.KindSwitchNextCase {
			if cc, ok := s.Stmt.(*ast.CaseClause); ok {
				if sw := g.enclosingSwitch(cc); sw != nil && sw.Tag != nil {
					return false
				}
			}
		}
	}
	return true
}

func (g *Graph) enclosingSwitch(cc *ast.CaseClause) *ast.SwitchStmt {
	var out *ast.SwitchStmt
	ast.Inspect(g.F.Body, func(n ast.Node) bool {
		if sw, ok := n.(*ast.SwitchStmt); ok {
			for _, c := range sw.Body.List {
				if c == cc {
					out = sw
				}
			}
		}
		return out == nil
	})
	return out
}

func (g *Graph) link(from int, e GEdge) {
	g.Nodes[from].Succs = append(g.Nodes[from].Succs, e)
	g.Nodes[e.To].Preds = append(g.Nodes[e.To].Preds, from)
}

func (g *Graph) pos(id int) token.Pos {
	if n := g.Nodes[id].N; n != nil {
		return n.Pos()
	}
	if id == g.Exit {
		return g.F.Body.Rbrace
	}
	if s := g.Nodes[id].Stmt; s != nil {
		return s.Pos()
	}
	return g.F.Body.Pos()
}

// ---------------------------------------------------------------------------
// Automaton exploration: the workhorse of the path rules (E1, E7).
//
// A rule is a small deterministic automaton run over all paths of the graph.
// States are small integers (< 64). onNode is applied when a node is executed,
// onEdge when an edge is traversed. The result is, per node, the set of states
// in which the node can be *entered* (before onNode is applied).

type Automaton struct {
	Init   int
	OnNode func(id int, st int) int
	OnEdge func(from int, e GEdge, st int) int // st is the state after OnNode(from); return -1 to cut the edge
}

func (g *Graph) run(a Automaton) []uint64 {
	in := make([]uint64, len(g.Nodes))
	type item struct{ id, st int }
	work := []item{{g.Entry, a.Init}}
	in[g.Entry] |= 1 << uint(a.Init)
	for len(work) > 0 {
		it := work[len(work)-1]
		work = work[:len(work)-1]
		st := it.st
		if a.OnNode != nil {
			st = a.OnNode(it.id, st)
		}
		if st < 0 {
			continue
		}
		for _, e := range g.Nodes[it.id].Succs {
			ns := st
			if a.OnEdge != nil {
				ns = a.OnEdge(it.id, e, st)
			}
			if ns < 0 {
				continue
			}
			if in[e.To]&(1<<uint(ns)) == 0 {
				in[e.To] |= 1 << uint(ns)
				work = append(work, item{e.To, ns})
			}
		}
	}
	return in
}

// reach returns the nodes reachable from the given start nodes without
// entering a blocked node or crossing a blocked edge. The start nodes
// themselves are included (even if blocked).
func (g *Graph) reach(from []int, blockNode func(int) bool, blockEdge func(int, GEdge) bool) map[int]bool {
	seen := map[int]bool{}
	work := append([]int{}, from...)
	for _, f := range from {
		seen[f] = true
	}
	for len(work) > 0 {
		id := work[len(work)-1]
		work = work[:len(work)-1]
		for _, e := range g.Nodes[id].Succs {
			if seen[e.To] {
				continue
			}
			if blockEdge != nil && blockEdge(id, e) {
				continue
			}
			seen[e.To] = true
			if blockNode != nil && blockNode(e.To) {
				continue // entered but not left
			}
			work = append(work, e.To)
		}
	}
	return seen
}

// live returns the nodes reachable from entry.
func (g *Graph) live() map[int]bool {
	return g.reach([]int{g.Entry}, nil, nil)
}

// find returns the live nodes whose own syntax (not nested function literals)
// satisfies pred.
func (g *Graph) find(pred func(n ast.Node) bool) []int {
	live := g.live()
	var out []int
	for _, n := range g.Nodes {
		if n.N == nil || !live[n.ID] {
			continue
		}
		if pred(n.N) {
			out = append(out, n.ID)
		}
	}
	return out
}

// inspectShallow walks n but does not descend into function literals: their
// bodies are not executed where they are written.
func inspectShallow(n ast.Node, f func(ast.Node) bool) {
	ast.Inspect(n, func(x ast.Node) bool {
		if x == nil {
			return false
		}
		if _, ok := x.(*ast.FuncLit); ok && x != n {
			return false
		}
		return f(x)
	})
}

// callsIn returns the call expressions evaluated by node n itself.
// For a DeferStmt/GoStmt the deferred call is returned only if withDefer.
func callsIn(n ast.Node, withDefer bool) []*ast.CallExpr {
	var out []*ast.CallExpr
	switch s := n.(type) {
	case *ast.DeferStmt:
		if !withDefer {
			// arguments of the deferred call, and the receiver expression of a
			// deferred method call, are evaluated now
			for _, a := range s.Call.Args {
				out = append(out, callsIn(a, false)...)
			}
			if sel, ok := ast.Unparen(s.Call.Fun).(*ast.SelectorExpr); ok {
				out = append(out, callsIn(sel.X, false)...)
			}
			return out
		}
	case *ast.GoStmt:
		if !withDefer {
			for _, a := range s.Call.Args {
				out = append(out, callsIn(a, false)...)
			}
			return out
		}
	}
	inspectShallow(n, func(x ast.Node) bool {
		if c, ok := x.(*ast.CallExpr); ok {
			out = append(out, c)
		}
		return true
	})
	return out
}

// nodesCalling returns live nodes that (non-deferred) call a function with one of the names.
func (g *Graph) nodesCalling(names ...string) []int {
	set := map[string]bool{}
	for _, n := range names {
		set[n] = true
	}
	return g.find(func(n ast.Node) bool {
		for _, c := range callsIn(n, false) {
			if set[calleeName(g.F.Info(), c)] {
				return true
			}
		}
		return false
	})
}

// callAt returns the first call with the given callee name in node id.
func (g *Graph) callAt(id int, name string) *ast.CallExpr {
	for _, c := range callsIn(g.Nodes[id].N, true) {
		if calleeName(g.F.Info(), c) == name {
			return c
		}
	}
	return nil
}

func (g *Graph) describe(id int) string {
	return fmt.Sprintf("%s", g.F.Name)
}

// returns lists the live return nodes.
func (g *Graph) returns() []int {
	return g.find(func(n ast.Node) bool { _, ok := n.(*ast.ReturnStmt); return ok })
}

// isErrNilReturn reports whether a return statement returns a literal nil in
// the (last) error position: a "success return". Returns in functions whose
// last result is not error are all success returns.
func (g *Graph) isSuccessReturn(id int) bool {
	r, ok := g.Nodes[id].N.(*ast.ReturnStmt)
	if !ok {
		return false
	}
	res := g.F.Type.Results
	if res == nil || len(res.List) == 0 {
		return true
	}
	lastT := g.F.Info().TypeOf(res.List[len(res.List)-1].Type)
	if lastT == nil || !isErrorType(lastT) {
		return true
	}
	if len(r.Results) == 0 {
		return true // bare return with named results: may be success (conservative)
	}
	lastE := ast.Unparen(r.Results[len(r.Results)-1])
	if len(r.Results) == 1 {
		if _, isCall := lastE.(*ast.CallExpr); isCall && len(res.List) > 1 {
			return true // return f() forwarding: may be success
		}
	}
	if id, ok := lastE.(*ast.Ident); ok && id.Name == "nil" {
		return true
	}
	// a package-level error variable is a sentinel (ErrNotFound, io.EOF): never nil
	{
		var o types.Object
		switch x := lastE.(type) {
		case *ast.Ident:
			o = g.F.Info().Uses[x]
		case *ast.SelectorExpr:
			o = g.F.Info().Uses[x.Sel]
		}
		if v, ok := o.(*types.Var); ok && !v.IsField() && v.Pkg() != nil && v.Parent() == v.Pkg().Scope() {
			return false
		}
	}
	// An error-typed variable or call: may be nil, so conservatively this may
	// be a success return — except when the operand is a freshly constructed
	// error (fmt.Errorf, errors.New, &T{...}) which is never nil.
	switch x := lastE.(type) {
	case *ast.CallExpr:
		nm := calleeName(g.F.Info(), x)
		switch nm {
		case "fmt.Errorf", "errors.New":
			return false
		}
		// error constructors by convention: errorf, Errorf, Newf, Wrapf, NewErrf
		short := strings.ToLower(shortCallee(nm))
		if strings.HasSuffix(short, "errorf") || strings.HasSuffix(short, "errf") || short == "newf" || short == "wrapf" || short == "promote" {
			return false
		}
	case *ast.UnaryExpr:
		if x.Op == token.AND {
			return false
		}
	}
	return true
}

var errorIface = types.Universe.Lookup("error").Type().Underlying().(*types.Interface)

// isErrorType: the builtin error, or a named interface extending it
// (cue/errors.Error).
func isErrorType(t types.Type) bool {
	n, ok := t.(*types.Named)
	if !ok {
		return false
	}
	if n.Obj().Pkg() == nil && n.Obj().Name() == "error" {
		return true
	}
	if _, isIface := n.Underlying().(*types.Interface); isIface {
		return types.Implements(n, errorIface)
	}
	return false
}

// dump prints the graph (debugging aid, -v -dumpgraph).
func (g *Graph) dump(c *Ctx) {
	for _, n := range g.Nodes {
		s := "<synthetic>"
		if n.N != nil {
			s = fmt.Sprintf("%T", n.N)
		}
		fmt.Printf("%3d %-18s %s ->", n.ID, s, c.pos(g.pos(n.ID)))
		for _, e := range n.Succs {
			t := ""
			if e.Cond != nil {
				t = fmt.Sprintf("[%v]", e.Truth)
			}
			fmt.Printf(" %d%s", e.To, t)
		}
		fmt.Println()
	}
}

// singleDef returns the defining expression of a local variable that is
// defined exactly once (single-value := or var) and never reassigned,
// incremented or address-taken in the enclosing declaration.
func singleDef(f *Fn, o types.Object) ast.Expr {
	v, ok := o.(*types.Var)
	if !ok || v.IsField() || v.Pkg() == nil || v.Parent() == v.Pkg().Scope() || isParamOf(f, v) {
		return nil
	}
	info := f.Info()
	var def ast.Expr
	n := 0
	bad := false
	root := ast.Node(f.Body)
	if f.Decl != nil && f.Decl.Body != nil {
		root = f.Decl.Body
	}
	ast.Inspect(root, func(x ast.Node) bool {
		switch s := x.(type) {
		case *ast.AssignStmt:
			for i, l := range s.Lhs {
				if identObj(info, l) != o {
					continue
				}
				n++
				if len(s.Lhs) == len(s.Rhs) {
					def = s.Rhs[i]
				} else {
					bad = true // one of several results of a call
				}
			}
		case *ast.ValueSpec:
			for i, id := range s.Names {
				if info.Defs[id] == o {
					n++
					if i < len(s.Values) && len(s.Values) == len(s.Names) {
						def = s.Values[i]
					} else {
						bad = true
					}
				}
			}
		case *ast.IncDecStmt:
			if identObj(info, s.X) == o {
				bad = true
			}
		case *ast.UnaryExpr:
			if s.Op == token.AND && identObj(info, s.X) == o {
				bad = true
			}
		case *ast.RangeStmt:
			if identObj(info, s.Key) == o || (s.Value != nil && identObj(info, s.Value) == o) {
				bad = true
			}
		}
		return true
	})
	if bad || n != 1 || def == nil {
		return nil
	}
	if _, isLit := ast.Unparen(def).(*ast.FuncLit); isLit {
		return nil
	}
	return def
}

// expandCond rewrites a condition so that boolean locals and comparison
// operands with a single definition are replaced by their defining
// expressions. Nil comparisons are left alone: facts about error variables are
// tracked per variable.
func expandCond(f *Fn, e ast.Expr, depth int) ast.Expr {
	if depth > 3 {
		return e
	}
	info := f.Info()
	switch x := e.(type) {
	case *ast.ParenExpr:
		return expandCond(f, x.X, depth)
	case *ast.UnaryExpr:
		if x.Op == token.NOT {
			in := expandCond(f, x.X, depth)
			if in != x.X {
				return &ast.UnaryExpr{OpPos: x.OpPos, Op: x.Op, X: in}
			}
		}
		return e
	case *ast.BinaryExpr:
		switch x.Op {
		case token.LAND, token.LOR:
			a, b := expandCond(f, x.X, depth), expandCond(f, x.Y, depth)
			if a != x.X || b != x.Y {
				return &ast.BinaryExpr{X: a, OpPos: x.OpPos, Op: x.Op, Y: b}
			}
			return e
		case token.EQL, token.NEQ, token.LSS, token.LEQ, token.GTR, token.GEQ:
			if isNilIdent(x.X) || isNilIdent(x.Y) {
				return e
			}
			op := func(o ast.Expr) ast.Expr {
				if id, ok := ast.Unparen(o).(*ast.Ident); ok {
					if d := singleDef(f, info.Uses[id]); d != nil {
						if t := info.TypeOf(d); t != nil && !isErrorType(t) {
							return d
						}
					}
				}
				return o
			}
			a, b := op(x.X), op(x.Y)
			if a != x.X || b != x.Y {
				return &ast.BinaryExpr{X: a, OpPos: x.OpPos, Op: x.Op, Y: b}
			}
		}
		return e
	case *ast.Ident:
		if t := info.TypeOf(x); t != nil {
			if b, ok := t.Underlying().(*types.Basic); ok && b.Info()&types.IsBoolean != 0 {
				if d := singleDef(f, info.Uses[x]); d != nil {
					return expandCond(f, d, depth+1)
				}
			}
		}
	}
	return e
}
