package main

import (
	"fmt"
	"go/ast"
	"go/constant"
	"go/types"
	"strings"
)

func init() {
	register(&propCheck{
		id:   "C04",
		pkgs: []string{"internal/core/adt"},
		run:  checkC04,
		about: "C04 (disjunctions and defaults follow the value/default-pair rules), narrow: decides the finite, enum-level skeleton of the default bookkeeping, not the cross product. (a) The default-mode lattice: the enum order is maybeDefault < isDefault < notDefault and combineDefault is the maximum in that order (U1/U2: a product is default only if no factor is a non-default of a marked disjunction), combineDefault2 only ever weakens a factor to maybeDefault; mode() maps (no marks)->maybeDefault, (marked)->isDefault, (unmarked among marks)->notDefault. " +
			"(b) Default selection never silently picks among several: in Disjunction.Default and Vertex.Default a single element d.Values[0] is returned only in the `case 1` branch of `switch d.NumDefaults`; 0 defaults returns the value itself and >1 returns a disjunction of the defaults. (c) finalizeDisjunctions counts as defaults exactly the disjuncts whose mode is isDefault and places them first (NumDefaults = number placed). " +
			"It does not decide the cross product, duplicate elimination, or which disjuncts survive (run-time values).",
		trust: []string{"cross product and disjunct elimination are value-level and not decided"},
	})
}

func checkC04(c *Ctx) {
	p := c.pkg(adtP)
	// (a) enum order
	val := func(name string) int64 {
		k, ok := p.Types.Scope().Lookup(name).(*types.Const)
		if !ok {
			c.broken("anchor: adt.%s not found", name)
		}
		v, _ := constant.Int64Val(k.Val())
		return v
	}
	mb, is, not := val("maybeDefault"), val("isDefault"), val("notDefault")
	c.check("modes.enum-order", "adt.defaultMode", 0, mb < is && is < not,
		fmt.Sprintf("the default-mode lattice relies on maybeDefault(%d) < isDefault(%d) < notDefault(%d)", mb, is, not))
	// combineDefault is max
	cd := c.fn(adtP, "combineDefault")
	g := c.graph(cd)
	info := cd.Info()
	pa := info.Defs[cd.Type.Params.List[0].Names[0]]
	pb := info.Defs[cd.Type.Params.List[0].Names[1]]
	okMax := true
	nret := 0
	for _, n := range g.Nodes {
		for _, e := range n.Succs {
			if e.Cond == nil {
				continue
			}
			be, ok := ast.Unparen(e.Cond).(*ast.BinaryExpr)
			if !ok {
				okMax = false
				continue
			}
			x, y := identObj(info, be.X), identObj(info, be.Y)
			// which operand is (weakly) larger on this edge?
			var larger types.Object
			switch be.Op.String() {
			case ">", ">=":
				if e.Truth {
					larger = x
				} else {
					larger = y
				}
			case "<", "<=":
				if e.Truth {
					larger = y
				} else {
					larger = x
				}
			default:
				okMax = false
				continue
			}
			if !((x == pa && y == pb) || (x == pb && y == pa)) {
				okMax = false
			}
			// the first return reached from this edge returns the larger operand
			r := g.reach([]int{e.To}, nil, nil)
			r[e.To] = true
			for _, ret := range g.returns() {
				if !r[ret] {
					continue
				}
				// only returns directly controlled by this edge (no other condition in between)
				rs := g.Nodes[ret].N.(*ast.ReturnStmt)
				if ret == e.To || len(g.Nodes[e.To].Succs) <= 1 {
					nret++
					if len(rs.Results) != 1 || identObj(info, rs.Results[0]) != larger {
						okMax = false
					}
					break
				}
			}
		}
	}
	c.check("modes.combine-is-max", cd.Name, cd.Decl.Pos(), okMax && nret == 2,
		"combineDefault must return the larger of its two modes (default & default = default, anything & not-default = not-default, maybe is neutral)")
	// combineDefault2 only weakens to maybeDefault and delegates
	c2 := c.fn(adtP, "combineDefault2")
	okW := true
	delegates := false
	ast.Inspect(c2.Body, func(n ast.Node) bool {
		switch x := n.(type) {
		case *ast.AssignStmt:
			for i, l := range x.Lhs {
				if id, ok := l.(*ast.Ident); ok && (id.Name == "a" || id.Name == "b") && i < len(x.Rhs) {
					if k, ok := identObj(c2.Info(), x.Rhs[i]).(*types.Const); !ok || k.Name() != "maybeDefault" {
						okW = false
					}
				}
			}
		case *ast.CallExpr:
			if calleeName(c2.Info(), x) == adtP+".combineDefault" {
				delegates = true
			}
		}
		return true
	})
	c.check("modes.drop-weakens-to-maybe", c2.Name, c2.Decl.Pos(), okW && delegates,
		"combineDefault2 may only weaken a factor to maybeDefault before delegating to combineDefault")
	// mode() table
	mf := c.fn(adtP, "mode")
	mi := mf.Info()
	table := map[string]string{}
	ast.Inspect(mf.Body, func(n ast.Node) bool {
		cc, ok := n.(*ast.CaseClause)
		if !ok {
			return true
		}
		cond := "default"
		if len(cc.List) == 1 {
			cond = exprString(cc.List[0])
		}
		for _, st := range cc.Body {
			if as, ok := st.(*ast.AssignStmt); ok && len(as.Rhs) == 1 {
				if k, ok := identObj(mi, as.Rhs[0]).(*types.Const); ok {
					table[cond] = k.Name()
				}
			}
		}
		return true
	})
	okT := table["!hasDefault"] == "maybeDefault" && table["marked"] == "isDefault" && table["default"] == "notDefault"
	c.check("modes.mark-table", mf.Name, mf.Decl.Pos(), okT,
		fmt.Sprintf("mode(hasDefault, marked) must be: no marks -> maybeDefault, marked -> isDefault, unmarked among marks -> notDefault; found %v", table))

	// (b) Default selection
	for _, fn := range []string{"(*Disjunction).Default", "(*Vertex).Default"} {
		f := c.fn(adtP, fn)
		g := c.graph(f)
		fi := f.Info()
		// nodes that pick a single element d.Values[0]
		picks := setOf(g.find(func(n ast.Node) bool {
			found := false
			inspectShallow(n, func(x ast.Node) bool {
				if ix, ok := x.(*ast.IndexExpr); ok {
					if sel, ok := ast.Unparen(ix.X).(*ast.SelectorExpr); ok && sel.Sel.Name == "Values" {
						if tv := fi.Types[ix.Index]; tv.Value != nil && tv.Value.ExactString() == "0" {
							found = true
						}
					}
				}
				return true
			})
			return found
		}))
		ok := len(picks) > 0
		// reachable only through the `case 1` edge of switch d.NumDefaults
		r := g.reach([]int{g.Entry}, nil, func(from int, e GEdge) bool {
			if e.SwitchTag == nil || !e.Truth {
				return false
			}
			if sel, isSel := ast.Unparen(e.SwitchTag).(*ast.SelectorExpr); !isSel || sel.Sel.Name != "NumDefaults" {
				return false
			}
			tv := fi.Types[e.CaseVal]
			return tv.Value != nil && tv.Value.ExactString() == "1"
		})
		for pk := range picks {
			if r[pk] {
				ok = false
			}
		}
		c.check("default.single-only-when-unique", f.Name, f.Decl.Pos(), ok,
			"a single disjunct may be returned as the default only in the `case 1` branch of `switch d.NumDefaults` (a unique surviving marked disjunct); with several defaults the result must stay a disjunction — never a silently chosen value")
		// case 0 returns the receiver unchanged
		zeroOK := false
		for _, n := range g.Nodes {
			for _, e := range n.Succs {
				if e.SwitchTag == nil || !e.Truth {
					continue
				}
				if tv := fi.Types[e.CaseVal]; tv.Value != nil && tv.Value.ExactString() == "0" {
					if rs, ok := g.Nodes[e.To].N.(*ast.ReturnStmt); ok && len(rs.Results) == 1 {
						if id, ok := rs.Results[0].(*ast.Ident); ok && (id.Name == "d" || id.Name == "v") {
							zeroOK = true
						}
					}
				}
			}
		}
		c.check("default.none-returns-self", f.Name, f.Decl.Pos(), zeroOK, "with no defaults the value itself is returned")
	}

	// (c) finalizeDisjunctions: NumDefaults counts exactly the isDefault disjuncts placed first
	fd := c.fn(adtP, "(*nodeContext).finalizeDisjunctions")
	gf := c.graph(fd)
	fdi := fd.Info()
	inc := setOf(gf.find(func(n ast.Node) bool {
		s, ok := n.(*ast.IncDecStmt)
		return ok && exprString(s.X) == "p" && s.Tok.String() == "++"
	}))
	okInc := len(inc) == 1
	if okInc {
		r := gf.reach([]int{gf.Entry}, nil, func(from int, e GEdge) bool {
			if e.SwitchTag == nil || !e.Truth {
				return false
			}
			if sel, ok := ast.Unparen(e.SwitchTag).(*ast.SelectorExpr); !ok || sel.Sel.Name != "defaultMode" {
				return false
			}
			k, ok := identObj(fdi, e.CaseVal).(*types.Const)
			return ok && k.Name() == "isDefault"
		})
		for id := range inc {
			if r[id] {
				okInc = false
			}
		}
	}
	numFromP := false
	ast.Inspect(fd.Body, func(n ast.Node) bool {
		if kv, ok := n.(*ast.KeyValueExpr); ok {
			if k, ok := kv.Key.(*ast.Ident); ok && k.Name == "NumDefaults" && exprString(kv.Value) == "p" {
				numFromP = true
			}
		}
		return true
	})
	c.check("default.count-is-marked-survivors", fd.Name, fd.Decl.Pos(), okInc && numFromP,
		"NumDefaults must be the number of disjuncts counted in the `case isDefault` branch (only surviving marked disjuncts are defaults)")
	_ = strings.TrimSpace

	// (d) duplicate elimination keeps the default mark: when a disjunct that
	// equals an already collected one is dropped, the kept one becomes a
	// default if the dropped one was
	ad := c.fn(adtP, "appendDisjunct")
	cf := newCaseFn(c, ad)
	free := cf.g.callNodes(adtP + ".(*nodeContext).freeDisjunct")
	var key string
	for k := range cf.atoms() {
		if strings.Contains(k, ".defaultMode") && strings.Contains(k, "isDefault") && strings.Contains(k, " == ") {
			key = k
		}
	}
	assign := -1
	for _, n := range cf.g.Nodes {
		if as, ok := n.N.(*ast.AssignStmt); ok && len(as.Lhs) == 1 && strings.HasSuffix(exprString(as.Lhs[0]), ".defaultMode") && exprString(as.Rhs[0]) == "isDefault" {
			assign = n.ID
		}
	}
	okD := key != "" && assign >= 0 && len(free) > 0
	detD := fmt.Sprintf("test=%q assignment found=%v free sites=%d", key, assign >= 0, len(free))
	if okD {
		cond := cf.condNode(key)
		// the dropped disjunct's mode is consulted on every path to its release
		consulted := true
		for id := range free {
			if !cf.g.mustPassNode(id, map[int]bool{cond: true}) {
				consulted = false
			}
		}
		_, visT := cf.walkBlocked(cond, map[string]bool{key: true}, setOf(keys(free)))
		_, visF := cf.walkBlocked(cond, map[string]bool{key: false}, setOf(keys(free)))
		okD = consulted && visT[assign] && !visF[assign]
		detD = fmt.Sprintf("mode consulted before every release=%v, kept disjunct marked when the dropped one was default=%v, not marked otherwise=%v", consulted, visT[assign], !visF[assign])
	}
	c.check("dedup.default-survives-duplicate-elimination", ad.Name, ad.Decl.Pos(), okD,
		"when appendDisjunct drops a disjunct as a duplicate, the retained disjunct must become a default if the dropped one was (`*1 | 1` has the default 1): "+detD)
}
