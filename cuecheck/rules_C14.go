package main

import (
	"fmt"
	"go/ast"
	"go/token"
	"go/types"
	"strings"
)

func init() {
	register(&propCheck{
		id:   "C14",
		pkgs: []string{"internal/mod/mvs", "internal/mod/modrequirements", "internal/par", "internal/mod/semver", "mod/module"},
		run:  checkC14,
		about: "C14 (MVS minimal, sufficient, order/schedule independent): decides the schedule-independence mechanisms. (a) In the closures run concurrently by mvs.buildList and modrequirements.readModGraph every captured variable that is written is accessed only under a common mutex (lockset + capture analysis). " +
			"(b) In the buildList closure every path to its exit passes through the loop that work.Add()s each element of the very slice handed to g.Require (upgrade included). " +
			"(c) par.Work fields are accessed only under w.mu; par.Cache results are written under the entry lock before done is set and read only after done was observed; par.Queue's state channel is received/sent pairwise on every path. " +
			"(d) Graph.Require only raises the selected version (guard cmp(selected, dep) < 0) and Graph.BuildList sorts what it collected from the map before returning. " +
			"(e) Version ordering, by finite case analysis: for each comparator (modrequirements.cmpVersion, module.Versions.Max, semver.Compare, compareInt, comparePrerelease) the set of results reachable on each input class defined by the comparator's own tests equals the row the property prescribes (main module's empty version highest and symmetric, \"none\" lowest, invalid below valid, major/minor/patch then pre-release, build ignored, release above pre-release, numeric below alphanumeric, numeric by length then digits, shorter identifier list lower); parsePrerelease/parseBuild apply the same validity tests to the last identifier as to those ended by a dot. " +
			"It does not decide minimality/sufficiency of the selected versions nor the character loops parseInt/nextIdent/isNum (value-level).",
		trust: []string{"sync.Mutex, sync.Cond, sync.Map, atomic.Bool semantics"},
	})
}

func checkC14(c *Ctx) {
	checkC14Order(c)
	checkC14Identifiers(c)
	c.checkLockPairing("locks.paired", "internal/par", "internal/mod/mvs", "internal/mod/modrequirements")
	// ownership of the shared graph and work-set state
	c.checkFieldWriters("ownership.field-writers", "internal/mod/mvs", "Graph", map[string][]string{
		"selected": {"NewGraph", "(*Graph).Require"}, "required": {"NewGraph", "(*Graph).Require"}, "isRoot": {"NewGraph", "(*Graph).Require"},
		"roots": {"NewGraph"}, "cmp": {"NewGraph"}, "v": {"NewGraph"},
	})
	c.checkFieldWriters("ownership.field-writers", "internal/par", "Work", map[string][]string{
		"added": {"(*Work).Add", "(*Work).init"}, "todo": {"(*Work).Add", "(*Work).runner"}, "waiting": {"(*Work).runner"},
		"running": {"(*Work).Do"}, "f": {"(*Work).Do"},
	})
	c.checkFieldWriters("ownership.field-writers", "internal/par", "cacheEntry", map[string][]string{"result": {"(*Cache).Do"}})
	c.checkErrorDiscipline("errors.no-new-dropped-error/par", "internal/par", map[string]string{
	})
	c.checkErrorDiscipline("errors.no-new-dropped-error/mvs", "internal/mod/mvs", map[string]string{
		"Req|internal/mod/mvs.walk": "the second walk closure never returns a non-nil error (it only marks `have`)",
	})
	// (a) capture discipline
	bl := c.fn("internal/mod/mvs", "buildList")
	n := c.checkCaptureDiscipline("capture.buildList", bl, nil)
	c.check("capture.buildList.count", bl.Name, bl.Body.Pos(), n >= 3,
		fmt.Sprintf("expected the requirement graph, the error map and the upgrade map to be shared by the parallel walk (found %d shared written variables)", n))
	rm := c.fn("internal/mod/modrequirements", "(*Requirements).readModGraph")
	n2 := c.checkCaptureDiscipline("capture.readModGraph", rm, nil)
	c.check("capture.readModGraph.count", rm.Name, rm.Body.Pos(), n2 >= 2,
		fmt.Sprintf("expected mg (graph) and hasError to be shared by the load queue closures (found %d)", n2))

	c14EveryRequirementEnqueued(c, bl)
	c14EveryRootLoaded(c, rm)
	c14Par(c)
	c14Graph(c)
	c.expect("capture.buildList", 3)
	c.expect("capture.readModGraph", 2)
	c.expect("par.work-guarded", 2)
}

// c14EveryRequirementEnqueued: rule (b).
func c14EveryRequirementEnqueued(c *Ctx, bl *Fn) {
	cl := c.litArgOf(bl, "internal/par.(*Work).Do")
	if !c.check("walk.closure", bl.Name, bl.Body.Pos(), cl != nil, "buildList must explore the graph through par.Work.Do") {
		return
	}
	g := c.graph(cl)
	info := cl.Info()
	req := g.callNodes("internal/mod/mvs.(*Graph).Require")
	if !c.check("walk.records-requirements", cl.Name, cl.Body.Pos(), len(req) == 1, "the walk must record each module's requirements with g.Require exactly once per visit") {
		return
	}
	reqID := keys(req)[0]
	reqVar := identObj(info, req[reqID].Args[1])
	// the loop `for _, r := range required { work.Add(r) }`
	head, _, rs := g.rangeLoop(func(rs *ast.RangeStmt) bool {
		if reqVar == nil || identObj(info, rs.X) != reqVar {
			return false
		}
		val := identObj(info, rs.Value)
		adds := false
		ast.Inspect(rs.Body, func(n ast.Node) bool {
			if call, ok := n.(*ast.CallExpr); ok && calleeName(info, call) == "internal/par.(*Work).Add" &&
				len(call.Args) == 1 && val != nil && identObj(info, call.Args[0]) == val {
				adds = true
			}
			return true
		})
		return adds
	})
	ok := head >= 0 && g.mustPassNode(g.Exit, map[int]bool{head: true})
	// the Add must not be conditional inside the loop body
	if ok {
		for _, s := range rs.Body.List {
			if _, isExpr := s.(*ast.ExprStmt); !isExpr {
				if _, isIf := s.(*ast.IfStmt); isIf {
					// a filter on the requirement would skip modules
					ok = false
				}
			}
		}
	}
	c.check("walk.every-requirement-enqueued", cl.Name, cl.Body.Pos(), ok,
		"every path to the closure's exit must pass through `for _, r := range required { work.Add(r) }` over the same slice passed to g.Require, unconditionally")
	// no reassignment of the slice between Require and the loop (the
	// prepended upgrade must be part of both)
	reassigned := false
	after := g.reachableFrom(reqID)
	for id := range after {
		for _, o := range assignedObjs(info, g.Nodes[id].N) {
			if o == reqVar && g.Nodes[id].N != rs.Value && g.Nodes[id].N != rs.Key {
				if _, isIdent := g.Nodes[id].N.(*ast.Ident); !isIdent {
					reassigned = true
				}
			}
		}
	}
	c.check("walk.same-slice", cl.Name, cl.Body.Pos(), !reassigned, "the slice handed to g.Require must not be changed before its elements are enqueued")
	// targets are enqueued before Do
	gb := c.graph(bl)
	do := gb.callNodes("internal/par.(*Work).Do")
	add := gb.callNodes("internal/par.(*Work).Add")
	okT := len(do) == 1 && len(add) > 0
	if okT {
		okT = false
		for id := range add {
			if gb.reachableFrom(id)[keys(do)[0]] {
				okT = true
			}
		}
	}
	c.check("walk.targets-enqueued", bl.Name, bl.Body.Pos(), okT, "every target must be added to the work set before Do starts")
	// errors collected during the walk are consulted before the list is built
	blist := gb.callNodes("internal/mod/mvs.(*Graph).BuildList")
	lenErrs := func(e ast.Expr) (bool, bool) {
		be, ok := e.(*ast.BinaryExpr)
		if !ok {
			return false, false
		}
		call, ok := ast.Unparen(be.X).(*ast.CallExpr)
		if !ok || calleeName(bl.Info(), call) != "len" || exprString(call.Args[0]) != "errs" {
			return false, false
		}
		switch be.Op {
		case token.GTR, token.NEQ:
			return true, true
		case token.EQL:
			return true, false
		}
		return false, false
	}
	r := gb.gate(lenErrs, setOf(keys(blist)), nil, gb.Entry)
	c.check("walk.errors-stop-result", bl.Name, bl.Body.Pos(), len(blist) > 0 && r.found && !r.leak && !r.bypass,
		"a requirement error recorded during the walk must prevent a build list from being returned")
}

func c14Par(c *Ctx) {
	n := c.checkGuardedFields("par.work-guarded", "internal/par", "Work", []string{"added", "todo", "waiting"}, "mu",
		map[string]bool{})
	_ = n
	// Cache: result written under e.mu, before done.Store(true); read only when done is known.
	for _, name := range []string{"(*Cache).Do", "(*Cache).Get"} {
		f := c.fn("internal/par", name)
		g := c.graph(f)
		info := f.Info()
		li := c.locksets(f)
		isResult := func(e ast.Expr) bool {
			sel, ok := ast.Unparen(e).(*ast.SelectorExpr)
			return ok && sel.Sel.Name == "result"
		}
		doneLoad := func(e ast.Expr) (bool, bool) {
			call, ok := e.(*ast.CallExpr)
			if !ok || !strings.HasSuffix(calleeName(info, call), "atomic.(*Bool).Load") {
				return false, false
			}
			return true, false
		}
		store := g.find(func(n ast.Node) bool {
			for _, call := range callsIn(n, false) {
				if strings.HasSuffix(calleeName(info, call), "atomic.(*Bool).Store") {
					return true
				}
			}
			return false
		})
		var writes, reads []int
		for _, nd := range g.Nodes {
			if nd.N == nil {
				continue
			}
			if as, ok := nd.N.(*ast.AssignStmt); ok {
				w := false
				for _, l := range as.Lhs {
					if isResult(l) {
						w = true
					}
				}
				if w {
					writes = append(writes, nd.ID)
					continue
				}
			}
			r := false
			inspectShallow(nd.N, func(x ast.Node) bool {
				if e, ok := x.(ast.Expr); ok && isResult(e) {
					r = true
				}
				return true
			})
			if r {
				reads = append(reads, nd.ID)
			}
		}
		for _, w := range writes {
			okW := len(li.allHeld(w)) > 0
			// done.Store(true) only after the write
			for _, s := range store {
				if !g.mustPassNode(s, map[int]bool{w: true}) {
					okW = false
				}
			}
			c.check("par.cache-publish-order", f.Name, g.pos(w), okW && len(store) > 0,
				"cacheEntry.result must be written with e.mu held and before done.Store(true) publishes it")
		}
		for _, r := range reads {
			// every path to the read crosses `done.Load()` == true or the Store node
			rr := g.reach([]int{g.Entry}, func(id int) bool {
				for _, s := range store {
					if s == id {
						return true
					}
				}
				return false
			}, func(from int, e GEdge) bool {
				if e.Cond == nil {
					return false
				}
				p := atomOnEdge(e.Cond, e.Truth, doneLoad)
				return p.present && p.good && !p.bad
			})
			c.check("par.cache-read-after-done", f.Name, g.pos(r), !rr[r],
				"cacheEntry.result may be read only after done was observed true (or after this goroutine stored it)")
		}
		if name == "(*Cache).Do" {
			c.check("par.cache-shape", f.Name, f.Body.Pos(), len(writes) == 1 && len(reads) >= 1, "Cache.Do writes the result once and returns it")
			// double-checked: f() is called only with the lock held and done observed false under the lock
			calls := g.find(func(n ast.Node) bool {
				for _, call := range callsIn(n, false) {
					if v, ok := identObj(info, call.Fun).(*types.Var); ok && v.Name() == "f" {
						return true
					}
				}
				return false
			})
			okOnce := len(calls) == 1
			for _, id := range calls {
				if len(li.allHeld(id)) == 0 {
					okOnce = false
				}
				// under the lock, done must have been re-tested false
				rr := g.reach([]int{g.Entry}, nil, func(from int, e GEdge) bool {
					if e.Cond == nil || len(li.allHeld(from)) == 0 {
						return false
					}
					p := atomOnEdge(e.Cond, e.Truth, doneLoad)
					return p.present && p.bad && !p.good
				})
				if rr[id] {
					okOnce = false
				}
			}
			c.check("par.cache-single-flight", f.Name, f.Body.Pos(), okOnce,
				"the cached function must be called only with the entry lock held and after re-testing !done under that lock (at most one call per key)")
		}
	}
	// ErrCache.Do goes through Cache.Do
	ed := c.fn("internal/par", "(*ErrCache).Do")
	found := false
	ast.Inspect(ed.Body, func(n ast.Node) bool {
		if call, ok := n.(*ast.CallExpr); ok && calleeName(ed.Info(), call) == "internal/par.(*Cache).Do" {
			found = true
		}
		return true
	})
	c.check("par.errcache-delegates", ed.Name, ed.Body.Pos(), found, "ErrCache.Do must delegate to Cache.Do (single flight)")

	// Queue token pairing
	for _, name := range []string{"(*Queue).Add", "(*Queue).Idle"} {
		f := c.fn("internal/par", name)
		c.checkTokenPairing("par.queue-token", f, "q.st")
		for _, l := range c.lits(f) {
			c.analysed[l.Name] = true
			c.checkTokenPairing("par.queue-token", l, "q.st")
		}
	}
	// Work.runner: the item function is called without the lock
	rn := c.fn("internal/par", "(*Work).runner")
	li := c.locksets(rn)
	g := c.graph(rn)
	okUnlocked := false
	for _, id := range g.find(func(n ast.Node) bool {
		for _, call := range callsIn(n, false) {
			if sel, ok := ast.Unparen(call.Fun).(*ast.SelectorExpr); ok && sel.Sel.Name == "f" {
				return true
			}
		}
		return false
	}) {
		okUnlocked = len(li.allHeld(id)) == 0
	}
	c.check("par.work-runs-unlocked", rn.Name, rn.Body.Pos(), okUnlocked, "runner must release w.mu before calling the item function (Add re-enters the lock)")
}

func c14Graph(c *Ctx) {
	// Require: selected only raised
	f := c.fn("internal/mod/mvs", "(*Graph).Require")
	g := c.graph(f)
	info := f.Info()
	accept := setOf(g.find(func(n ast.Node) bool {
		as, ok := n.(*ast.AssignStmt)
		if !ok {
			return false
		}
		for _, l := range as.Lhs {
			if ix, ok := ast.Unparen(l).(*ast.IndexExpr); ok {
				if sel, ok := ast.Unparen(ix.X).(*ast.SelectorExpr); ok && sel.Sel.Name == "selected" {
					return true
				}
			}
		}
		return false
	}))
	argsOK := false
	cmpLess := func(e ast.Expr) (bool, bool) {
		be, ok := e.(*ast.BinaryExpr)
		if !ok {
			return false, false
		}
		call, ok := ast.Unparen(be.X).(*ast.CallExpr)
		if !ok {
			return false, false
		}
		sel, ok := ast.Unparen(call.Fun).(*ast.SelectorExpr)
		if !ok || sel.Sel.Name != "cmp" || len(call.Args) != 2 {
			return false, false
		}
		if tv := info.Types[be.Y]; tv.Value == nil || tv.Value.ExactString() != "0" {
			return false, false
		}
		a0, a1 := exprString(call.Args[0]), exprString(call.Args[1])
		argsOK = (strings.Contains(a0, "Selected(") || strings.Contains(a0, "selected[")) && strings.Contains(a1, "Version(")
		switch be.Op {
		case token.LSS:
			return true, false
		case token.GEQ:
			return true, true
		case token.GTR, token.LEQ:
			// `> 0` would lower the selection; `<= 0` re-assigns equal
			// versions (harmless) but is not the reviewed form
			return true, be.Op == token.GTR
		}
		return false, false
	}
	head := -1
	for _, n := range g.Nodes {
		if n.Kind.String() == "RangeLoop" {
			head = n.ID
		}
	}
	r := g.gate(cmpLess, accept, map[int]bool{head: true}, -1)
	// bypass: from loop body start
	_, body, _ := g.rangeLoop(func(*ast.RangeStmt) bool { return true })
	r2 := g.gate(cmpLess, accept, map[int]bool{head: true}, body)
	c.check("graph.selected-only-raised", f.Name, f.Body.Pos(), len(accept) == 1 && r.found && !r.leak && !r2.bypass && argsOK,
		"g.selected[path] may be assigned only when cmp(currently selected, required version) < 0 (max-merge: commutative, so visit order cannot matter)")

	// BuildList: map iteration is sorted before return
	b := c.fn("internal/mod/mvs", "(*Graph).BuildList")
	gb := c.graph(b)
	bi := b.Info()
	var mapRange *ast.RangeStmt
	ast.Inspect(b.Body, func(n ast.Node) bool {
		if rs, ok := n.(*ast.RangeStmt); ok {
			if _, isMap := bi.TypeOf(rs.X).Underlying().(*types.Map); isMap {
				mapRange = rs
			}
		}
		return true
	})
	if mapRange == nil {
		c.check("graph.buildlist-sorted", b.Name, b.Body.Pos(), true, "BuildList no longer iterates a map: nothing to sort")
	} else {
		sorts := gb.find(func(n ast.Node) bool {
			for _, call := range callsIn(n, false) {
				nm := calleeName(bi, call)
				if nm == "internal/mod/mvs.(*Graph).sortVersions" || strings.HasPrefix(nm, "slices.Sort") || strings.HasPrefix(nm, "sort.") {
					return true
				}
			}
			return false
		})
		head, _, _ := gb.rangeLoop(func(rs *ast.RangeStmt) bool { return rs == mapRange })
		ok := len(sorts) > 0
		for _, ret := range gb.returns() {
			if !gb.mustPassNode(ret, setOf(sorts)) {
				ok = false
			}
		}
		for _, s := range sorts {
			if head >= 0 && !gb.reachableFrom(head)[s] {
				ok = false
			}
			if gb.reachableFrom(s)[head] {
				ok = false // sorting inside the loop, not after it
			}
		}
		c.check("graph.buildlist-sorted", b.Name, mapRange.Pos(), ok,
			"the versions collected by ranging over the g.selected map must be sorted after the loop and before every return (map order must not reach the build list)")
	}
	sv := c.fn("internal/mod/mvs", "(*Graph).sortVersions")
	hasSort := false
	ast.Inspect(sv.Body, func(n ast.Node) bool {
		if call, ok := n.(*ast.CallExpr); ok {
			nm := calleeName(sv.Info(), call)
			if strings.HasPrefix(nm, "slices.Sort") || strings.HasPrefix(nm, "sort.") {
				hasSort = true
			}
		}
		return true
	})
	c.check("graph.sortVersions-sorts", sv.Name, sv.Body.Pos(), hasSort, "sortVersions must sort")
}

// c14EveryRootLoaded: in readModGraph every root module is handed to the load
// queue, except under the reviewed skip conditions (local module, version
// "none", already enqueued). Any other condition that bypasses loadQueue.Add
// leaves a reachable module's requirements out of the graph.
func c14EveryRootLoaded(c *Ctx, rm *Fn) {
	g := c.graph(rm)
	info := rm.Info()
	head, body, rs := g.rangeLoop(func(rs *ast.RangeStmt) bool {
		sel, ok := ast.Unparen(rs.X).(*ast.SelectorExpr)
		return ok && sel.Sel.Name == "rootModules"
	})
	if !c.check("roots.loop", rm.Name, rm.Body.Pos(), head >= 0, "readModGraph must iterate rs.rootModules") {
		return
	}
	_ = rs
	add := map[int]bool{}
	for id := range g.callNodes("internal/par.(*Queue).Add") {
		add[id] = true
	}
	// conditional edges inside the loop from which the loop head (next root)
	// or the loop exit is reachable without passing Add
	inLoop := g.reach([]int{body}, func(id int) bool { return id == head }, nil)
	allowed := func(cond ast.Expr) bool {
		s := exprString(cond)
		ok := true
		// every atom of the skipping condition must be one of the reviewed ones
		var atoms func(e ast.Expr)
		atoms = func(e ast.Expr) {
			e = ast.Unparen(e)
			switch x := e.(type) {
			case *ast.BinaryExpr:
				if x.Op.String() == "||" || x.Op.String() == "&&" {
					atoms(x.X)
					atoms(x.Y)
					return
				}
			case *ast.UnaryExpr:
				if x.Op.String() == "!" {
					atoms(x.X)
					return
				}
			}
			a := exprString(e)
			switch {
			case strings.HasSuffix(a, ".IsLocal()"), strings.HasSuffix(a, ".IsValid()"):
			case strings.Contains(a, ".Version()") && strings.Contains(a, `"none"`):
			case a == "dup":
			default:
				ok = false
			}
		}
		atoms(cond)
		_ = s
		return ok
	}
	var bad []string
	nskip := 0
	for id := range inLoop {
		for _, e := range g.Nodes[id].Succs {
			if e.Cond == nil {
				continue
			}
			if add[e.To] {
				continue
			}
			// the edge decides to skip this root if, from its target, the
			// iteration can end while loadQueue.Add is no longer reachable
			within := g.reach([]int{e.To}, func(n int) bool { return n == head }, nil)
			addReachable := false
			for a := range add {
				if within[a] {
					addReachable = true
				}
			}
			if !addReachable && (within[head] || e.To == head) {
				nskip++
				if !allowed(e.Cond) {
					bad = append(bad, fmt.Sprintf("%s at %s", exprString(e.Cond), c.pos(g.pos(id))))
				}
			}
		}
	}
	_ = info
	c.check("roots.every-root-loaded", rm.Name, g.pos(head), len(bad) == 0 && len(add) > 0 && nskip > 0,
		"every root module must be enqueued for loading unless it is local, has version \"none\" or is already enqueued; other skip conditions: "+strings.Join(uniq(bad), "; "))
}
