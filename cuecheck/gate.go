package main

import (
	"go/ast"
	"go/constant"
	"go/token"
	"go/types"
	"strings"
)

// An atomMatcher recognises one guard condition ("atom") inside a larger
// boolean expression. matched says e is the atom; badWhenTrue says whether the
// atom evaluating to true is the rejecting outcome (e.g. `size > Max`,
// `path.Clean(p) != p`) or the accepting one (`utf8.ValidString(p)`).
type atomMatcher func(e ast.Expr) (matched, badWhenTrue bool)

type atomPoss struct {
	bad, good, na bool // the atom may be in its rejecting state / accepting state / unevaluated
	present       bool
}

func (a atomPoss) union(b atomPoss) atomPoss {
	return atomPoss{a.bad || b.bad, a.good || b.good, a.na || b.na, a.present || b.present}
}

// atomOnEdge computes what is known about the atom when cond evaluated to
// truth. The condition is treated as a boolean formula over its leaves
// (operands of &&, || and !); all assignments of the leaves that make the
// formula equal to truth are enumerated:
//   - bad:  in some assignment the atom is in its rejecting state AND that
//           state is responsible for the outcome (flipping the atom alone would
//           flip the formula) — so `over && applicable` being false is not a
//           rejection even if `over` happens to hold;
//   - good: in some assignment the atom is in its accepting state;
//   - na:   in some assignment short-circuit evaluation skips the atom.
func atomOnEdge(cond ast.Expr, truth bool, m atomMatcher) atomPoss {
	return atomOnEdgeMode(cond, truth, m, false)
}

// atomOnEdgeMode: with conditional=false (the default, strict reading) the
// atom is "bad" on an edge whenever some consistent assignment has it in its
// rejecting state — the guard must hold unconditionally, so `evidence && x`
// being false while there is evidence is a violation. With conditional=true
// the guard is allowed to be qualified by other terms (a size limit that
// applies to one file name only): the rejecting state counts only when it is
// responsible for the branch taken.
func atomOnEdgeMode(cond ast.Expr, truth bool, m atomMatcher, conditional bool) atomPoss {
	type node struct {
		op   byte // 'L' leaf, '!' , '&', '|'
		x, y *node
		leaf int
	}
	var leaves []ast.Expr
	atomLeaf, atomBadWhenTrue := -1, false
	var build func(e ast.Expr) *node
	build = func(e ast.Expr) *node {
		e = ast.Unparen(e)
		if ok, bwt := m(e); ok {
			leaves = append(leaves, e)
			if atomLeaf < 0 {
				atomLeaf, atomBadWhenTrue = len(leaves)-1, bwt
			}
			return &node{op: 'L', leaf: len(leaves) - 1}
		}
		switch x := e.(type) {
		case *ast.UnaryExpr:
			if x.Op == token.NOT {
				return &node{op: '!', x: build(x.X)}
			}
		case *ast.BinaryExpr:
			if x.Op == token.LAND {
				return &node{op: '&', x: build(x.X), y: build(x.Y)}
			}
			if x.Op == token.LOR {
				return &node{op: '|', x: build(x.X), y: build(x.Y)}
			}
		}
		leaves = append(leaves, e)
		return &node{op: 'L', leaf: len(leaves) - 1}
	}
	root := build(cond)
	if atomLeaf < 0 {
		return atomPoss{}
	}
	if len(leaves) > 10 {
		// too wide to enumerate: be conservative
		return atomPoss{bad: true, good: true, na: true, present: true}
	}
	var eval func(n *node, asg uint, evaluated *bool) bool
	eval = func(n *node, asg uint, evaluated *bool) bool {
		switch n.op {
		case 'L':
			if n.leaf == atomLeaf {
				*evaluated = true
			}
			return asg&(1<<uint(n.leaf)) != 0
		case '!':
			return !eval(n.x, asg, evaluated)
		case '&':
			if !eval(n.x, asg, evaluated) {
				return false
			}
			return eval(n.y, asg, evaluated)
		default:
			if eval(n.x, asg, evaluated) {
				return true
			}
			return eval(n.y, asg, evaluated)
		}
	}
	out := atomPoss{present: true}
	for asg := uint(0); asg < 1<<uint(len(leaves)); asg++ {
		ev := false
		if eval(root, asg, &ev) != truth {
			continue
		}
		if !ev {
			out.na = true
			continue
		}
		av := asg&(1<<uint(atomLeaf)) != 0
		rejecting := av == atomBadWhenTrue
		if !rejecting {
			out.good = true
			continue
		}
		if !conditional {
			out.bad = true
			continue
		}
		ev2 := false
		if eval(root, asg^(1<<uint(atomLeaf)), &ev2) != truth {
			out.bad = true // the rejecting state is responsible for taking this edge
		}
	}
	return out
}

// A gate is one guard that must stand between the candidates and the accept
// nodes of a validation loop (or function).
type gateResult struct {
	found        bool // the atom occurs on some live condition
	leak         bool // accept is reachable from a rejecting edge of the atom
	leakPos      token.Pos
	bypass       bool // accept is reachable without evaluating the atom at all
	condNodes    []int
	failingEdges int
}

// gate checks guard m against the accept nodes. barrier nodes (typically the
// loop head) end the search: what happens in the next iteration is a
// different candidate.
func (g *Graph) gate(m atomMatcher, accept map[int]bool, barrier map[int]bool, from int) gateResult {
	return g.gateMode(m, accept, barrier, from, false)
}

// gateMode: see atomOnEdgeMode for the meaning of conditional.
func (g *Graph) gateMode(m atomMatcher, accept map[int]bool, barrier map[int]bool, from int, conditional bool) gateResult {
	var res gateResult
	live := g.live()
	type fe struct {
		from int
		e    GEdge
	}
	var failing, unevaluated []fe
	condSet := map[int]bool{}
	for _, n := range g.Nodes {
		if !live[n.ID] {
			continue
		}
		for _, e := range n.Succs {
			if e.Cond == nil {
				continue
			}
			p := atomOnEdgeMode(e.Cond, e.Truth, m, conditional)
			if !p.present {
				continue
			}
			res.found = true
			condSet[n.ID] = true
			if p.bad {
				failing = append(failing, fe{n.ID, e})
			}
			if p.na {
				unevaluated = append(unevaluated, fe{n.ID, e})
			}
		}
	}
	for id := range condSet {
		res.condNodes = append(res.condNodes, id)
	}
	sortInts(res.condNodes)
	res.failingEdges = len(failing)
	for _, f := range failing {
		start := f.e.To
		if accept[start] {
			res.leak, res.leakPos = true, g.pos(f.from)
			continue
		}
		if barrier[start] {
			continue
		}
		r := g.reach([]int{start}, func(id int) bool { return barrier[id] }, nil)
		for a := range accept {
			if r[a] {
				res.leak, res.leakPos = true, g.pos(f.from)
			}
		}
	}
	// an edge on which short-circuit evaluation skipped the atom, and from
	// which accept is reachable, bypasses the guard (relevant for guards
	// that must be evaluated)
	for _, f := range unevaluated {
		start := f.e.To
		if accept[start] {
			res.bypass = true
			continue
		}
		if barrier[start] {
			continue
		}
		// the atom may still be evaluated later on the way
		r := g.reach([]int{start}, func(id int) bool { return barrier[id] || (condSet[id] && id != f.from) }, nil)
		for a := range accept {
			if r[a] && !condSet[a] {
				res.bypass = true
			}
		}
	}
	// bypass: accept reachable from `from` without passing any condition node that holds the atom
	if from >= 0 && !condSet[from] {
		r := g.reach([]int{from}, func(id int) bool { return condSet[id] || barrier[id] && id != from }, nil)
		for a := range accept {
			if r[a] && !condSet[a] {
				res.bypass = true
			}
		}
	}
	return res
}

// ---- atom matchers -------------------------------------------------------

func constString(info *types.Info, e ast.Expr) (string, bool) {
	tv, ok := info.Types[e]
	if !ok || tv.Value == nil || tv.Value.Kind() != constant.String {
		return "", false
	}
	return constant.StringVal(tv.Value), true
}

// mentionsObj reports whether e refers to the named package-level object.
func mentionsObj(info *types.Info, e ast.Expr, name string) bool {
	found := false
	ast.Inspect(e, func(n ast.Node) bool {
		if id, ok := n.(*ast.Ident); ok {
			if o := info.Uses[id]; o != nil && objName(o) == name {
				found = true
			}
		}
		return !found
	})
	return found
}

func containsCall(info *types.Info, e ast.Expr, callee string) *ast.CallExpr {
	var out *ast.CallExpr
	inspectShallow(e, func(n ast.Node) bool {
		if c, ok := n.(*ast.CallExpr); ok && out == nil && calleeName(info, c) == callee {
			out = c
		}
		return out == nil
	})
	return out
}

// atomEqCall: `call(...) != x` (bad when true) / `call(...) == x` (bad when
// false). The call may also be reached through a local variable whose only
// definition is that call (`if clean := path.Clean(p); clean == p`).
func atomEqCall(info *types.Info, callee string) atomMatcher {
	return atomEqCallIn(nil, info, callee)
}

func atomEqCallIn(f *Fn, info *types.Info, callee string) atomMatcher {
	side := func(e ast.Expr) bool {
		if containsCall(info, e, callee) != nil {
			return true
		}
		if f == nil {
			return false
		}
		o := identObj(info, e)
		if o == nil {
			return false
		}
		ndef, ncall := 0, 0
		ast.Inspect(f.Body, func(n ast.Node) bool {
			if as, ok := n.(*ast.AssignStmt); ok && len(as.Lhs) == len(as.Rhs) {
				for i, l := range as.Lhs {
					if identObj(info, l) == o {
						ndef++
						if containsCall(info, as.Rhs[i], callee) != nil {
							ncall++
						}
					}
				}
			}
			return true
		})
		return ndef > 0 && ndef == ncall
	}
	return func(e ast.Expr) (bool, bool) {
		be, ok := e.(*ast.BinaryExpr)
		if !ok || (be.Op != token.EQL && be.Op != token.NEQ) {
			return false, false
		}
		if !side(be.X) && !side(be.Y) {
			return false, false
		}
		return true, be.Op == token.NEQ
	}
}

// atomBoolCall: a boolean call; badWhenTrue given.
func atomBoolCall(info *types.Info, callee string, badWhenTrue bool) atomMatcher {
	return func(e ast.Expr) (bool, bool) {
		c, ok := e.(*ast.CallExpr)
		if !ok || calleeName(info, c) != callee {
			return false, false
		}
		return true, badWhenTrue
	}
}

// atomEqConst: `x == "const"` is the rejecting outcome (badWhenEq) or accepting.
func atomEqConst(info *types.Info, val string, badWhenEq bool) atomMatcher {
	return func(e ast.Expr) (bool, bool) {
		be, ok := e.(*ast.BinaryExpr)
		if !ok || (be.Op != token.EQL && be.Op != token.NEQ) {
			return false, false
		}
		sx, okx := constString(info, be.X)
		sy, oky := constString(info, be.Y)
		if !(okx && sx == val) && !(oky && sy == val) {
			return false, false
		}
		return true, (be.Op == token.EQL) == badWhenEq
	}
}

// atomOverLimit: an ordered comparison against the named constant/variable
// limit; the rejecting outcome is "value above limit".
func atomOverLimit(info *types.Info, limit func(ast.Expr) bool) atomMatcher {
	return func(e ast.Expr) (bool, bool) {
		be, ok := e.(*ast.BinaryExpr)
		if !ok {
			return false, false
		}
		lx, ly := limit(be.X), limit(be.Y)
		if lx == ly {
			return false, false
		}
		switch be.Op {
		case token.GTR, token.GEQ: // v > L : over when true; L > v : within when true
			return true, ly
		case token.LSS, token.LEQ: // v < L : within when true; L < v: over when true
			return true, lx
		}
		return false, false
	}
}

// atomNilErrVar: `v != nil` is bad.
func atomErrVar(info *types.Info, v types.Object) atomMatcher {
	return func(e ast.Expr) (bool, bool) {
		be, ok := e.(*ast.BinaryExpr)
		if !ok || (be.Op != token.EQL && be.Op != token.NEQ) || v == nil {
			return false, false
		}
		var x ast.Expr
		if isNilIdent(be.Y) {
			x = be.X
		} else if isNilIdent(be.X) {
			x = be.Y
		}
		if x == nil || identObj(info, x) != v {
			return false, false
		}
		return true, be.Op == token.NEQ
	}
}

// atomExprText matches a leaf whose printed form satisfies pred; used for
// field conditions such as `cf.SizeError != nil`.
func atomSelNil(info *types.Info, field string) atomMatcher {
	return func(e ast.Expr) (bool, bool) {
		be, ok := e.(*ast.BinaryExpr)
		if !ok || (be.Op != token.EQL && be.Op != token.NEQ) {
			return false, false
		}
		var x ast.Expr
		if isNilIdent(be.Y) {
			x = be.X
		} else if isNilIdent(be.X) {
			x = be.Y
		}
		sel, ok := ast.Unparen(x).(*ast.SelectorExpr)
		if x == nil || !ok || sel.Sel.Name != field {
			return false, false
		}
		return true, be.Op == token.NEQ
	}
}

func exprString(e ast.Expr) string {
	return strings.TrimSpace(types.ExprString(e))
}

// rangeLoopHead returns the synthetic loop-head node of the range statement
// whose ranged expression satisfies pred.
func (g *Graph) rangeLoop(pred func(*ast.RangeStmt) bool) (head int, body int, stmt *ast.RangeStmt) {
	head, body = -1, -1
	for _, n := range g.Nodes {
		rs, ok := n.Stmt.(*ast.RangeStmt)
		if !ok || !pred(rs) {
			continue
		}
		switch n.Kind.String() {
		case "RangeLoop":
			if head < 0 {
				head = n.ID
				stmt = rs
			}
		case "RangeBody":
			if body < 0 || n.ID < body {
				body = n.ID
			}
		}
	}
	return
}
