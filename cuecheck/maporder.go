package main

import (
	"fmt"
	"go/ast"
	"go/token"
	"go/types"
	"strings"
)

// E6: iteration-order leaks. Only positively identified leak patterns are
// violations (an order-sensitive sink fed from a map iteration and not sorted
// afterwards); anything the classifier cannot decide is recorded in the
// evidence as "unclassified", never reported.

func isMapType(t types.Type) bool {
	if t == nil {
		return false
	}
	_, ok := t.Underlying().(*types.Map)
	return ok
}

func isSortCall(name string) bool {
	switch {
	case strings.HasPrefix(name, "sort."), strings.HasPrefix(name, "slices.Sort"), name == "slices.Sorted", name == "slices.SortedFunc", name == "slices.SortedStableFunc":
		return true
	}
	l := strings.ToLower(shortCallee(name))
	return strings.Contains(l, "sort")
}

// mapIterSource reports whether expression e iterates a map in unspecified
// order: a map value, or maps.Keys/Values/All of one.
func mapIterSource(info *types.Info, e ast.Expr) bool {
	e = ast.Unparen(e)
	if isMapType(info.TypeOf(e)) {
		return true
	}
	if call, ok := e.(*ast.CallExpr); ok {
		switch calleeName(info, call) {
		case "maps.Keys", "maps.Values", "maps.All":
			return true
		}
	}
	return false
}

type mapLoop struct {
	fn    *Fn
	pos   token.Pos
	what  string
	sink  string // "" = commutative
	sinkV types.Object
	fixed bool // sorted afterwards
}

func (c *Ctx) scanMapLoops(f *Fn) []mapLoop {
	info := f.Info()
	var out []mapLoop
	declaredIn := func(o types.Object, n ast.Node) bool {
		return o != nil && o.Pos() >= n.Pos() && o.Pos() <= n.End()
	}
	sortedAfter := func(v types.Object, after token.Pos) bool {
		found := false
		ast.Inspect(f.Body, func(n ast.Node) bool {
			call, ok := n.(*ast.CallExpr)
			if !ok || call.Pos() < after {
				return true
			}
			if !isSortCall(calleeName(info, call)) {
				return true
			}
			for _, a := range call.Args {
				if id := rootIdent(a); id != nil && info.Uses[id] == v {
					found = true
				}
			}
			if sel, ok := ast.Unparen(call.Fun).(*ast.SelectorExpr); ok {
				if id := rootIdent(sel.X); id != nil && info.Uses[id] == v {
					found = true
				}
			}
			return true
		})
		return found
	}
	ast.Inspect(f.Body, func(n ast.Node) bool {
		switch s := n.(type) {
		case *ast.RangeStmt:
			if !mapIterSource(info, s.X) {
				return true
			}
			ml := mapLoop{fn: f, pos: s.Pos(), what: "range " + exprString(s.X)}
			ast.Inspect(s.Body, func(x ast.Node) bool {
				if ml.sink != "" {
					return false
				}
				switch y := x.(type) {
				case *ast.AssignStmt:
					for i, r := range y.Rhs {
						call, ok := ast.Unparen(r).(*ast.CallExpr)
						if !ok || calleeName(info, call) != "append" || i >= len(y.Lhs) {
							continue
						}
						id := rootIdent(y.Lhs[i])
						if id == nil {
							continue
						}
						o := info.Uses[id]
						if o == nil {
							o = info.Defs[id]
						}
						if o != nil && !declaredIn(o, s) {
							// appending into a map element or a struct keyed by the loop key is commutative
							if _, isIdx := ast.Unparen(y.Lhs[i]).(*ast.IndexExpr); isIdx {
								continue
							}
							ml.sink = "append to " + exprString(y.Lhs[i])
							ml.sinkV = o
						}
					}
				case *ast.CallExpr:
					nm := calleeName(info, y)
					switch {
					case strings.HasPrefix(nm, "fmt.Fprint"), strings.HasSuffix(nm, ".WriteString"), strings.HasSuffix(nm, ".WriteByte"),
						strings.HasSuffix(nm, ".WriteRune"), nm == "io.WriteString":
						// writing to a writer declared outside the loop
						var w ast.Expr
						if strings.HasPrefix(nm, "fmt.Fprint") || nm == "io.WriteString" {
							if len(y.Args) > 0 {
								w = y.Args[0]
							}
						} else if sel, ok := ast.Unparen(y.Fun).(*ast.SelectorExpr); ok {
							w = sel.X
						}
						if w != nil {
							if id := rootIdent(w); id != nil {
								if o := info.Uses[id]; o != nil && !declaredIn(o, s) {
									ml.sink = "write to " + exprString(w)
								}
							}
						}
					}
				}
				return true
			})
			if ml.sinkV != nil {
				ml.fixed = sortedAfter(ml.sinkV, s.End())
			}
			out = append(out, ml)
		case *ast.AssignStmt:
			// x := slices.Collect(maps.Keys(m)) / slices.AppendSeq(...)
			for i, r := range s.Rhs {
				call, ok := ast.Unparen(r).(*ast.CallExpr)
				if !ok {
					continue
				}
				nm := calleeName(info, call)
				if nm != "slices.Collect" && nm != "slices.AppendSeq" {
					continue
				}
				src := call.Args[len(call.Args)-1]
				if !mapIterSource(info, src) {
					continue
				}
				ml := mapLoop{fn: f, pos: s.Pos(), what: nm + "(" + exprString(src) + ")", sink: "collected into a slice"}
				if i < len(s.Lhs) {
					if id := rootIdent(s.Lhs[i]); id != nil {
						o := info.Defs[id]
						if o == nil {
							o = info.Uses[id]
						}
						ml.sinkV = o
						if o != nil {
							ml.fixed = sortedAfter(o, s.End())
						}
					}
				}
				out = append(out, ml)
			}
		}
		return true
	})
	return out
}

// checkMapOrder emits one obligation per map iteration in the packages.
func (c *Ctx) checkMapOrder(rule string, pkgRels []string, except map[string]string) int {
	n := 0
	for _, pr := range pkgRels {
		for _, f := range c.funcs(c.pkg(pr)) {
			ord := 0
			for _, ml := range c.scanMapLoops(f) {
				n++
				ord++
				key := fmt.Sprintf("%s#map%d", f.Name, ord)
				why, exc := except[f.Name]
				ok := ml.sink == "" || ml.fixed || exc
				det := ml.what + ": "
				switch {
				case ml.sink == "":
					det += "no order-sensitive sink in the loop body (stores keyed by the loop key, counters, set insertion, lookups)"
				case ml.fixed:
					det += ml.sink + ", sorted afterwards"
				case exc:
					det += ml.sink + "; excepted — " + why
				default:
					det += ml.sink + " in map iteration order and never sorted: the order of the result differs from run to run"
				}
				c.check(rule, key, ml.pos, ok, det)
			}
		}
	}
	return n
}

// checkNoNondetSource: no random numbers, wall-clock time or pointer
// formatting in the given packages outside excepted (debug) functions.
func (c *Ctx) checkNoNondetSource(rule string, pkgRels []string, except map[string]string) {
	var bad []string
	n := 0
	for _, pr := range pkgRels {
		for _, f := range c.funcs(c.pkg(pr)) {
			info := f.Info()
			ast.Inspect(f.Body, func(x ast.Node) bool {
				call, ok := x.(*ast.CallExpr)
				if !ok {
					return true
				}
				nm := calleeName(info, call)
				hit := ""
				switch {
				case strings.HasPrefix(nm, "math/rand.") || strings.HasPrefix(nm, "math/rand/v2."):
					// an explicit generator seeded with constants is
					// deterministic; only the global source (package-level
					// functions) and non-constant seeds are random
					if strings.Contains(nm, "(*Rand)") || strings.Contains(nm, "(*PCG)") {
						break
					}
					allConst := len(call.Args) > 0
					for _, a := range call.Args {
						if tv := info.Types[a]; tv.Value == nil {
							if inner, ok := ast.Unparen(a).(*ast.CallExpr); !ok || !strings.HasPrefix(calleeName(info, inner), "math/rand") {
								allConst = false
							}
						}
					}
					if strings.HasSuffix(nm, ".New") || strings.HasSuffix(nm, ".NewPCG") || strings.HasSuffix(nm, ".NewSource") {
						if allConst {
							break
						}
					}
					hit = nm
				case nm == "time.Now" || nm == "time.Since":
					hit = nm
				case strings.HasPrefix(nm, "fmt.") && len(call.Args) > 0:
					for _, a := range call.Args {
						if s, ok := constString(info, a); ok && strings.Contains(s, "%p") {
							hit = nm + " with %p"
						}
					}
				}
				if hit == "" {
					return true
				}
				n++
				if _, ok := except[f.Name]; !ok {
					bad = append(bad, fmt.Sprintf("%s uses %s at %s", f.Name, hit, c.pos(call.Pos())))
				}
				return true
			})
		}
	}
	c.check(rule, strings.Join(pkgRels[:1], "")+"+", token.NoPos, len(bad) == 0,
		fmt.Sprintf("no random numbers, wall-clock time or pointer-formatted text may be used in the pipeline packages outside debug helpers (%d uses, %d excepted): %s", n, n-len(bad), strings.Join(bad, "; ")))
}
