package main

import (
	"fmt"
	"go/ast"
	"go/types"
	"sort"
	"strings"
)

// Parser rules shared by C02 (pipeline never crashes) and C09 (parser total).

// reviewed non-bailout panics of package cue/parser: function -> why it
// cannot be reached from input text
var parserPanicExceptions = map[string]string{
	"(*parser).peek":                  "both callers (parseOperand FUNC look-ahead, comprehension `if !` look-ahead) consume the peeked token with next() before any other peek; the scanned flag is cleared in next0",
	"(*parser).parseAlias":            "parseRHS never returns nil: the operand parser yields *ast.BadExpr at worst",
	"(*parser).parseOldAlias":         "parseRHS never returns nil: the operand parser yields *ast.BadExpr at worst",
	"(*parser).checkExpr":             "the switch is over unparen(x), which strips every *ast.ParenExpr",
	"Config.apply":                    "programmer error at option construction (zero Config), independent of the input text",
	"Version":                         "programmer error at option construction (invalid version literal), independent of the input text",
	
}

func parserRules(c *Ctx) {
	const pp = "cue/parser"
	p := c.pkg(pp)
	pg := c.pkgCallGraph(pp)

	// (a) bailout discipline: the API's recover is conditional on
	// p.panicking, so every panic must set it first.
	nPanics := 0
	panicFns := map[*types.Func]bool{}
	for _, f := range c.funcs(p) {
		bodies := append([]*Fn{f}, c.lits(f)...)
		for _, b := range bodies {
			g := c.graph(b)
			info := b.Info()
			idx := 0
			for _, n := range g.Nodes {
				if n.N == nil {
					continue
				}
				isPanic := false
				for _, call := range callsIn(n.N, false) {
					if calleeName(info, call) == "panic" {
						isPanic = true
					}
				}
				if !isPanic {
					continue
				}
				nPanics++
				idx++
				if f.Obj != nil {
					panicFns[f.Obj.Origin()] = true
				}
				sets := setOf(g.find(func(x ast.Node) bool {
					as, ok := x.(*ast.AssignStmt)
					if !ok || len(as.Lhs) != 1 || len(as.Rhs) != 1 {
						return false
					}
					sel, ok := ast.Unparen(as.Lhs[0]).(*ast.SelectorExpr)
					if !ok || sel.Sel.Name != "panicking" {
						return false
					}
					tv := info.Types[as.Rhs[0]]
					return tv.Value != nil && tv.Value.ExactString() == "true"
				}))
				dominated := len(sets) > 0 && g.mustPassNode(n.ID, sets)
				short := strings.TrimPrefix(f.Name, pp+".")
				why, exc := parserPanicExceptions[short]
				ok := dominated || (exc && why != "")
				det := "a panic in the parser escapes ParseFile/ParseExpr unless `p.panicking = true` was set on every path to it (the API's recover is conditional on that flag)"
				if !dominated && exc {
					det += "; excepted — " + why
				}
				c.check("parser.bailout-sets-panicking", fmt.Sprintf("%s#panic%d", b.Name, idx), g.pos(n.ID), ok, det)
			}
		}
	}
	c.expect("parser.bailout-sets-panicking", 7)

	// entry points install the recover before parsing starts
	for _, f := range c.funcs(p) {
		if !f.Decl.Name.IsExported() || f.Decl.Recv != nil || f.Obj == nil {
			continue
		}
		reach := pg.reachableFrom(f.Obj.Origin())
		reachesPanic := false
		for pf := range panicFns {
			if reach[pf] && pf != f.Obj.Origin() {
				if d := pg.fns[pf]; d != nil && d.Decl.Recv != nil && strings.Contains(d.Name, "(*parser)") {
					reachesPanic = true
				}
			}
		}
		if !reachesPanic {
			continue
		}
		g := c.graph(f)
		defers := setOf(g.find(func(n ast.Node) bool {
			d, ok := n.(*ast.DeferStmt)
			if !ok {
				return false
			}
			lit, ok := ast.Unparen(d.Call.Fun).(*ast.FuncLit)
			if !ok {
				return false
			}
			has := false
			ast.Inspect(lit.Body, func(x ast.Node) bool {
				if call, ok := x.(*ast.CallExpr); ok && calleeName(f.Info(), call) == "recover" {
					has = true
				}
				return true
			})
			return has
		}))
		// every call of a parser method comes after the defer
		ok := len(defers) > 0
		for id, call := range g.callNodesWhere(func(call *ast.CallExpr) bool { return true },
			pp+".(*parser).parseFile", pp+".(*parser).parseRHS", pp+".(*parser).parseExpr", pp+".(*parser).init", pp+".(*parser).next") {
			_ = call
			if !g.mustPassNode(id, defers) {
				ok = false
			}
		}
		c.check("parser.entry-recovers", f.Name, f.Decl.Pos(), ok,
			"an exported entry point from which a parser bailout is reachable must install the deferred recover before it starts parsing")
	}

	// (b) recursion bounded: remove the functions that take the nesting
	// guard; every remaining call cycle must be a reviewed bounded one.
	guards := map[*types.Func]bool{}
	for fn, f := range pg.fns {
		ast.Inspect(f.Body, func(n ast.Node) bool {
			d, ok := n.(*ast.DeferStmt)
			if !ok || calleeName(f.Info(), d.Call) != pp+".decNestLevel" || len(d.Call.Args) != 1 {
				return true
			}
			if in, ok := ast.Unparen(d.Call.Args[0]).(*ast.CallExpr); ok && calleeName(f.Info(), in) == pp+".incNestLevel" {
				// the guard must be unconditional: a top-level statement of the body
				for _, st := range f.Body.List {
					if st == ast.Stmt(d) {
						guards[fn] = true
					}
				}
			}
			return true
		})
	}
	c.check("parser.nest-guard-present", pp, 0, len(guards) > 0,
		fmt.Sprintf("some parse function must take the nesting guard `defer decNestLevel(incNestLevel(p))` unconditionally (found %d)", len(guards)))
	boundedCycles := map[string]string{
		"unparen":                              "recursion over an already built tree whose depth the guard bounded",
		"parseBinaryExpr,parseBinaryExprTail": "recursion over the operator precedence levels: each level calls the next higher precedence, at most 7 deep per guarded operand",
	}
	seenCycle := map[string]bool{}
	for _, comp := range pg.cycles(guards) {
		name := fnNames(comp)
		seenCycle[name] = true
		why, ok := boundedCycles[name]
		det := "call cycle in the parser that does not pass the nesting guard: input can drive it to arbitrary depth (stack overflow is a fatal error, not a recoverable panic)"
		if ok {
			det = "bounded cycle: " + why
		}
		c.check("parser.recursion-guarded", "cycle:"+name, comp[0].Pos(), ok, det)
	}
	var gnames []string
	for g := range guards {
		gnames = append(gnames, objName(g))
	}
	sort.Strings(gnames)
	c.note("parser: %d panic sites, nesting guards in %v, %d unguarded cycles examined", nPanics, gnames, len(seenCycle))
	// the guard itself bails out correctly
	inc := c.fn(pp, "incNestLevel")
	gi := c.graph(inc)
	okInc := false
	lim := func(e ast.Expr) (bool, bool) {
		be, ok := e.(*ast.BinaryExpr)
		if !ok {
			return false, false
		}
		if mentionsObj(inc.Info(), be, pp+".maxNestLevel") {
			switch be.Op.String() {
			case ">", ">=":
				return true, false // over the limit => must NOT fall through to the normal return
			}
		}
		return false, false
	}
	// from the over-limit edge the normal exit must be unreachable (panic)
	for _, n := range gi.Nodes {
		for _, e := range n.Succs {
			if e.Cond == nil {
				continue
			}
			pz := atomOnEdge(e.Cond, e.Truth, lim)
			if pz.present && e.Truth {
				r := gi.reach([]int{e.To}, nil, nil)
				okInc = !r[gi.Exit]
			}
		}
	}
	c.check("parser.nest-guard-bails-out", inc.Name, inc.Body.Pos(), okInc, "incNestLevel must not return normally once the depth exceeds maxNestLevel")

	// (b2) trees deepened iteratively: a loop that wraps the node built so far
	// into a new parent on every iteration (x = &ast.T{X: x}; or m.Value =
	// {new}; m = new) grows the syntax tree's depth without any recursion in
	// the parser, so the call-cycle rule cannot see it. Every such loop must
	// count its iterations against the nesting guard, or the recursive
	// consumers of the tree (ast.Walk, astutil.Resolve inside ParseFile, the
	// compiler) overflow the stack.
	nodeIface := c.lookupType("cue/ast.Node").Type().Underlying().(*types.Interface)
	for _, f := range c.funcs(p) {
		info := f.Info()
		loopN := 0
		ast.Inspect(f.Body, func(n ast.Node) bool {
			fs, ok := n.(*ast.ForStmt)
			if !ok {
				return true
			}
			loopN++
			grows := ""
			counted := false
			fresh := map[types.Object]bool{} // variables holding a node allocated in this iteration
			ast.Inspect(fs.Body, func(x ast.Node) bool {
				switch s := x.(type) {
				case *ast.FuncLit:
					return false
				case *ast.CallExpr:
					if calleeName(info, s) == pp+".incNestLevel" {
						counted = true
					}
				case *ast.AssignStmt:
					for i, l := range s.Lhs {
						if i >= len(s.Rhs) && len(s.Rhs) != 1 {
							continue
						}
						rhs := s.Rhs[0]
						if len(s.Rhs) == len(s.Lhs) {
							rhs = s.Rhs[i]
						}
						lo := identObj(info, l)
						if lo != nil && s.Tok.String() == ":=" {
							if u, ok := ast.Unparen(rhs).(*ast.UnaryExpr); ok && u.Op.String() == "&" {
								if _, isLit := u.X.(*ast.CompositeLit); isLit {
									fresh[lo] = true
								}
							}
							continue
						}
						if lo == nil {
							continue
						}
						lt := info.TypeOf(l)
						if lt == nil || !types.Implements(lt, nodeIface) {
							continue // lists grow in width, not in depth
						}
						// pattern 1: x = <expr wrapping x>
						selfRef := false
						wraps := false
						ast.Inspect(rhs, func(y ast.Node) bool {
							if id, ok := y.(*ast.Ident); ok && info.Uses[id] == lo {
								selfRef = true
							}
							switch y.(type) {
							case *ast.CompositeLit:
								wraps = true
							case *ast.CallExpr:
								wraps = true
							}
							return true
						})
						if selfRef && wraps {
							// x = unparen(x)-style calls that only strip are excluded by name
							if call, ok := ast.Unparen(rhs).(*ast.CallExpr); ok {
								switch shortCallee(calleeName(info, call)) {
								case "unparen", "checkExpr", "checkExprOrType":
									continue
								}
							}
							grows = exprString(l) + " = " + strings.SplitN(exprString(rhs), "{", 2)[0]
						}
						// pattern 2: m = n where n is fresh and was linked below m
						if ro := identObj(info, rhs); ro != nil && fresh[ro] {
							grows = exprString(l) + " = " + exprString(rhs) + " (fresh node chained below the previous one)"
						}
					}
				}
				return true
			})
			if grows == "" {
				return true
			}
			c.check("parser.iterative-nesting-counted", fmt.Sprintf("%s#loop%d", f.Name, loopN), fs.Pos(), counted,
				"this loop nests the node built so far one level deeper per iteration ("+grows+") without recursion; it must count iterations against the nesting guard (incNestLevel), otherwise input length alone drives the tree depth and the recursive consumers of the tree overflow the stack")
			return true
		})
	}
}
