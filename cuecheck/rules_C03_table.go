package main

import (
	"fmt"
	"go/ast"
	"go/token"
	"go/types"
	"os"
	"regexp"
	"strings"
)

// Decision table of adt.SimplifyBounds (C03): which pairs of bounds are
// declared incompatible, which are merged into one of the two, and which are
// kept (nil). The classes are those SimplifyBounds itself distinguishes
// (operator pair, sign and size of hi-lo, integer or float, outcome of the
// comparison of the two limits); the arithmetic that computes hi-lo and the
// comparisons themselves are not decided.
var localDst = regexp.MustCompile(`\(&\w+,`)

func checkC03Table(c *Ctx) {
	f := c.fn(adtP, "SimplifyBounds")
	cf := newCaseFn(c, f)
	if os.Getenv("CUECHECK_DUMP") != "" {
		var ks []string
		for k := range cf.atoms() {
			ks = append(ks, k)
		}
		sortStrings(ks)
		fmt.Fprintf(os.Stderr, "%s atoms:\n  %s\n", f.Name, strings.Join(ks, "\n  "))
		rets, _ := cf.walk(cf.g.Entry, nil)
		fmt.Fprintf(os.Stderr, "returns:\n  %s\n", strings.Join(rets, "\n  "))
	}
	T, F := true, false
	const (
		same = "opInfo(p2.Op)#1 == opInfo(p3.Op)#1"
		opp  = "-opInfo(p3.Op)#1 == opInfo(p2.Op)#1"
		str  = "StringKind == p1"
		byt  = "BytesKind == p1"
		GE   = "GreaterEqualOp == p2.Op"
		GT   = "GreaterThanOp == p2.Op"
		LE   = "LessEqualOp == p3.Op"
		LT   = "LessThanOp == p3.Op"
		INT  = "0 == p1 & FloatKind"
		NEG  = "d.Negative"
		D0   = "0 == d.Int64()#0"
		D1   = "1 == d.Int64()#0"
		D2   = "2 == d.Int64()#0"
		ENIL = "d.Int64()#1 == nil"
		X    = "p2"
		Y    = "p3"
		NIL  = "nil"
		BAD  = "errIncompatibleBounds(p0,p1,p2,p3)"
		BADI = `p0.NewErrf("incompatible integer bounds %v and %v",p2,p3)`
	)
	xOps := []string{"EqualOp == p2.Op", "NotEqualOp == p2.Op", "MatchOp == p2.Op", "NotMatchOp == p2.Op"}

	// ---- same direction (or same non-ordering operator)
	var rows []caseRow
	for _, op := range xOps {
		for _, eq := range []bool{true, false} {
			tr := map[string]bool{same: T, "BinOpBool(p0,nil,EqualOp,xv,yv)": eq}
			oneHot(tr, xOps, op)
			want := NIL
			if eq {
				want = X
			}
			rows = append(rows, caseRow{name: fmt.Sprintf("same-op/%s/equal=%v", strings.Fields(op)[0], eq), truth: tr, want: []string{want}})
		}
	}
	for _, tighter := range []bool{true, false} {
		tr := map[string]bool{same: T, "BinOpBool(p0,nil,opInfo(p2.Op)#0,xv,yv)": tighter}
		oneHot(tr, xOps, "")
		want := Y
		if tighter {
			want = X
		}
		rows = append(rows, caseRow{name: fmt.Sprintf("same-direction/x-tighter=%v", tighter), truth: tr, want: []string{want}})
	}
	cf.checkTable("bounds.table.same-direction", rows,
		"two bounds of the same direction simplify to the tighter one (x when `xv cmp yv` holds for the comparison opInfo assigns to x's operator, else y); equal !=, =~, !~ constraints collapse, unequal ones are both kept")

	// ---- opInfo: the comparison that decides "x is at least as tight as y"
	{
		of := newCaseFn(c, c.fn(adtP, "opInfo"))
		ops := []string{"GreaterThanOp", "GreaterEqualOp", "LessThanOp", "LessEqualOp", "EqualOp", "NotEqualOp", "MatchOp", "NotMatchOp"}
		want := map[string]string{
			"GreaterThanOp": "GreaterEqualOp, 1", "GreaterEqualOp": "GreaterThanOp, 1",
			"LessThanOp": "LessEqualOp, -1", "LessEqualOp": "LessThanOp, -1",
			"EqualOp": "EqualOp, 4", "NotEqualOp": "NotEqualOp, 0", "MatchOp": "MatchOp, 2", "NotMatchOp": "NotMatchOp, 3",
		}
		var keys []string
		for _, o := range ops {
			keys = append(keys, eqKey(o, "p0"))
		}
		var rs []caseRow
		for i, o := range ops {
			tr := map[string]bool{}
			oneHot(tr, keys, keys[i])
			rs = append(rs, caseRow{name: o, truth: tr, want: []string{want[o]}})
		}
		of.checkTable("bounds.table.opinfo", rs,
			"opInfo: `>a` wins over `>=b`/`>b` iff a >= b, `>=a` wins iff a > b (dually for <, <=); lower bounds have direction +1, upper bounds -1, and the other operators distinct categories")
	}

	// ---- opposite directions, numbers: from the sign test on d = hi - lo
	start := cf.condNode(NEG)
	rows = nil
	lowers, uppers := []string{GE, GT}, []string{LE, LT}
	rows = append(rows, caseRow{name: "num/hi<lo", start: start, truth: map[string]bool{NEG: T}, want: []string{BAD}})
	for _, lo := range lowers {
		for _, hi := range uppers {
			ops := map[string]bool{}
			oneHot(ops, lowers, lo)
			oneHot(ops, uppers, hi)
			name := strings.Fields(lo)[0] + "," + strings.Fields(hi)[0]
			closed := lo == GE && hi == LE
			open := lo == GT && hi == LT
			// diff == 0
			w := BAD
			if closed {
				w = NIL
			}
			rows = append(rows, caseRow{name: "num/diff=0/" + name, start: start,
				truth: mergeTruth(ops, map[string]bool{NEG: F, D0: T, D1: F, D2: F, ENIL: T}), want: []string{w}})
			// diff == 1, integers
			w = NIL
			if open {
				w = BADI
			}
			rows = append(rows, caseRow{name: "num/diff=1/int/" + name, start: start,
				truth: mergeTruth(ops, map[string]bool{NEG: F, D0: F, D1: T, D2: F, INT: T, "?" + ENIL: T}), want: []string{w}})
			rows = append(rows, caseRow{name: "num/diff=1/float/" + name, start: start,
				truth: mergeTruth(ops, map[string]bool{NEG: F, D0: F, D1: T, D2: F, INT: F, "?" + ENIL: T}), want: []string{NIL}})
			for _, isInt := range []bool{true, false} {
				rows = append(rows, caseRow{name: fmt.Sprintf("num/diff=2/int=%v/%s", isInt, name), start: start,
					truth: mergeTruth(ops, map[string]bool{NEG: F, D0: F, D1: F, D2: T, INT: isInt, "?" + ENIL: T}), want: []string{NIL}})
			}
			rows = append(rows, caseRow{name: "num/diff>2/" + name, start: start,
				truth: mergeTruth(ops, map[string]bool{NEG: F, D0: F, D1: F, D2: F}), want: []string{NIL}})
			rows = append(rows, caseRow{name: "num/diff-not-integral/" + name, start: start,
				truth: mergeTruth(ops, map[string]bool{NEG: F, D0: T, D1: F, D2: F, ENIL: F}), want: []string{NIL}})
		}
	}
	cf.checkTable("bounds.table.number-range", rows,
		"a lower and an upper numeric bound are incompatible exactly when hi<lo, when hi==lo and a bound is strict, or (integers only) when both are strict and hi-lo==1; every other class keeps both bounds — never an error for a satisfiable pair such as >1.0 & <2.0, never silence for an empty one")

	// ---- integer rounding of fractional limits
	{
		aNeg, bNeg := "xv.(*Num)#0.X.Exponent < 0", "yv.(*Num)#0.X.Exponent < 0"
		sa, sb := cf.condNode(aNeg), cf.condNode(bNeg)
		end := cf.condNode("0 < hi.Sign()")
		type rr struct {
			name  string
			start int
			block int
			truth map[string]bool
			want  string
		}
		for _, r := range []rr{
			{"lower/>=", sa, sb, map[string]bool{aNeg: T, GE: T}, "internal.BaseContext.Ceil(&_,&xv.(*Num)#0.X)"},
			{"lower/>", sa, sb, map[string]bool{aNeg: T, GE: F}, "internal.BaseContext.Floor(&_,&xv.(*Num)#0.X)"},
			{"lower/integral", sa, sb, map[string]bool{aNeg: F}, ""},
			{"upper/<=", sb, end, map[string]bool{bNeg: T, LE: T}, "internal.BaseContext.Floor(&_,&yv.(*Num)#0.X)"},
			{"upper/<", sb, end, map[string]bool{bNeg: T, LE: F}, "internal.BaseContext.Ceil(&_,&yv.(*Num)#0.X)"},
			{"upper/integral", sb, end, map[string]bool{bNeg: F}, ""},
		} {
			ok := r.start >= 0 && r.block >= 0
			got := ""
			if ok {
				_, vis := cf.walkBlocked(r.start, r.truth, map[int]bool{r.block: true})
				got = strings.Join(cf.visitedCalls(vis, "BaseContext."), " | ")
				got = localDst.ReplaceAllString(got, "(&_,") // the name of the local destination does not matter
				ok = got == r.want
			}
			c.check("bounds.table.integer-rounding", f.Name+"/"+r.name, f.Decl.Pos(), ok,
				fmt.Sprintf("for integers a fractional limit is rounded inward for an inclusive bound and outward for a strict one (>=3.4 -> >=4, >3.4 -> >3, <=2.3 -> <=2, <2.3 -> <3): expected {%s}, found {%s}", r.want, got))
		}
	}

	// ---- opposite directions, strings and bytes
	for _, kind := range []struct{ name, kindAtom, other, typ, fld, cmpFn, word string }{
		{"string", str, byt, "String", "Str", "strings.Compare", "string"},
		{"bytes", byt, str, "Bytes", "B", "bytes.Compare", "bytes"},
	} {
		cmp := fmt.Sprintf("%s(xv.(*%s)#0.%s,yv.(*%s)#0.%s)", kind.cmpFn, kind.typ, kind.fld, kind.typ, kind.fld)
		lt, eq, gt := eqKey("-1", cmp), eqKey("0", cmp), eqKey("1", cmp)
		base := map[string]bool{same: F, opp: T, kind.kindAtom: T, fmt.Sprintf("xv.(*%s)#1", kind.typ): T, fmt.Sprintf("yv.(*%s)#1", kind.typ): T}
		if kind.name == "bytes" {
			base[str] = F
		}
		bad := fmt.Sprintf(`p0.NewErrf("incompatible %s bounds %%v and %%v",p3,p2)`, kind.word)
		rows = nil
		for _, lo := range lowers {
			for _, hi := range uppers {
				ops := map[string]bool{}
				oneHot(ops, lowers, lo)
				oneHot(ops, uppers, hi)
				name := strings.Fields(lo)[0] + "," + strings.Fields(hi)[0]
				w := bad
				if lo == GE && hi == LE {
					w = NIL
				}
				rows = append(rows,
					caseRow{name: kind.name + "/lo<hi/" + name, truth: mergeTruth(base, ops, map[string]bool{lt: T, eq: F, gt: F}), want: []string{NIL}},
					caseRow{name: kind.name + "/lo=hi/" + name, truth: mergeTruth(base, ops, map[string]bool{lt: F, eq: T, gt: F}), want: []string{w}},
					caseRow{name: kind.name + "/lo>hi/" + name, truth: mergeTruth(base, ops, map[string]bool{lt: F, eq: F, gt: T}), want: []string{bad}},
				)
			}
		}
		cf.checkTable("bounds.table."+kind.name+"-range", rows,
			"a lower and an upper "+kind.word+" bound are incompatible exactly when lo>hi or lo==hi with a strict bound")
	}

	// ---- one side is == or !=
	xEq, yEq, xNe, yNe := "EqualOp == p2.Op", "EqualOp == p3.Op", "NotEqualOp == p2.Op", "NotEqualOp == p3.Op"
	holdsY, holdsX := "BinOpBool(p0,nil,p3.Op,xv,yv)", "BinOpBool(p0,nil,p2.Op,yv,xv)"
	none := map[string]bool{same: F, opp: F}
	rows = []caseRow{
		{name: "x-equal/satisfies-y", truth: mergeTruth(none, map[string]bool{xEq: T, holdsY: T}), want: []string{X}},
		{name: "x-equal/violates-y", truth: mergeTruth(none, map[string]bool{xEq: T, holdsY: F}), want: []string{NIL}},
		{name: "y-equal/satisfies-x", truth: mergeTruth(none, map[string]bool{xEq: F, yEq: T, holdsX: T}), want: []string{Y}},
		{name: "y-equal/violates-x", truth: mergeTruth(none, map[string]bool{xEq: F, yEq: T, holdsX: F}), want: []string{NIL}},
		{name: "x-notequal/excluded-by-y", truth: mergeTruth(none, map[string]bool{xEq: F, yEq: F, xNe: T, holdsY: F}), want: []string{Y}},
		{name: "x-notequal/inside-y", truth: mergeTruth(none, map[string]bool{xEq: F, yEq: F, xNe: T, holdsY: T}), want: []string{NIL}},
		{name: "y-notequal/excluded-by-x", truth: mergeTruth(none, map[string]bool{xEq: F, yEq: F, xNe: F, yNe: T, holdsX: F}), want: []string{X}},
		{name: "y-notequal/inside-x", truth: mergeTruth(none, map[string]bool{xEq: F, yEq: F, xNe: F, yNe: T, holdsX: T}), want: []string{NIL}},
		{name: "unrelated", truth: mergeTruth(none, map[string]bool{xEq: F, yEq: F, xNe: F, yNe: F}), want: []string{NIL}},
	}
	cf.checkTable("bounds.table.equality", rows,
		"`==a` absorbs a bound that a satisfies; `!=a` is dropped only when the other bound already excludes a; in every other class both constraints are kept")
}

// checkC03Destinations: apd.Decimal holds its coefficient behind a pointer, so
// `lo := a.X` shares the digits of the bound's operand. An apd operation whose
// destination is such a shallow copy rewrites the operand of the bound in
// place — the bound that is later validated against the final scalar is no
// longer the one the user wrote. Every apd call in SimplifyBounds must write
// to a decimal that was reset (`= apd.Decimal{}`) or declared fresh after the
// last shallow copy.
func checkC03Destinations(c *Ctx) {
	f := c.fn(adtP, "SimplifyBounds")
	g := c.graph(f)
	info := f.Info()
	isDecimal := func(t types.Type) bool {
		return t != nil && strings.HasSuffix(t.String(), "apd/v3.Decimal")
	}
	// shallow copies: assignments of a Decimal value taken from something else than a composite literal
	copyNodes := map[types.Object][]int{}
	freshNodes := map[types.Object]map[int]bool{}
	for _, nd := range g.Nodes {
		as, ok := nd.N.(*ast.AssignStmt)
		if !ok || len(as.Lhs) != len(as.Rhs) {
			continue
		}
		for i, l := range as.Lhs {
			o := identObj(info, l)
			if o == nil || !isDecimal(info.TypeOf(l)) {
				continue
			}
			if _, isLit := ast.Unparen(as.Rhs[i]).(*ast.CompositeLit); isLit {
				if freshNodes[o] == nil {
					freshNodes[o] = map[int]bool{}
				}
				freshNodes[o][nd.ID] = true
			} else {
				copyNodes[o] = append(copyNodes[o], nd.ID)
			}
		}
	}
	n := 0
	for id, nd := range g.Nodes {
		if nd.N == nil {
			continue
		}
		for _, call := range callsIn(nd.N, false) {
			sel, ok := ast.Unparen(call.Fun).(*ast.SelectorExpr)
			if !ok || len(call.Args) < 2 {
				continue
			}
			// an arithmetic method whose first parameter is the *apd.Decimal destination
			sg, _ := info.TypeOf(call.Fun).(*types.Signature)
			if sg == nil || sg.Params().Len() < 2 || !strings.HasSuffix(sg.Params().At(0).Type().String(), "apd/v3.Decimal") {
				continue
			}
			u, ok := ast.Unparen(call.Args[0]).(*ast.UnaryExpr)
			if !ok || u.Op != token.AND {
				continue
			}
			dst := identObj(info, u.X)
			if dst == nil {
				continue
			}
			n++
			okd := true
			for _, cp := range copyNodes[dst] {
				// from the shallow copy to the call without a reset in between?
				r := g.reach([]int{cp}, func(x int) bool { return freshNodes[dst][x] }, nil)
				if r[id] {
					okd = false
				}
			}
			c.check("bounds.apd-destination-not-shared", fmt.Sprintf("%s#%s%d", f.Name, sel.Sel.Name, n), call.Pos(), okd,
				"the destination "+exprString(call.Args[0])+" of "+sel.Sel.Name+" must not be a shallow copy of a bound's operand (apd.Decimal shares its coefficient through a pointer): reset it to apd.Decimal{} first, or the operand of the recorded bound is rewritten and the final validation compares against a different number")
		}
	}
	c.expect("bounds.apd-destination-not-shared", 5)
}

// checkC03Kinds: the kind of a node accumulates by intersection (a
// commutative, idempotent operation on bit sets), and an empty intersection of
// two non-empty kinds is reported as a conflict on every path.
func checkC03Kinds(c *Ctx) {
	f := c.fn(adtP, "(*nodeContext).updateNodeType")
	cf := newCaseFn(c, f)
	const (
		nb   = "BottomKind == recv.kind"
		kb   = "BottomKind == p0"
		empt = "BottomKind == recv.kind & p0"
	)
	// the stored kind is the intersection
	stored := false
	for _, n := range cf.g.Nodes {
		if as, ok := n.N.(*ast.AssignStmt); ok && len(as.Lhs) == 1 && exprString(as.Lhs[0]) == "n.kind" && cf.canon(as.Rhs[0]) == "recv.kind & p0" {
			stored = true
		}
	}
	c.check("kinds.accumulate-by-intersection", f.Name, f.Decl.Pos(), stored && len(cf.missingAtoms(map[string]bool{nb: true, kb: true, empt: true})) == 0,
		"updateNodeType must store n.kind & k (intersection: order and repetition of conjuncts do not matter) and test it for emptiness")
	errNodes := map[int]bool{}
	for id := range cf.g.callNodes(adtP+".(*nodeContext).reportConflict", adtP+".(*nodeContext).addErr") {
		errNodes[id] = true
	}
	rets, vis := cf.walkBlocked(cf.g.Entry, map[string]bool{nb: false, kb: false, empt: true}, errNodes)
	reported := false
	for id := range errNodes {
		if vis[id] {
			reported = true
		}
	}
	// no return reachable without passing an error report
	c.check("kinds.empty-intersection-reported", f.Name, f.Decl.Pos(), reported && len(rets) == 0 && len(errNodes) > 0,
		fmt.Sprintf("when two non-empty kinds have an empty intersection (string & int) every path must report a conflict before returning; returns reachable without a report: %v", rets))
	rets2, vis2 := cf.walk(cf.g.Entry, map[string]bool{nb: false, kb: false, empt: false})
	spurious := false
	for id := range errNodes {
		if vis2[id] {
			spurious = true
		}
	}
	c.check("kinds.compatible-kinds-no-error", f.Name, f.Decl.Pos(), !spurious && len(rets2) > 0,
		"a non-empty intersection must not report a conflict")
}
