package main

import (
	"fmt"
	"go/ast"
	"go/token"
	"go/types"
	"strings"
)

// c02BuiltinErrors: a Go builtin that fails returns a nil expression from its
// main path and relies on the deferred processErr to turn the recorded error
// (or the recovered panic value) into an *adt.Bottom. processErr dispatches on
// the dynamic type of the error; a clause that can finish without assigning
// the result leaves it nil, the builtin returns a nil adt.Expr, and the
// evaluator dereferences it (`json.Marshal({x: math.Sqrt(-1)})` crashed
// `cue eval` that way). Every clause for a non-nil error must therefore
// assign the result on every path, from something that cannot be nil.
func c02BuiltinErrors(c *Ctx) {
	const rule = "builtins.error-always-becomes-bottom"
	f := c.fn("internal/pkg", "processErr")
	info := f.Info()
	var ts *ast.TypeSwitchStmt
	ast.Inspect(f.Body, func(n ast.Node) bool {
		if x, ok := n.(*ast.TypeSwitchStmt); ok && ts == nil {
			ts = x
		}
		return true
	})
	if ts == nil {
		c.broken("anchor: processErr no longer dispatches on the type of the error value")
	}
	// the result variable: the parameter returned at the end
	var ret types.Object
	if n := len(f.Body.List); n > 0 {
		if rs, ok := f.Body.List[n-1].(*ast.ReturnStmt); ok && len(rs.Results) == 1 {
			ret = identObj(info, rs.Results[0])
		}
	}
	if ret == nil {
		c.broken("anchor: processErr no longer returns its result variable")
	}
	// possiblyNil: an expression that may evaluate to a nil pointer: a call returning a pointer
	possiblyNil := func(e ast.Expr) bool {
		call, ok := ast.Unparen(e).(*ast.CallExpr)
		if !ok {
			return false
		}
		if t := info.TypeOf(call); t != nil {
			_, isPtr := t.Underlying().(*types.Pointer)
			return isPtr
		}
		return false
	}
	// guardedNonNil: names tested `!= nil` by the conditions enclosing the statement
	var assigns func(list []ast.Stmt, nonNil map[types.Object]bool) bool
	assignsStmt := func(s ast.Stmt, nonNil map[types.Object]bool) bool {
		switch x := s.(type) {
		case *ast.ReturnStmt:
			if len(x.Results) == 1 && identObj(info, x.Results[0]) != ret && !isNilIdent(x.Results[0]) {
				return true
			}
		case *ast.AssignStmt:
			if len(x.Lhs) == 1 && len(x.Rhs) == 1 && identObj(info, x.Lhs[0]) == ret && x.Tok == token.ASSIGN {
				if isNilIdent(x.Rhs[0]) || possiblyNil(x.Rhs[0]) {
					return false
				}
				return true
			}
		case *ast.BlockStmt:
			return assigns(x.List, nonNil)
		case *ast.IfStmt:
			if x.Else == nil {
				return false
			}
			thenOK := assigns(x.Body.List, nonNil)
			elseOK := false
			switch e := x.Else.(type) {
			case *ast.BlockStmt:
				elseOK = assigns(e.List, nonNil)
			case *ast.IfStmt:
				elseOK = assigns([]ast.Stmt{e}, nonNil)
			}
			return thenOK && elseOK
		}
		return false
	}
	// mayLeave: the statement can leave the clause (break, goto, or returning the result variable itself)
	mayLeave := func(s ast.Stmt) bool {
		leaves := false
		ast.Inspect(s, func(n ast.Node) bool {
			switch x := n.(type) {
			case *ast.FuncLit, *ast.ForStmt, *ast.RangeStmt, *ast.SwitchStmt, *ast.TypeSwitchStmt, *ast.SelectStmt:
				// a break inside binds to the inner statement; returns inside loops are still seen below
				ast.Inspect(x, func(m ast.Node) bool {
					if _, isLit := m.(*ast.FuncLit); isLit {
						return false
					}
					if rs, ok := m.(*ast.ReturnStmt); ok && len(rs.Results) == 1 && (identObj(info, rs.Results[0]) == ret || isNilIdent(rs.Results[0])) {
						leaves = true
					}
					if br, ok := m.(*ast.BranchStmt); ok && br.Tok == token.GOTO {
						leaves = true
					}
					return true
				})
				return false
			case *ast.BranchStmt:
				if x.Tok == token.BREAK || x.Tok == token.GOTO || x.Tok == token.FALLTHROUGH {
					leaves = true
				}
			case *ast.ReturnStmt:
				if len(x.Results) == 1 && (identObj(info, x.Results[0]) == ret || isNilIdent(x.Results[0])) {
					leaves = true
				}
			}
			return true
		})
		return leaves
	}
	assigns = func(list []ast.Stmt, nonNil map[types.Object]bool) bool {
		for _, s := range list {
			if assignsStmt(s, nonNil) {
				return true
			}
			if mayLeave(s) {
				return false
			}
		}
		return false
	}
	n := 0
	for _, st := range ts.Body.List {
		cc := st.(*ast.CaseClause)
		var names []string
		for _, e := range cc.List {
			names = append(names, exprString(e))
		}
		name := strings.Join(names, ",")
		if cc.List == nil {
			name = "default"
		}
		switch name {
		case "nil":
			continue // no error: the result of the main path stands
		case "ValidationError":
			// outside a validator a failed validation is the builtin's ordinary result (false), not an error
			continue
		}
		n++
		c.check(rule, f.Name+"/case "+name, cc.Pos(), assigns(cc.Body, map[types.Object]bool{}),
			fmt.Sprintf("the clause for %s can finish without assigning the result from a value that cannot be nil (an unconditional `ret = …` whose right-hand side is not a pointer-returning call, or a return): the builtin then returns a nil adt.Expr for a failed call and the evaluator crashes on it", name))
	}
	c.expect(rule, 7)
}
