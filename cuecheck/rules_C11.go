package main

import (
	"fmt"
	"go/ast"
	"go/types"
	"strings"
)

func init() {
	register(&propCheck{
		id:   "C11",
		pkgs: []string{"internal/encoding/yaml", "internal/encoding/yaml/goccy"},
		run:  checkC11,
		about: "C11 (YAML output reads back as the same data), narrow: decides that in both live YAML encoders every string that becomes a YAML scalar — values and mapping keys — passes the quoting decision before it is emitted: in the yaml.v3 encoder every (*yaml.Node).SetString is followed on all paths by a shouldQuote consult on the same string or by an explicit tag/style; " +
			"in the goccy encoder a string is returned plain only behind the quoteScalar consult (empty result) or the blockLiteralSafe test, a non-empty quoteScalar result is what is emitted, and a mapping key is appended only after quoteScalar(key) was consulted and recorded. The token-kind switches of both encodeScalar functions cover INT, FLOAT, STRING, TRUE, FALSE, NULL. " +
			"It does not decide whether the quoting predicates are right for a given string, number formatting, or the JSON-as-YAML clause.",
		trust: []string{"the third-party emitters (go.yaml.in/yaml/v3, goccy/go-yaml) honour styles and pre-quoted raw scalars"},
	})
}

func checkC11(c *Ctx) {
	const yp = "internal/encoding/yaml"
	const gp = "internal/encoding/yaml/goccy"

	// ---- yaml.v3 encoder: SetString followed by the consult
	nSet := 0
	for _, f := range c.funcs(c.pkg(yp)) {
		g := c.graph(f)
		info := f.Info()
		for id, call := range g.callNodes("go.yaml.in/yaml/v3.(*Node).SetString") {
			if len(call.Args) != 1 {
				continue
			}
			nSet++
			sv := identObj(info, call.Args[0])
			sel, _ := ast.Unparen(call.Fun).(*ast.SelectorExpr)
			var nodeVar types.Object
			if sel != nil {
				nodeVar = identObj(info, sel.X)
			}
			start := id
			in := g.run(Automaton{
				Init: 0,
				OnNode: func(n, st int) int {
					if n == start {
						return 1
					}
					if st != 1 {
						return st
					}
					nd := g.Nodes[n].N
					if nd == nil {
						return st
					}
					// consult on the same string
					for _, cl := range callsIn(nd, false) {
						if calleeName(info, cl) == yp+".shouldQuote" && len(cl.Args) == 1 && sv != nil && identObj(info, cl.Args[0]) == sv {
							return 2
						}
					}
					// explicit tag or style on the same node
					if as, ok := nd.(*ast.AssignStmt); ok {
						for _, l := range as.Lhs {
							if s, ok := ast.Unparen(l).(*ast.SelectorExpr); ok && (s.Sel.Name == "Tag" || s.Sel.Name == "Style") && nodeVar != nil && identObj(info, s.X) == nodeVar {
								return 2
							}
						}
					}
					return st
				},
			})
			pending := in[g.Exit]&(1<<1) != 0
			for _, r := range g.returns() {
				if in[r]&(1<<1) != 0 && !g.isFailureReturn(r) {
					pending = true
				}
			}
			// loop back to a new element counts as leaving the scalar
			for _, n := range g.Nodes {
				if n.Kind.String() == "RangeLoop" && in[n.ID]&(1<<1) != 0 && g.reachableFrom(start)[n.ID] {
					pending = true
				}
			}
			c.check("v3.setstring-consults-quoting", fmt.Sprintf("%s#SetString%d", f.Name, nSet), g.pos(id), !pending,
				"after (*yaml.Node).SetString(s) every path must consult shouldQuote(s) or set an explicit tag/style before the node is done (an unquoted `no`, `1e3`, `~` or `0x1` reads back as a non-string)")
		}
	}
	c.expect("v3.setstring-consults-quoting", 2)

	// ---- goccy encoder: values
	es := c.fn(gp, "encodeScalar")
	g := c.graph(es)
	info := es.Info()
	var strVar types.Object
	for id, call := range g.callNodes("cue/literal.QuoteInfo.Unquote") {
		if as, ok := g.Nodes[id].N.(*ast.AssignStmt); ok && ast.Unparen(as.Rhs[0]) == call {
			strVar = identObj(info, as.Lhs[0])
		}
	}
	if strVar == nil {
		c.broken("anchor: goccy.encodeScalar no longer unquotes the literal into a variable")
	}
	plain := map[int]bool{}
	for _, r := range g.returns() {
		ret := g.Nodes[r].N.(*ast.ReturnStmt)
		if len(ret.Results) == 2 && identObj(info, ret.Results[0]) == strVar {
			plain[r] = true
		}
	}
	consult := g.callNodesWhere(func(cl *ast.CallExpr) bool {
		return len(cl.Args) == 1 && identObj(info, cl.Args[0]) == strVar
	}, gp+".quoteScalar")
	safe := func(e ast.Expr) (bool, bool) {
		cl, ok := e.(*ast.CallExpr)
		if !ok || calleeName(info, cl) != gp+".blockLiteralSafe" || len(cl.Args) != 1 || identObj(info, cl.Args[0]) != strVar {
			return false, false
		}
		return true, false
	}
	okPlain := len(plain) > 0
	for r := range plain {
		rr := g.reach([]int{g.Entry}, func(id int) bool { _, ok := consult[id]; return ok }, func(from int, e GEdge) bool {
			if e.Cond == nil {
				return false
			}
			p := atomOnEdge(e.Cond, e.Truth, safe)
			return p.present && p.good && !p.bad && !p.na
		})
		if rr[r] {
			okPlain = false
		}
	}
	c.check("goccy.plain-string-only-after-consult", es.Name, es.Decl.Pos(), okPlain && len(consult) > 0,
		"goccy.encodeScalar may return the bare string only behind the quoteScalar(str) consult or the blockLiteralSafe(str) test")
	// a non-empty quoteScalar result must be what is returned
	okQ := false
	for id, call := range consult {
		var q types.Object
		switch s := g.Nodes[id].N.(type) {
		case *ast.AssignStmt:
			if ast.Unparen(s.Rhs[0]) == call {
				q = identObj(info, s.Lhs[0])
			}
		}
		if q == nil {
			continue
		}
		nonEmpty := func(e ast.Expr) (bool, bool) {
			be, ok := e.(*ast.BinaryExpr)
			// the condition may name the variable or (looked through) the consult call itself
			if !ok || (be.Op.String() != "!=" && be.Op.String() != "==") || (identObj(info, be.X) != q && ast.Unparen(be.X) != ast.Expr(call)) {
				return false, false
			}
			if v, ok := constString(info, be.Y); !ok || v != "" {
				return false, false
			}
			return true, be.Op.String() == "!="
		}
		r := g.gate(nonEmpty, plain, nil, id)
		okQ = r.found && !r.leak && !r.bypass
	}
	c.check("goccy.quoted-result-used", es.Name, es.Decl.Pos(), okQ,
		"when quoteScalar(str) returns a quoted rendering, encodeScalar must not fall through to the plain string")

	// ---- goccy encoder: keys
	ed := c.fn(gp, "encodeDecls")
	gd := c.graph(ed)
	di := ed.Info()
	var nameVar types.Object
	var labelNode = -1
	for id, call := range gd.callNodes("cue/ast.LabelName") {
		if as, ok := gd.Nodes[id].N.(*ast.AssignStmt); ok && ast.Unparen(as.Rhs[0]) == call {
			nameVar = identObj(di, as.Lhs[0])
			labelNode = id
		}
	}
	emits := gd.find(func(n ast.Node) bool {
		found := false
		inspectShallow(n, func(x ast.Node) bool {
			if kv, ok := x.(*ast.KeyValueExpr); ok {
				if k, ok := kv.Key.(*ast.Ident); ok && k.Name == "Key" && nameVar != nil && identObj(di, kv.Value) == nameVar {
					found = true
				}
			}
			return true
		})
		return found
	})
	keyConsult := gd.callNodesWhere(func(cl *ast.CallExpr) bool {
		return len(cl.Args) == 1 && nameVar != nil && identObj(di, cl.Args[0]) == nameVar
	}, gp+".quoteScalar")
	okKey := labelNode >= 0 && len(emits) > 0 && len(keyConsult) > 0
	for _, e := range emits {
		r := gd.reach([]int{labelNode}, func(id int) bool { _, ok := keyConsult[id]; return ok }, nil)
		if r[e] {
			okKey = false
		}
	}
	// the quoted form is recorded in quotedKey
	rec := false
	ast.Inspect(ed.Body, func(n ast.Node) bool {
		if as, ok := n.(*ast.AssignStmt); ok && len(as.Lhs) == 1 {
			if s, ok := ast.Unparen(as.Lhs[0]).(*ast.SelectorExpr); ok && s.Sel.Name == "quotedKey" {
				if id, ok := ast.Unparen(as.Rhs[0]).(*ast.Ident); ok {
					// q := quoteScalar(name)
					for kid, call := range keyConsult {
						switch st := gd.Nodes[kid].N.(type) {
						case *ast.AssignStmt:
							if ast.Unparen(st.Rhs[0]) == call && identObj(di, st.Lhs[0]) == di.Uses[id] {
								rec = true
							}
						}
					}
				}
			}
		}
		return true
	})
	c.check("goccy.key-consults-quoting", ed.Name, ed.Decl.Pos(), okKey && rec,
		"a mapping key must be appended (yaml.MapItem{Key: name}) only after quoteScalar(name) was consulted, and a non-empty result must be recorded as the entry's quotedKey")
	// quotedKey is honoured when rendering
	used := fieldsUsed(c.pkgBodies(gp))
	okUsed := false
	if ei, ok := c.pkg(gp).Types.Scope().Lookup("encInfo").(*types.TypeName); ok {
		for _, fld := range structFields(ei) {
			if fld.Name() == "quotedKey" && used[fld.Origin()] {
				// read somewhere other than assignments
				reads := 0
				for _, f := range c.pkgBodies(gp) {
					ast.Inspect(f.Body, func(n ast.Node) bool {
						if s, ok := n.(*ast.SelectorExpr); ok && s.Sel.Name == "quotedKey" {
							reads++
						}
						return true
					})
				}
				okUsed = reads >= 4
			}
		}
	}
	c.check("goccy.quoted-key-rendered", gp+".encInfo.quotedKey", ed.Decl.Pos(), okUsed, "the recorded quotedKey must be consulted when the mapping is rendered")

	checkYAMLBytesBinary(c)
	c11NewlineTable(c)
	c11UnprintableAgreesWithEmitter(c)
	c11BlockLiteralNeedsContent(c)

	// ---- token kinds
	for _, spec := range []struct{ pkg, fn string }{{yp, "encodeScalar"}, {gp, "encodeScalar"}} {
		f := c.fn(spec.pkg, spec.fn)
		have := map[string]bool{}
		ast.Inspect(f.Body, func(n ast.Node) bool {
			cc, ok := n.(*ast.CaseClause)
			if !ok {
				return true
			}
			for _, e := range cc.List {
				if sel, ok := ast.Unparen(e).(*ast.SelectorExpr); ok {
					if k, ok := f.Info().Uses[sel.Sel].(*types.Const); ok && strings.HasSuffix(k.Type().String(), "token.Token") {
						have[k.Name()] = true
					}
				}
			}
			return true
		})
		for _, k := range []string{"INT", "FLOAT", "STRING", "TRUE", "FALSE", "NULL"} {
			c.check("scalar.kind-handled", f.Name+"/token."+k, f.Decl.Pos(), have[k], spec.fn+" must handle literal kind "+k)
		}
	}
}

// checkYAMLBytesBinary (shared by C11 and C12): bytes literals are always
// emitted as !!binary, in both YAML encoders.
func checkYAMLBytesBinary(c *Ctx) {
	const yp = "internal/encoding/yaml"
	const gp = "internal/encoding/yaml/goccy"
	es := c.fn(gp, "encodeScalar")
	// ---- bytes literals are always emitted as !!binary (goccy): decision
	// table row for the class "STRING literal that is not double-quoted"
	{
		cf := newCaseFn(c, es)
		truth := map[string]bool{}
		var dbl string
		for k := range cf.atoms() {
			switch {
			case strings.Contains(k, "p0.Kind") && strings.Contains(k, " == "):
				truth[k] = strings.Contains(k, "token.STRING")
			case strings.HasSuffix(k, ".IsDouble()"):
				dbl = k
				truth[k] = false
			case strings.HasSuffix(k, " == nil") && strings.Contains(k, "ParseQuotes"):
				truth[k] = true
			}
		}
		rets, _ := cf.walk(cf.g.Entry, truth)
		okB := dbl != "" && len(rets) > 0
		nSucc := 0
		for _, r := range rets {
			if !strings.HasSuffix(r, ", nil") {
				continue // error return
			}
			nSucc++
			if !strings.Contains(r, `"!!binary "`) {
				okB = false
			}
		}
		okB = okB && nSucc > 0
		c.check("goccy.bytes-always-binary", es.Name, es.Decl.Pos(), okB,
			"a bytes literal (not double-quoted) must be emitted as a !!binary scalar whatever its content — a bytes value with a newline emitted as text reads back as a string; reachable results for that class: {"+strings.Join(rets, " | ")+"}")
	}
	// same for the yaml.v3 encoder: the !!binary tag is set on every path of that class
	{
		f3 := c.fn(yp, "encodeScalar")
		cf := newCaseFn(c, f3)
		truth := map[string]bool{}
		var dbl string
		for k := range cf.atoms() {
			switch {
			case strings.Contains(k, "p0.Kind") && strings.Contains(k, " == "):
				truth[k] = strings.Contains(k, "token.STRING")
			case strings.HasSuffix(k, ".IsDouble()"):
				dbl = k
				truth[k] = false
			case strings.HasSuffix(k, " == nil") && (strings.Contains(k, "ParseQuotes") || strings.Contains(k, "Unquote")):
				truth[k] = true
			}
		}
		// every path of the class from the SetString to the exit passes `n.Tag = "!!binary"`
		tagNodes := map[int]bool{}
		for _, n := range cf.g.Nodes {
			if as, ok := n.N.(*ast.AssignStmt); ok && len(as.Lhs) == 1 && len(as.Rhs) == 1 {
				if sel, ok := as.Lhs[0].(*ast.SelectorExpr); ok && sel.Sel.Name == "Tag" {
					if v, ok := constString(f3.Info(), as.Rhs[0]); ok && v == "!!binary" {
						tagNodes[n.ID] = true
					}
				}
			}
		}
		rets, vis := cf.walkBlocked(cf.g.Entry, truth, tagNodes)
		okB := dbl != "" && len(tagNodes) > 0
		for _, r := range rets {
			if !strings.HasPrefix(r, "nil,") { // a success return reached without the tag
				okB = false
			}
		}
		_ = vis
		c.check("v3.bytes-always-binary", f3.Name, f3.Decl.Pos(), okB,
			"a bytes literal must get the !!binary tag on every path of the yaml.v3 encoder; success returns reachable without it: {"+strings.Join(rets, " | ")+"}")
	}

}

// c11NewlineTable: decision table of the goccy encoder for text (double-quoted
// CUE strings) that contains a newline: it is emitted as a block literal only
// when the literal was multi-line *and* blockLiteralSafe holds, otherwise as a
// double-quoted YAML scalar (strconv.Quote) — never as a plain scalar, which
// folds the newline into a space.
func c11NewlineTable(c *Ctx) {
	const gp = "internal/encoding/yaml/goccy"
	f := c.fn(gp, "encodeScalar")
	cf := newCaseFn(c, f)
	truth := map[string]bool{}
	var dbl, nl, multi, safe string
	for k := range cf.atoms() {
		switch {
		case strings.Contains(k, "p0.Kind") && strings.Contains(k, " == "):
			truth[k] = strings.Contains(k, "token.STRING")
		case strings.HasSuffix(k, ".IsDouble()"):
			dbl = k
		case strings.HasPrefix(k, "strings.Contains(") && strings.HasSuffix(k, `,"\n")`):
			nl = k
		case strings.HasSuffix(k, ".IsMulti()"):
			multi = k
		case strings.HasPrefix(k, "blockLiteralSafe("):
			safe = k
		case k == "err == nil":
			truth[k] = true
		}
	}
	if dbl == "" || nl == "" || multi == "" || safe == "" {
		c.check("goccy.newline-table", f.Name, f.Decl.Pos(), false, fmt.Sprintf("anchor: tests not found (IsDouble=%q newline=%q IsMulti=%q blockLiteralSafe=%q)", dbl, nl, multi, safe))
		return
	}
	for _, row := range []struct {
		name        string
		multi, safe bool
		wantQuoted  bool
	}{
		{"single-line-literal", false, true, true},
		{"multi-line-literal/unsafe", true, false, true},
		{"multi-line-literal/safe", true, true, false},
	} {
		tr := map[string]bool{dbl: true, nl: true, multi: row.multi, safe: row.safe}
		for k, v := range truth {
			tr[k] = v
		}
		rets, _ := cf.walk(cf.g.Entry, tr)
		ok := len(rets) > 0
		for _, r := range rets {
			if !strings.HasSuffix(r, ", nil") {
				continue
			}
			quoted := strings.Contains(r, "strconv.Quote(")
			plainOrBlock := !strings.Contains(r, "rawScalar(") && !strings.Contains(r, "literalString(")
			if row.wantQuoted && !quoted {
				ok = false
			}
			if !row.wantQuoted && !plainOrBlock {
				ok = false
			}
		}
		c.check("goccy.newline-table", f.Name+"/"+row.name, f.Decl.Pos(), ok,
			fmt.Sprintf("text containing a newline, class %s: %s; reachable results {%s}", row.name,
				map[bool]string{true: "must be emitted double-quoted (strconv.Quote)", false: "is emitted as a block literal (the bare string)"}[row.wantQuoted], strings.Join(rets, " | ")))
	}
}

// c11UnprintableAgreesWithEmitter: the goccy encoder is configured with
// UseSingleQuote(true); the library's single-quote writer copies a rune
// verbatim only if unicode.IsPrint holds and otherwise writes a backslash
// escape — which means nothing inside single quotes, so the reader gets a
// literal backslash sequence. The CUE-side predicate that sends strings to
// double quotes (yamlUnprintable) must therefore cover every rune the library
// would escape: it has to consult the same printability test.
func c11UnprintableAgreesWithEmitter(c *Ctx) {
	const gp = "internal/encoding/yaml/goccy"
	f := c.fn(gp, "yamlUnprintable")
	info := f.Info()
	consults := false
	ast.Inspect(f.Body, func(n ast.Node) bool {
		if call, ok := n.(*ast.CallExpr); ok {
			switch calleeName(info, call) {
			case "unicode.IsPrint", "strconv.IsPrint":
				consults = true
			}
		}
		return true
	})
	// the premise, read from the library source when it is loaded with syntax
	premise := "not verified (library source not loaded)"
	if lp := c.Pkgs["github.com/goccy/go-yaml"]; lp != nil && len(lp.Syntax) > 0 {
		found := false
		for _, file := range lp.Syntax {
			for _, d := range file.Decls {
				fd, ok := d.(*ast.FuncDecl)
				if !ok || fd.Body == nil || fd.Name.Name != "appendEscapedRune" {
					continue
				}
				ast.Inspect(fd.Body, func(n ast.Node) bool {
					if call, ok := n.(*ast.CallExpr); ok && exprString(call.Fun) == "unicode.IsPrint" {
						found = true
					}
					return true
				})
			}
		}
		if found {
			premise = "verified: goccy appendEscapedRune copies a rune verbatim only under unicode.IsPrint"
		} else {
			premise = "NOT confirmed in the loaded library source"
		}
	}
	// UseSingleQuote(true) is what makes the premise matter
	single := false
	for _, fn := range c.funcs(c.pkg(gp)) {
		ast.Inspect(fn.Body, func(n ast.Node) bool {
			if call, ok := n.(*ast.CallExpr); ok && strings.HasSuffix(exprString(call.Fun), "UseSingleQuote") && len(call.Args) == 1 && exprString(call.Args[0]) == "true" {
				single = true
			}
			return true
		})
	}
	c.check("goccy.unprintable-agrees-with-emitter", f.Name, f.Decl.Pos(), consults || !single,
		"yamlUnprintable decides which strings must be double-quoted; with UseSingleQuote(true) the library writes backslash escapes for every rune that is not unicode.IsPrint *inside single quotes* (where they are literal text), so the predicate must consult unicode.IsPrint/strconv.IsPrint itself ("+premise+")")
}

// c11BlockLiteralNeedsContent: a YAML literal block scalar (`|`) whose body has
// no content line reads back as the empty string, and a body whose first
// content line is indented needs an explicit indentation indicator the
// emitter does not write. blockLiteralSafe may therefore answer true only
// after looking at the string with its leading newlines removed (first
// content line present and not indented): "\n" must not be emitted as `|`
// followed by an empty line.
func c11BlockLiteralNeedsContent(c *Ctx) {
	const gp = "internal/encoding/yaml/goccy"
	f := c.fn(gp, "blockLiteralSafe")
	g := c.graph(f)
	info := f.Info()
	trims := map[int]bool{}
	for _, n := range g.Nodes {
		visit := func(x ast.Node) {
			ast.Inspect(x, func(y ast.Node) bool {
				if call, ok := y.(*ast.CallExpr); ok {
					switch calleeName(info, call) {
					case "strings.Trim", "strings.TrimLeft", "strings.TrimPrefix", "strings.TrimFunc":
						if len(call.Args) == 2 {
							if v, ok := constString(info, call.Args[1]); ok && strings.Contains(v, "\n") {
								trims[n.ID] = true
							}
						}
					}
				}
				return true
			})
		}
		if n.N != nil {
			visit(n.N)
		}
		for _, e := range n.Succs {
			if e.Cond != nil {
				visit(e.Cond)
			}
		}
	}
	ok := len(trims) > 0
	for _, r := range g.returns() {
		rs := g.Nodes[r].N.(*ast.ReturnStmt)
		if len(rs.Results) == 1 && exprString(rs.Results[0]) == "false" {
			continue
		}
		if !g.mustPassNode(r, trims) {
			ok = false
		}
	}
	c.check("goccy.block-literal-needs-content-line", f.Name, f.Decl.Pos(), ok,
		"blockLiteralSafe may report a string as safe for a literal block scalar only after examining it with the leading newlines removed (a content line must exist and must not be indented): `a: \"\\n\"` emitted as `a: |` plus an empty line reads back as \"\"")
}
