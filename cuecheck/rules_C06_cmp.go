package main

import (
	"fmt"
	"go/ast"
	"strings"
)

// Ordering comparisons of scalars (C06: "comparison operators order numbers by
// value"): adt.cmpTonode turns the three-way result r of a Compare into the
// boolean of the operator. For each operator class the assignment reached is
// evaluated, three-valued, for r = -1, 0, +1; the row must be the operator's
// truth table. All callers must pass Compare(left, right) in that order.
func checkC06Compare(c *Ctx) {
	f := c.fn(adtP, "cmpTonode")
	cf := newCaseFn(c, f)
	info := f.Info()
	ops := []string{"LessThanOp", "LessEqualOp", "EqualOp", "NotEqualOp", "GreaterEqualOp", "GreaterThanOp"}
	table := map[string][3]bool{ // r = -1, 0, +1
		"LessThanOp": {true, false, false}, "LessEqualOp": {true, true, false},
		"EqualOp": {false, true, false}, "NotEqualOp": {true, false, true},
		"GreaterEqualOp": {false, true, true}, "GreaterThanOp": {false, false, true},
	}
	allOps := map[string]bool{}
	for k := range cf.atoms() {
		if strings.HasSuffix(k, " == p1") {
			allOps[k] = true
		}
	}
	var resultObj = func() any {
		var o any
		ast.Inspect(f.Body, func(n ast.Node) bool {
			if as, ok := n.(*ast.AssignStmt); ok && as.Tok.String() == ":=" && len(as.Lhs) == 1 {
				if id, ok := as.Lhs[0].(*ast.Ident); ok && id.Name == "result" {
					o = info.Defs[id]
				}
			}
			return true
		})
		return o
	}()
	rel := func(r int) map[string]bool {
		return map[string]bool{
			"-1 == p2": r == -1, "0 == p2": r == 0, "1 == p2": r == 1,
			"p2 < 0": r < 0, "0 < p2": r > 0, "p2 < 1": r < 1, "-1 < p2": r > -1, "p2 < -1": false, "1 < p2": false,
		}
	}
	for _, op := range ops {
		truth := map[string]bool{}
		for k := range allOps {
			truth[k] = k == eqKey(op, "p1")
		}
		_, vis := cf.walk(cf.g.Entry, truth)
		var rhs []ast.Expr
		for id := range vis {
			as, ok := cf.g.Nodes[id].N.(*ast.AssignStmt)
			if !ok || as.Tok.String() != "=" || len(as.Lhs) != 1 || len(as.Rhs) != 1 {
				continue
			}
			if o := identObj(info, as.Lhs[0]); o != nil && any(o) == resultObj {
				rhs = append(rhs, as.Rhs[0])
			}
		}
		ok := len(rhs) == 1 && allOps[eqKey(op, "p1")]
		det := fmt.Sprintf("%d assignments to result reached", len(rhs))
		if ok {
			var got [3]string
			for i, r := range []int{-1, 0, 1} {
				switch cf.eval(rhs[0], rel(r)) {
				case triTrue:
					got[i] = "true"
				case triFalse:
					got[i] = "false"
				default:
					got[i] = "?"
				}
				if got[i] != fmt.Sprint(table[op][i]) {
					ok = false
				}
			}
			det = fmt.Sprintf("`%s` gives (%s, %s, %s) for r = -1, 0, +1; the operator requires (%v, %v, %v)", cf.canon(rhs[0]), got[0], got[1], got[2], table[op][0], table[op][1], table[op][2])
		}
		c.check("compare.result-table", f.Name+"/"+op, f.Decl.Pos(), ok,
			"cmpTonode must map the three-way comparison result to the operator's truth table: "+det)
	}
	// callers: Compare(left, right), in that order, with the operator passed through
	b := c.fn(adtP, "BinOp")
	bf := newCaseFn(c, b)
	n := 0
	ast.Inspect(b.Body, func(x ast.Node) bool {
		call, ok := x.(*ast.CallExpr)
		if !ok || calleeName(b.Info(), call) != adtP+".cmpTonode" || len(call.Args) != 3 {
			return true
		}
		n++
		r := bf.canon(call.Args[2])
		l, rr := strings.Index(r, "p3"), strings.Index(r, "p4")
		okc := bf.canon(call.Args[1]) == "p2" && l >= 0 && rr > l && strings.Count(r, "p3") == 1 && strings.Count(r, "p4") == 1
		// operands are taken through the exact accessor of their kind: ToString
		// repairs invalid UTF-8 (lossy) and must not feed a comparison
		if strings.Contains(r, ".ToString(") || strings.Contains(r, ".ToBytes(") {
			okc = false
		}
		c.check("compare.operand-order", fmt.Sprintf("%s#cmp%d", b.Name, n), call.Pos(), okc,
			"every comparison in BinOp must pass its own operator and Compare(left, right) — left first, each operand once, through the exact accessor of its kind (Num, StringValue/stringValue, bytesValue; never the lossy ToString) — to cmpTonode; found "+r)
		// numbers are ordered by apd alone: the three-way result of a numeric
		// comparison is (*apd.Decimal).Cmp, directly or through a function
		// that only delegates to it with the operands in order
		if strings.Contains(r, ".Num(") {
			callee, okd := "a non-call expression", false
			if cmpCall, ok := ast.Unparen(call.Args[2]).(*ast.CallExpr); ok {
				callee = calleeName(b.Info(), cmpCall)
				okd = strings.HasSuffix(callee, "apd/v3.(*Decimal).Cmp") || c06PureDelegate(c, callee)
			}
			c.check("compare.numbers-ordered-by-apd", fmt.Sprintf("%s#cmp%d", b.Name, n), call.Pos(), okd,
				"the order of two numbers is decided by (*apd.Decimal).Cmp only (directly or through a function whose whole body delegates to it, receiver first); found "+callee)
		}
		return true
	})
	c.expect("compare.operand-order", 9)
	c.expect("compare.numbers-ordered-by-apd", 3)
}

// c06PureDelegate: the function's body is a single `return recv.X.Cmp(&arg.X)`.
func c06PureDelegate(c *Ctx, callee string) bool {
	if !strings.HasPrefix(callee, adtP+".") {
		return false
	}
	f := c.fnOpt(adtP, strings.TrimPrefix(callee, adtP+"."))
	if f == nil || len(f.Body.List) != 1 {
		return false
	}
	ret, ok := f.Body.List[0].(*ast.ReturnStmt)
	if !ok || len(ret.Results) != 1 {
		return false
	}
	call, ok := ast.Unparen(ret.Results[0]).(*ast.CallExpr)
	if !ok || !strings.HasSuffix(calleeName(f.Info(), call), "apd/v3.(*Decimal).Cmp") {
		return false
	}
	// receiver first
	if f.Decl.Recv == nil || len(f.Decl.Recv.List) != 1 || len(f.Decl.Recv.List[0].Names) != 1 {
		return false
	}
	recv := f.Decl.Recv.List[0].Names[0].Name
	sel, ok := ast.Unparen(call.Fun).(*ast.SelectorExpr)
	return ok && strings.HasPrefix(exprString(sel.X), recv+".")
}

// checkC06DivRegistry: the four integer division builtins agree, through the
// three layers that name them, on which big-integer operation they are: div and
// mod are the Euclidean pair (math/big Div, Mod), quo and rem the truncated
// pair (Quo, Rem), operands passed in order at every layer.
func checkC06DivRegistry(c *Ctx) {
	want := map[string]string{"div": "Div", "mod": "Mod", "quo": "Quo", "rem": "Rem"}
	cp := c.pkg("internal/core/compile")
	found := map[string]bool{}
	for _, file := range cp.Syntax {
		ast.Inspect(file, func(n ast.Node) bool {
			cl, ok := n.(*ast.CompositeLit)
			if !ok {
				return true
			}
			name := ""
			var fn *ast.FuncLit
			for _, el := range cl.Elts {
				kv, ok := el.(*ast.KeyValueExpr)
				if !ok {
					continue
				}
				switch exprString(kv.Key) {
				case "Name":
					name, _ = constString(cp.TypesInfo, kv.Value)
				case "Func":
					fn, _ = kv.Value.(*ast.FuncLit)
				}
			}
			op, isDiv := want[name]
			if !isDiv || fn == nil {
				return true
			}
			found[name] = true
			okB := false
			det := "no call of intDivOp"
			ast.Inspect(fn.Body, func(m ast.Node) bool {
				call, ok := m.(*ast.CallExpr)
				if !ok || calleeName(cp.TypesInfo, call) != "internal/core/compile.intDivOp" || len(call.Args) != 5 {
					return true
				}
				meth := ""
				if sel, ok := ast.Unparen(call.Args[1]).(*ast.SelectorExpr); ok {
					meth = sel.Sel.Name
				}
				a0, a1 := exprString(call.Args[3]), exprString(call.Args[4])
				okB = meth == "Int"+op && strings.HasSuffix(a0, ".Value(0)") && strings.HasSuffix(a1, ".Value(1)")
				det = fmt.Sprintf("calls intDivOp(%s, %s, %s)", meth, a0, a1)
				return true
			})
			c.check("division.registry-agrees", "compile/"+name, cl.Pos(), okB,
				fmt.Sprintf("builtin %q must evaluate (*OpContext).Int%s on (argument 0, argument 1); %s", name, op, det))
			return true
		})
	}
	for name := range want {
		if !found[name] {
			c.check("division.registry-agrees", "compile/"+name, 0, false, "anchor: builtin "+name+" not found in internal/core/compile")
		}
	}
	// compile.intDivOp passes (a, b) in order
	if f := c.fn("internal/core/compile", "intDivOp"); f != nil {
		cf := newCaseFn(c, f)
		rets, _ := cf.walk(cf.g.Entry, map[string]bool{"p0.HasErr()": false})
		c.check("division.registry-agrees", f.Name, f.Decl.Pos(), strings.Join(rets, "|") == "p1(p0,p0.Num(p3,p2),p0.Num(p4,p2))",
			"compile.intDivOp must apply the operation to (first argument, second argument) in that order; found "+strings.Join(rets, "|"))
	}
	for name, op := range want {
		_ = name
		f := c.fn(adtP, "(*OpContext).Int"+op)
		cf := newCaseFn(c, f)
		rets, _ := cf.walk(cf.g.Entry, nil)
		wantRet := "intDivOp(recv,(*apd.BigInt)." + op + ",p0,p1)"
		got := strings.Join(rets, "|")
		got = strings.ReplaceAll(got, "*apd.BigInt."+op, "(*apd.BigInt)."+op)
		c.check("division.registry-agrees", f.Name, f.Decl.Pos(), got == wantRet || strings.ReplaceAll(got, "((*apd.BigInt)", "(*apd.BigInt") == wantRet,
			fmt.Sprintf("Int%s must be intDivOp with big-integer %s on (a, b): Div/Mod are the Euclidean pair, Quo/Rem the truncated pair; found %s", op, op, got))
	}
	// adt.intDivOp applies fn to (|a| signed, |b| signed) in order
	f := c.fn(adtP, "intDivOp")
	okOrder := false
	det := ""
	ast.Inspect(f.Body, func(n ast.Node) bool {
		call, ok := n.(*ast.CallExpr)
		if !ok || exprString(call.Fun) != "fn" || len(call.Args) != 3 {
			return true
		}
		det = exprString(call.Args[1]) + ", " + exprString(call.Args[2])
		// x is rounded from a, y from b
		src := map[string]string{}
		ast.Inspect(f.Body, func(m ast.Node) bool {
			rc, ok := m.(*ast.CallExpr)
			if ok && strings.HasSuffix(exprString(rc.Fun), "RoundToIntegralValue") && len(rc.Args) == 2 {
				src[strings.TrimPrefix(exprString(rc.Args[0]), "&")] = strings.TrimPrefix(exprString(rc.Args[1]), "&")
			}
			return true
		})
		x := strings.TrimSuffix(strings.TrimPrefix(exprString(call.Args[1]), "&"), ".Coeff")
		y := strings.TrimSuffix(strings.TrimPrefix(exprString(call.Args[2]), "&"), ".Coeff")
		pa, pb := f.Type.Params.List[len(f.Type.Params.List)-1].Names[0].Name, f.Type.Params.List[len(f.Type.Params.List)-1].Names[1].Name
		okOrder = src[x] == pa+".X" && src[y] == pb+".X"
		det += fmt.Sprintf(" where %s<-%s, %s<-%s", x, src[x], y, src[y])
		return true
	})
	c.check("division.registry-agrees", f.Name, f.Decl.Pos(), okOrder,
		"adt.intDivOp must apply the big-integer operation to (dividend, divisor) = (a, b) in that order; found fn(_, "+det+")")
}
