package main

import (
	"fmt"
	"go/ast"
	"go/token"
	"go/types"
	"sort"
	"strings"
)

// ---------------------------------------------------------------------------
// E2: lockset (must-hold) analysis on the statement graph.

type lockInfo struct {
	g     *Graph
	locks []string // lock keys; index = bit
	in    []uint64 // possible held-sets (each a bitmask over locks) on entry of each node, as a set of states
	// write-held: RLock counts as read lock only
	rbit map[string]int
}

var lockOps = map[string]int{
	"sync.(*Mutex).Lock": +1, "sync.(*Mutex).Unlock": -1, "sync.(*Mutex).TryLock": 0,
	"sync.(*RWMutex).Lock": +1, "sync.(*RWMutex).Unlock": -1,
	"sync.(*RWMutex).RLock": +2, "sync.(*RWMutex).RUnlock": -2,
}

// lockKey identifies a mutex by the text of its receiver expression.
func lockKey(call *ast.CallExpr) string {
	sel, ok := ast.Unparen(call.Fun).(*ast.SelectorExpr)
	if !ok {
		return ""
	}
	return exprString(sel.X)
}

func (c *Ctx) locksets(f *Fn) *lockInfo {
	g := c.graph(f)
	info := f.Info()
	li := &lockInfo{g: g}
	idx := map[string]int{}
	type op struct {
		bit int
		d   int
	}
	ops := map[int][]op{}
	for _, n := range g.Nodes {
		if n.N == nil {
			continue
		}
		if _, isDefer := n.N.(*ast.DeferStmt); isDefer {
			continue // a deferred unlock keeps the lock to the exit
		}
		for _, call := range callsIn(n.N, false) {
			d, ok := lockOps[calleeName(info, call)]
			if !ok || d == 0 {
				continue
			}
			k := lockKey(call)
			if d == 2 || d == -2 {
				k += "#r"
			}
			if _, ok := idx[k]; !ok {
				idx[k] = len(li.locks)
				li.locks = append(li.locks, k)
			}
			ops[n.ID] = append(ops[n.ID], op{idx[k], d})
		}
	}
	if len(li.locks) > 6 {
		c.broken("lockset: more than 6 distinct locks in %s", f.Name)
	}
	li.in = g.run(Automaton{
		Init: 0,
		OnNode: func(id, st int) int {
			for _, o := range ops[id] {
				if o.d > 0 {
					st |= 1 << uint(o.bit)
				} else {
					st &^= 1 << uint(o.bit)
				}
			}
			return st
		},
	})
	li.rbit = idx
	return li
}

// held reports whether lock key is certainly held on entry of node id
// (write lock; with read=true a read lock suffices).
func (li *lockInfo) held(id int, key string, read bool) bool {
	states := li.in[id]
	if states == 0 {
		return true // unreachable
	}
	wb, wok := li.rbit[key]
	rb, rok := li.rbit[key+"#r"]
	for st := 0; st < 64; st++ {
		if states&(1<<uint(st)) == 0 {
			continue
		}
		h := wok && st&(1<<uint(wb)) != 0
		if read && rok && st&(1<<uint(rb)) != 0 {
			h = true
		}
		if !h {
			return false
		}
	}
	return true
}

// anyHeld returns the lock keys certainly held on entry of node id.
func (li *lockInfo) allHeld(id int) []string {
	var out []string
	for _, k := range li.locks {
		k = strings.TrimSuffix(k, "#r")
		if li.held(id, k, true) {
			out = append(out, k)
		}
	}
	return out
}

// ---------------------------------------------------------------------------
// E3: capture discipline of concurrently executed closures.

var concurrencySafeTypes = map[string]bool{
	"sync.Mutex": true, "sync.RWMutex": true, "sync.WaitGroup": true, "sync.Once": true, "sync.Map": true, "sync.Cond": true, "sync.Pool": true,
	"sync/atomic.Bool": true, "sync/atomic.Int32": true, "sync/atomic.Int64": true, "sync/atomic.Uint32": true, "sync/atomic.Uint64": true,
	"sync/atomic.Pointer": true, "sync/atomic.Value": true,
	"cuelang.org/go/internal/par.Work": true, "cuelang.org/go/internal/par.Queue": true, "cuelang.org/go/internal/par.Cache": true, "cuelang.org/go/internal/par.ErrCache": true,
	"context.Context": true,
}

func typeKey(t types.Type) string {
	for {
		if p, ok := t.(*types.Pointer); ok {
			t = p.Elem()
			continue
		}
		break
	}
	if n, ok := t.(*types.Named); ok {
		o := n.Obj()
		if o.Pkg() != nil {
			return o.Pkg().Path() + "." + o.Name()
		}
		return o.Name()
	}
	return t.String()
}

func isConcurrencySafe(t types.Type) bool {
	if concurrencySafeTypes[typeKey(t)] {
		return true
	}
	switch t.Underlying().(type) {
	case *types.Chan:
		return true
	}
	return false
}

type capturedUse struct {
	Var     *types.Var
	Node    int // graph node of the closure
	Pos     token.Pos
	Kind    string // read | write | mutcall | addr | indexwrite
	Expr    string
	IdxIter bool // an element write indexed by a per-closure value
}

// rootIdent returns the identifier at the root of a selector/index/star chain.
func rootIdent(e ast.Expr) *ast.Ident {
	for {
		switch x := ast.Unparen(e).(type) {
		case *ast.Ident:
			return x
		case *ast.SelectorExpr:
			e = x.X
		case *ast.IndexExpr:
			e = x.X
		case *ast.StarExpr:
			e = x.X
		case *ast.SliceExpr:
			e = x.X
		case *ast.CallExpr:
			return nil
		default:
			return nil
		}
	}
}

// capturedUses lists the uses, inside closure lit, of variables declared in
// the enclosing function outside the closure.
func (c *Ctx) capturedUses(lit *Fn) []capturedUse {
	info := lit.Info()
	g := c.graph(lit)
	isCaptured := func(o types.Object) *types.Var {
		v, ok := o.(*types.Var)
		if !ok || v.IsField() || v.Pkg() == nil {
			return nil
		}
		if v.Parent() == v.Pkg().Scope() {
			return nil // package-level: handled by the global-state rule
		}
		p := v.Pos()
		if p >= lit.Lit.Pos() && p <= lit.Lit.End() {
			return nil // declared inside the closure
		}
		if p < lit.Decl.Pos() || p > lit.Decl.End() {
			return nil
		}
		return v
	}
	var out []capturedUse
	for _, n := range g.Nodes {
		if n.N == nil {
			continue
		}
		writes := map[*ast.Ident]string{}
		mark := func(e ast.Expr, kind string) {
			if id := rootIdent(e); id != nil {
				if _, isIdent := ast.Unparen(e).(*ast.Ident); !isIdent && kind == "write" {
					kind = "indexwrite"
				}
				writes[id] = kind
			}
		}
		switch s := n.N.(type) {
		case *ast.AssignStmt:
			for _, l := range s.Lhs {
				mark(l, "write")
			}
		case *ast.IncDecStmt:
			mark(s.X, "write")
		case *ast.RangeStmt:
		}
		inspectShallow(n.N, func(x ast.Node) bool {
			switch e := x.(type) {
			case *ast.UnaryExpr:
				if e.Op == token.AND {
					if id := rootIdent(e.X); id != nil {
						if _, done := writes[id]; !done {
							writes[id] = "addr"
						}
					}
				}
			case *ast.CallExpr:
				if sel, ok := ast.Unparen(e.Fun).(*ast.SelectorExpr); ok {
					if s := info.Selections[sel]; s != nil && s.Kind() == types.MethodVal {
						recvT := s.Recv()
						fnObj, _ := s.Obj().(*types.Func)
						if _, isIface := recvT.Underlying().(*types.Interface); !isIface && !isConcurrencySafe(recvT) && c.methodMutatesReceiver(fnObj, 0) {
							if id := rootIdent(sel.X); id != nil {
								if _, done := writes[id]; !done {
									writes[id] = "mutcall"
								}
							}
						}
					}
				}
				if nm := calleeName(info, e); nm == "delete" || nm == "clear" {
					if len(e.Args) > 0 {
						if id := rootIdent(e.Args[0]); id != nil {
							writes[id] = "write"
						}
					}
				}
			}
			return true
		})
		inspectShallow(n.N, func(x ast.Node) bool {
			id, ok := x.(*ast.Ident)
			if !ok {
				return true
			}
			v := isCaptured(info.Uses[id])
			if v == nil {
				return true
			}
			kind := "read"
			if k, ok := writes[id]; ok {
				kind = k
			}
			out = append(out, capturedUse{Var: v, Node: n.ID, Pos: id.Pos(), Kind: kind, Expr: id.Name})
			return true
		})
	}
	return out
}

// perIteration reports whether v is declared by a for/range statement (or in
// its body) that encloses the closure: each iteration then has its own copy.
func perIteration(outer *Fn, lit *ast.FuncLit, v *types.Var) bool {
	found := false
	ast.Inspect(outer.Decl.Body, func(n ast.Node) bool {
		var body *ast.BlockStmt
		var start token.Pos
		switch s := n.(type) {
		case *ast.RangeStmt:
			body, start = s.Body, s.Pos()
		case *ast.ForStmt:
			body, start = s.Body, s.Pos()
		default:
			return true
		}
		if body.Pos() <= lit.Pos() && lit.End() <= body.End() && v.Pos() >= start && v.Pos() <= body.End() {
			found = true
		}
		return true
	})
	return found
}

// concurrentClosures returns the function literals of outer that may run
// concurrently with each other or with outer: literals passed to a spawn
// primitive or started with `go`, and local closures they call.
func (c *Ctx) concurrentClosures(outer *Fn, spawners map[string]bool) []*Fn {
	info := outer.Info()
	lits := c.lits(outer)
	byLit := map[*ast.FuncLit]*Fn{}
	for _, l := range lits {
		byLit[l.Lit] = l
	}
	// local closure variables: v := func(...) {...}
	localFn := map[types.Object]*ast.FuncLit{}
	ast.Inspect(outer.Decl.Body, func(n ast.Node) bool {
		if as, ok := n.(*ast.AssignStmt); ok && len(as.Lhs) == len(as.Rhs) {
			for i, r := range as.Rhs {
				if l, ok := ast.Unparen(r).(*ast.FuncLit); ok {
					if o := identObj(info, as.Lhs[i]); o != nil {
						localFn[o] = l
					}
				}
			}
		}
		return true
	})
	conc := map[*ast.FuncLit]bool{}
	ast.Inspect(outer.Decl.Body, func(n ast.Node) bool {
		switch s := n.(type) {
		case *ast.GoStmt:
			if l, ok := ast.Unparen(s.Call.Fun).(*ast.FuncLit); ok {
				conc[l] = true
			}
			if o := identObj(info, s.Call.Fun); o != nil && localFn[o] != nil {
				conc[localFn[o]] = true
			}
		case *ast.CallExpr:
			if spawners[calleeName(info, s)] {
				for _, a := range s.Args {
					if l, ok := ast.Unparen(a).(*ast.FuncLit); ok {
						conc[l] = true
					}
					if o := identObj(info, a); o != nil && localFn[o] != nil {
						conc[localFn[o]] = true
					}
				}
			}
		}
		return true
	})
	// transitive: local closures called from concurrent closures
	for changed := true; changed; {
		changed = false
		for l := range conc {
			ast.Inspect(l.Body, func(n ast.Node) bool {
				if call, ok := n.(*ast.CallExpr); ok {
					if o := identObj(info, call.Fun); o != nil && localFn[o] != nil && !conc[localFn[o]] {
						conc[localFn[o]] = true
						changed = true
					}
				}
				// nested literal inside a concurrent closure runs in its context
				if nl, ok := n.(*ast.FuncLit); ok && nl != l && !conc[nl] {
					conc[nl] = true
					changed = true
				}
				return true
			})
		}
	}
	var out []*Fn
	for _, l := range lits {
		if conc[l.Lit] {
			out = append(out, l)
			c.analysed[l.Name] = true
		}
	}
	return out
}

var defaultSpawners = map[string]bool{
	"internal/par.(*Work).Do": true, "internal/par.(*Queue).Add": true,
	"golang.org/x/sync/errgroup.(*Group).Go": true,
}

// checkCaptureDiscipline emits one obligation per (closure, shared variable):
// a captured variable that is written by some concurrent closure must, at all
// of its uses in concurrent closures, be accessed under a common mutex, be of
// a concurrency-safe type, be a per-iteration variable, or be an element
// write indexed by a per-iteration value.
func (c *Ctx) checkCaptureDiscipline(rule string, outer *Fn, exempt map[string]string) int {
	closures := c.concurrentClosures(outer, defaultSpawners)
	type useAt struct {
		lit *Fn
		u   capturedUse
		li  *lockInfo
	}
	byVar := map[*types.Var][]useAt{}
	for _, l := range closures {
		li := c.locksets(l)
		for _, u := range c.capturedUses(l) {
			byVar[u.Var] = append(byVar[u.Var], useAt{l, u, li})
		}
	}
	var vars []*types.Var
	for v := range byVar {
		vars = append(vars, v)
	}
	sort.Slice(vars, func(i, j int) bool { return vars[i].Pos() < vars[j].Pos() })
	n := 0
	for _, v := range vars {
		uses := byVar[v]
		written := false
		for _, u := range uses {
			if u.u.Kind != "read" {
				written = true
			}
		}
		if !written {
			continue // read-only in all concurrent closures
		}
		if isConcurrencySafe(v.Type()) {
			continue
		}
		name := fmt.Sprintf("%s/var:%s", outer.Name, v.Name())
		if why, ok := exempt[v.Name()]; ok {
			n++
			c.check(rule, name, v.Pos(), true, "exempt: "+why)
			continue
		}
		// per-iteration variables are private to one closure instance
		allPrivate := true
		for _, u := range uses {
			if !perIteration(outer, u.lit.Lit, v) {
				allPrivate = false
			}
		}
		if allPrivate {
			continue
		}
		// common lock over all uses
		var common map[string]bool
		var bad []string
		for _, u := range uses {
			held := u.li.allHeld(u.u.Node)
			if u.u.Kind == "indexwrite" && c.indexIsPrivate(outer, u.lit, u.u) {
				continue
			}
			hs := map[string]bool{}
			for _, h := range held {
				hs[h] = true
			}
			if len(hs) == 0 {
				bad = append(bad, fmt.Sprintf("%s %s at %s without a lock", u.u.Kind, v.Name(), c.pos(u.u.Pos)))
			}
			if common == nil {
				common = hs
			} else {
				for k := range common {
					if !hs[k] {
						delete(common, k)
					}
				}
			}
		}
		ok := len(bad) == 0 && (common == nil || len(common) > 0)
		det := fmt.Sprintf("captured variable %s is written in a concurrently executed closure; every access must hold a common mutex", v.Name())
		if len(bad) > 0 {
			det += ": " + strings.Join(bad, "; ")
		} else if !ok {
			det += ": accesses hold different locks"
		} else if common != nil {
			var ks []string
			for k := range common {
				ks = append(ks, k)
			}
			sort.Strings(ks)
			det += " (held: " + strings.Join(ks, ",") + ")"
		}
		n++
		c.check(rule, name, v.Pos(), ok, det)
	}
	return n
}

// indexIsPrivate: the use is `v[i] = …` / `v[i].f = …` where i is a
// parameter of the closure or a per-iteration variable.
func (c *Ctx) indexIsPrivate(outer *Fn, lit *Fn, u capturedUse) bool {
	info := lit.Info()
	g := c.graph(lit)
	as, ok := g.Nodes[u.Node].N.(*ast.AssignStmt)
	if !ok {
		return false
	}
	for _, l := range as.Lhs {
		var ix *ast.IndexExpr
		e := ast.Unparen(l)
		for ix == nil {
			switch x := e.(type) {
			case *ast.IndexExpr:
				ix = x
			case *ast.SelectorExpr:
				e = ast.Unparen(x.X)
			default:
				return false
			}
		}
		if id := rootIdent(ix.X); id == nil || info.Uses[id] != u.Var {
			continue
		}
		// only slice/array elements are disjoint memory; map writes never are
		switch info.TypeOf(ix.X).Underlying().(type) {
		case *types.Slice, *types.Array:
		default:
			return false
		}
		iv, ok := identObj(info, ix.Index).(*types.Var)
		if !ok {
			return false
		}
		if isParamOf(lit, iv) && iv.Pos() >= lit.Lit.Pos() {
			return true
		}
		return perIteration(outer, lit.Lit, iv)
	}
	return false
}

// ---------------------------------------------------------------------------
// guarded-by for struct fields inside methods (E2)

// checkGuardedFields verifies that every access to the listed fields of the
// receiver type inside the package's functions happens with the given mutex
// field held. callerHolds lists functions that touch the fields without
// locking and are accepted if all their call sites hold the lock.
func (c *Ctx) checkGuardedFields(rule, pkgRel, typeName string, fields []string, mutexField string, constructors map[string]bool) int {
	p := c.pkg(pkgRel)
	fset := map[string]bool{}
	for _, f := range fields {
		fset[f] = true
	}
	type access struct {
		fn   *Fn
		node int
		pos  token.Pos
		fld  string
		recv string
		held bool
	}
	var accs []access
	unlocked := map[string][]access{}
	all := c.funcs(p)
	var bodies []*Fn
	for _, f := range all {
		bodies = append(bodies, f)
		bodies = append(bodies, c.lits(f)...)
	}
	for _, f := range bodies {
		if constructors[strings.TrimPrefix(f.Name, pkgRel+".")] {
			continue
		}
		info := f.Info()
		g := c.graph(f)
		var li *lockInfo
		for _, n := range g.Nodes {
			if n.N == nil {
				continue
			}
			inspectShallow(n.N, func(x ast.Node) bool {
				sel, ok := x.(*ast.SelectorExpr)
				if !ok || !fset[sel.Sel.Name] {
					return true
				}
				s := info.Selections[sel]
				if s == nil || s.Kind() != types.FieldVal {
					return true
				}
				if tk := typeKey(s.Recv()); !strings.HasSuffix(tk, "."+typeName) {
					return true
				}
				if li == nil {
					li = c.locksets(f)
				}
				recv := exprString(sel.X)
				a := access{fn: f, node: n.ID, pos: sel.Pos(), fld: sel.Sel.Name, recv: recv,
					held: li.held(n.ID, recv+"."+mutexField, false) || li.held(n.ID, recv+"."+mutexField, true)}
				accs = append(accs, a)
				if !a.held {
					unlocked[f.Name] = append(unlocked[f.Name], a)
				}
				return true
			})
		}
	}
	n := 0
	byFn := map[string]bool{}
	for _, a := range accs {
		if byFn[a.fn.Name] {
			continue
		}
		byFn[a.fn.Name] = true
		bad := unlocked[a.fn.Name]
		ok := len(bad) == 0
		det := fmt.Sprintf("fields %v of %s must be accessed with %s held", fields, typeName, mutexField)
		if !ok {
			// accept if every call site of this function holds the lock
			if c.allCallersHold(p, all, a.fn, mutexField) {
				ok = true
				det += " (not locked here; every call site holds the lock)"
			} else {
				det += fmt.Sprintf(": unguarded access to %s.%s at %s", bad[0].recv, bad[0].fld, c.pos(bad[0].pos))
			}
		}
		n++
		c.check(rule, a.fn.Name+"/"+typeName, a.fn.Body.Pos(), ok, det)
	}
	return n
}

func (c *Ctx) allCallersHold(p interface{}, all []*Fn, target *Fn, mutexField string) bool {
	if target.Lit != nil || target.Obj == nil {
		return false
	}
	sites := 0
	for _, f := range all {
		bodies := append([]*Fn{f}, c.lits(f)...)
		for _, b := range bodies {
			g := c.graph(b)
			info := b.Info()
			var li *lockInfo
			for _, n := range g.Nodes {
				if n.N == nil {
					continue
				}
				for _, call := range callsIn(n.N, true) {
					if o, ok := calleeObj(info, call).(*types.Func); !ok || o.Origin() != target.Obj.Origin() {
						continue
					}
					sites++
					sel, ok := ast.Unparen(call.Fun).(*ast.SelectorExpr)
					if !ok {
						return false
					}
					if li == nil {
						li = c.locksets(b)
					}
					if !li.held(n.ID, exprString(sel.X)+"."+mutexField, false) {
						return false
					}
				}
			}
		}
	}
	return sites > 0
}

// ---------------------------------------------------------------------------
// token pairing for channel-as-mutex (par.Queue): every receive from the state
// channel is followed on all paths by exactly one send before the function
// exits or receives again.

func (c *Ctx) checkTokenPairing(rule string, f *Fn, chanSel string) {
	g := c.graph(f)
	isRecv := func(n ast.Node) bool {
		found := false
		inspectShallow(n, func(x ast.Node) bool {
			if u, ok := x.(*ast.UnaryExpr); ok && u.Op == token.ARROW && exprString(u.X) == chanSel {
				found = true
			}
			return true
		})
		return found
	}
	isSend := func(n ast.Node) bool {
		s, ok := n.(*ast.SendStmt)
		return ok && exprString(s.Chan) == chanSel
	}
	deferredSend := false
	for _, n := range g.Nodes {
		if d, ok := n.N.(*ast.DeferStmt); ok {
			if l, ok := ast.Unparen(d.Call.Fun).(*ast.FuncLit); ok {
				ast.Inspect(l.Body, func(x ast.Node) bool {
					if s, ok := x.(*ast.SendStmt); ok && exprString(s.Chan) == chanSel {
						deferredSend = true
					}
					return true
				})
			}
		}
	}
	var problems []string
	in := g.run(Automaton{
		Init: 0,
		OnNode: func(id, st int) int {
			n := g.Nodes[id].N
			if n == nil {
				return st
			}
			if _, isDefer := n.(*ast.DeferStmt); isDefer {
				return st
			}
			if isRecv(n) {
				if st == 1 {
					problems = append(problems, "second receive while holding the token at "+c.pos(n.Pos()))
				}
				return 1
			}
			if isSend(n) {
				if st == 0 {
					problems = append(problems, "send without holding the token at "+c.pos(n.Pos()))
				}
				return 0
			}
			return st
		},
	})
	nrecv := len(g.find(isRecv))
	if nrecv == 0 {
		return
	}
	if in[g.Exit]&(1<<1) != 0 && !deferredSend {
		problems = append(problems, "function can return while holding the state token (no send back)")
	}
	if in[g.Exit]&(1<<0) != 0 && deferredSend {
		// deferred send without token is only a problem if exit reachable with no receive at all; ignore
	}
	c.check(rule, f.Name, f.Body.Pos(), len(problems) == 0,
		fmt.Sprintf("state channel %s used as a mutex: each receive must be paired with one send on every path; %s", chanSel, strings.Join(uniq(problems), "; ")))
}

// declOf finds the declaration of a function object in the loaded packages.
func (c *Ctx) declOf(fn *types.Func) *Fn {
	if fn == nil {
		return nil
	}
	fn = fn.Origin()
	if c.declIdx == nil {
		c.declIdx = map[*types.Func]*Fn{}
		for _, p := range c.repoPkgs() {
			for _, file := range p.Syntax {
				for _, d := range file.Decls {
					if fd, ok := d.(*ast.FuncDecl); ok && fd.Body != nil {
						if o, ok := p.TypesInfo.Defs[fd.Name].(*types.Func); ok {
							c.declIdx[o] = &Fn{Pkg: p, Decl: fd, Body: fd.Body, Type: fd.Type, Obj: o,
								Name: strings.TrimPrefix(p.PkgPath, modPrefix) + "." + declName(fd)}
						}
					}
				}
			}
		}
	}
	return c.declIdx[fn]
}

var mutatesMemo = map[*types.Func]int{} // 1 = yes, 2 = no, 3 = in progress

// methodMutatesReceiver summarises whether a method writes state reachable
// from its receiver (directly, or through another method of the receiver),
// ignoring fields of concurrency-safe types. Unknown bodies count as mutating.
func (c *Ctx) methodMutatesReceiver(fn *types.Func, depth int) bool {
	if fn == nil {
		return true
	}
	fn = fn.Origin()
	switch mutatesMemo[fn] {
	case 1:
		return true
	case 2:
		return false
	case 3:
		return false // recursion: decided by the outer visit
	}
	d := c.declOf(fn)
	if d == nil || d.Decl.Recv == nil || len(d.Decl.Recv.List) == 0 || len(d.Decl.Recv.List[0].Names) == 0 {
		if d != nil && d.Decl.Recv != nil {
			mutatesMemo[fn] = 2 // unnamed receiver cannot be written
			return false
		}
		return true
	}
	if depth > 4 {
		return true
	}
	mutatesMemo[fn] = 3
	info := d.Info()
	recv := info.Defs[d.Decl.Recv.List[0].Names[0]]
	mut := false
	rootIs := func(e ast.Expr) bool {
		id := rootIdent(e)
		if id == nil || info.Uses[id] != recv {
			return false
		}
		// a write through a concurrency-safe field is that field's business
		safe := false
		ast.Inspect(e, func(n ast.Node) bool {
			if sel, ok := n.(*ast.SelectorExpr); ok {
				if t := info.TypeOf(sel); t != nil && isConcurrencySafe(t) {
					safe = true
				}
			}
			return true
		})
		return !safe
	}
	ast.Inspect(d.Body, func(n ast.Node) bool {
		if mut {
			return false
		}
		switch s := n.(type) {
		case *ast.AssignStmt:
			for _, l := range s.Lhs {
				if _, plain := ast.Unparen(l).(*ast.Ident); !plain && rootIs(l) {
					mut = true
				}
			}
		case *ast.IncDecStmt:
			if _, plain := ast.Unparen(s.X).(*ast.Ident); !plain && rootIs(s.X) {
				mut = true
			}
		case *ast.CallExpr:
			if nm := calleeName(info, s); (nm == "delete" || nm == "clear") && len(s.Args) > 0 && rootIs(s.Args[0]) {
				mut = true
			}
			if sel, ok := ast.Unparen(s.Fun).(*ast.SelectorExpr); ok {
				if sl := info.Selections[sel]; sl != nil && sl.Kind() == types.MethodVal && rootIs(sel.X) {
					if _, isIface := sl.Recv().Underlying().(*types.Interface); !isIface && !isConcurrencySafe(sl.Recv()) {
						if callee, ok := sl.Obj().(*types.Func); ok && c.methodMutatesReceiver(callee, depth+1) {
							mut = true
						}
					}
				}
			}
		}
		return true
	})
	if mut {
		mutatesMemo[fn] = 1
	} else {
		mutatesMemo[fn] = 2
	}
	return mut
}
