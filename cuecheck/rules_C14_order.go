package main

import (
	"go/ast"
	"os"
	"strings"
)

// Version ordering (C14, last clause): decision tables of the comparators.
// What is decided is the branch structure of each comparator on classes of
// inputs defined by the tests the comparator itself performs; the character
// loops (parseInt, nextIdent, isNum) are not decided.

const semverP = "internal/mod/semver"

func checkC14Order(c *Ctx) {
	dump := os.Getenv("CUECHECK_DUMP") != ""
	show := func(cf *caseFn) {
		if !dump {
			return
		}
		var ks []string
		for k := range cf.atoms() {
			ks = append(ks, k)
		}
		sortStrings(ks)
		c.note("%s atoms: %s", cf.f.Name, strings.Join(ks, " ; "))
	}
	T, F := true, false
	_ = F

	// ---- cmpVersion: "" (the main module) is above every version; otherwise semver.Compare
	{
		cf := newCaseFn(c, c.fn("internal/mod/modrequirements", "cmpVersion"))
		show(cf)
		e0, e1 := `"" == p0`, `"" == p1`
		cf.checkTable("order.cmpVersion-table", []caseRow{
			{name: "both-main", truth: map[string]bool{e0: T, e1: T, "?p0 == p1": T}, want: []string{"0"}},
			{name: "main-vs-version", truth: map[string]bool{e0: T, e1: F, "?p0 == p1": F}, want: []string{"1"}},
			{name: "version-vs-main", truth: map[string]bool{e0: F, e1: T, "?p0 == p1": F}, want: []string{"-1"}},
			{name: "two-versions-differ", truth: map[string]bool{e0: F, e1: F, "?p0 == p1": F}, want: []string{"semver.Compare(p0,p1)"}},
			{name: "two-versions-same", truth: map[string]bool{e0: F, e1: F, "?p0 == p1": T}, want: []string{"semver.Compare(p0,p1)", "0"}, sub: true},
		}, "the loader's version comparison must put the main module's empty version above every other version, symmetrically, and otherwise defer to semver.Compare(v1, v2)")
	}

	// ---- Versions.Max: "" highest, "none" lowest, otherwise the semver maximum
	{
		cf := newCaseFn(c, c.fn("mod/module", "Versions.Max"))
		show(cf)
		e0, e1 := `"" == p0`, `"" == p1`
		n0, n1 := `"none" == p0`, `"none" == p1`
		gt := "0 < semver.Compare(p0,p1)"
		rows := []caseRow{
			{name: "main-left", truth: map[string]bool{e0: T, n0: F, e1: F, n1: F}, want: []string{"p0"}},
			{name: "main-right", truth: map[string]bool{e0: F, n0: F, e1: T, n1: F}, want: []string{"p1"}},
			{name: "main-both", truth: map[string]bool{e0: T, n0: F, e1: T, n1: F}, want: []string{"p0", "p1"}, sub: true},
			{name: "main-vs-none", truth: map[string]bool{e0: T, n0: F, e1: F, n1: T}, want: []string{"p0"}},
			{name: "none-vs-main", truth: map[string]bool{e0: F, n0: T, e1: T, n1: F}, want: []string{"p1"}},
			{name: "none-left", truth: map[string]bool{e0: F, n0: T, e1: F, n1: F}, want: []string{"p1"}},
			{name: "none-right", truth: map[string]bool{e0: F, n0: F, e1: F, n1: T}, want: []string{"p0"}},
			{name: "none-both", truth: map[string]bool{e0: F, n0: T, e1: F, n1: T}, want: []string{"p0", "p1"}, sub: true},
			{name: "semver-greater", truth: map[string]bool{e0: F, n0: F, e1: F, n1: F, gt: T}, want: []string{"p0"}},
			{name: "semver-not-greater", truth: map[string]bool{e0: F, n0: F, e1: F, n1: F, gt: F}, want: []string{"p1"}},
		}
		cf.checkTable("order.max-table", rows, "Versions.Max must return the main module's empty version when either side has it, treat \"none\" as below everything, and otherwise return the semver-greater argument")
	}

	// ---- semver.Compare: invalid below valid, then major, minor, patch, prerelease; build ignored
	{
		f := c.fn(semverP, "Compare")
		cf := newCaseFn(c, f)
		show(cf)
		ok0, ok1 := "parse(p0)#1", "parse(p1)#1"
		fld := func(n string) string {
			return "compareInt(parse(p0)#0." + n + ",parse(p1)#0." + n + ")"
		}
		pre := "comparePrerelease(parse(p0)#0.prerelease,parse(p1)#0.prerelease)"
		z := func(n string) string { return "0 == " + fld(n) }
		cf.checkTable("order.compare-table", []caseRow{
			{name: "both-invalid", truth: map[string]bool{ok0: F, ok1: F}, want: []string{"0"}},
			{name: "invalid-vs-valid", truth: map[string]bool{ok0: F, ok1: T, "?p0 == p1": F}, want: []string{"-1"}},
			{name: "valid-vs-invalid", truth: map[string]bool{ok0: T, ok1: F, "?p0 == p1": F}, want: []string{"1"}},
			{name: "major-differs", truth: map[string]bool{ok0: T, ok1: T, "?p0 == p1": F, z("major"): F}, want: []string{fld("major")}},
			{name: "minor-differs", truth: map[string]bool{ok0: T, ok1: T, "?p0 == p1": F, z("major"): T, z("minor"): F}, want: []string{fld("minor")}},
			{name: "patch-differs", truth: map[string]bool{ok0: T, ok1: T, "?p0 == p1": F, z("major"): T, z("minor"): T, z("patch"): F}, want: []string{fld("patch")}},
			{name: "core-equal", truth: map[string]bool{ok0: T, ok1: T, "?p0 == p1": F, z("major"): T, z("minor"): T, z("patch"): T}, want: []string{pre}},
		}, "semver.Compare must order invalid versions below valid ones and compare major, then minor, then patch numerically, then the pre-release; nothing else")
		// build metadata is ignored
		usesBuild := false
		ast.Inspect(f.Body, func(n ast.Node) bool {
			if s, ok := n.(*ast.SelectorExpr); ok && s.Sel.Name == "build" {
				usesBuild = true
			}
			return true
		})
		c.check("order.build-metadata-ignored", f.Name, f.Decl.Pos(), !usesBuild, "semver.Compare must not look at the build metadata")
	}

	// ---- compareInt: shorter digit string is smaller, equal length compares lexically
	{
		cf := newCaseFn(c, c.fn(semverP, "compareInt"))
		show(cf)
		l := "cmp.Compare(len(p0),len(p1))"
		cf.checkTable("order.compareInt-table", []caseRow{
			{name: "length-differs", truth: map[string]bool{"0 == " + l: F, "?p0 == p1": F}, want: []string{l}},
			{name: "same-length", truth: map[string]bool{"0 == " + l: T, "?p0 == p1": F}, want: []string{"cmp.Compare(p0,p1)"}},
		}, "numeric fields (no leading zeros) compare by length first and only then digit by digit")
	}

	// ---- comparePrerelease
	{
		cf := newCaseFn(c, c.fn(semverP, "comparePrerelease"))
		show(cf)
		e0, e1, same := `"" == p0`, `"" == p1`, "p0 == p1"
		head := cf.loopHead(0)
		dx, dy := "nextIdent(p0)#0", "nextIdent(p1)#0"
		ideq := eqKey(dx, dy)
		nx, ny := "isNum("+dx+")", "isNum("+dy+")"
		l := "cmp.Compare(len(" + dx + "),len(" + dy + "))"
		lex := "cmp.Compare(" + dx + "," + dy + ")"
		cf.checkTable("order.prerelease-table", []caseRow{
			{name: "identical", truth: map[string]bool{same: T}, want: []string{"0"}},
			{name: "release-vs-prerelease", truth: map[string]bool{same: F, e0: T, e1: F}, want: []string{"1"}},
			{name: "prerelease-vs-release", truth: map[string]bool{same: F, e0: F, e1: T}, want: []string{"-1"}},
			{name: "numeric-vs-alnum", start: head, truth: map[string]bool{e0: F, e1: F, ideq: F, nx: T, ny: F}, want: []string{"-1"}},
			{name: "alnum-vs-numeric", start: head, truth: map[string]bool{e0: F, e1: F, ideq: F, nx: F, ny: T}, want: []string{"1"}},
			{name: "numeric-length-differs", start: head, truth: map[string]bool{e0: F, e1: F, ideq: F, nx: T, ny: T, "0 == " + l: F}, want: []string{l}},
			{name: "numeric-same-length", start: head, truth: map[string]bool{e0: F, e1: F, ideq: F, nx: T, ny: T, "0 == " + l: T}, want: []string{lex}},
			{name: "alnum-both", start: head, truth: map[string]bool{e0: F, e1: F, ideq: F, nx: F, ny: F}, want: []string{lex}},
			{name: "left-ran-out", start: head, truth: map[string]bool{e0: T, e1: F}, want: []string{"-1"}},
			{name: "right-ran-out", start: head, truth: map[string]bool{e0: F, e1: T}, want: []string{"1"}},
		}, "pre-release precedence: a release is above its pre-releases; identifiers are compared left to right, numeric below alphanumeric, numeric by value (length, then digits), alphanumeric lexically; when all shared identifiers are equal the shorter list is lower")
	}
}

// checkC14Identifiers: parsePrerelease and parseBuild validate each
// dot-separated identifier where it ends: inside the loop at a '.', and once
// more after the loop for the last identifier. Both sites must apply the same
// tests (non-empty; for pre-releases also no leading zero in a numeric
// identifier), otherwise "1.0.0-01" and "1.0.0-a.01" are judged differently
// and invalid versions take part in the ordering.
func checkC14Identifiers(c *Ctx) {
	for _, spec := range []struct {
		fn   string
		need []string
	}{
		{"parsePrerelease", []string{"i == start", "isBadNum(p0[start:i])"}},
		{"parseBuild", []string{"i == start"}},
	} {
		f := c.fn(semverP, spec.fn)
		cf := newCaseFn(c, f)
		// the rejecting `if` immediately before a statement
		prevIf := func(list []ast.Stmt, idx int) *ast.IfStmt {
			if idx == 0 {
				return nil
			}
			is, _ := list[idx-1].(*ast.IfStmt)
			return is
		}
		var inLoop, trailing *ast.IfStmt
		ast.Inspect(f.Body, func(n ast.Node) bool {
			b, ok := n.(*ast.BlockStmt)
			if !ok {
				return true
			}
			for i, st := range b.List {
				switch s := st.(type) {
				case *ast.AssignStmt:
					if len(s.Lhs) == 1 && exprString(s.Lhs[0]) == "start" && b != f.Body {
						inLoop = prevIf(b.List, i)
					}
				case *ast.ReturnStmt:
					if b == f.Body && len(s.Results) == 3 && exprString(s.Results[2]) == "true" {
						trailing = prevIf(b.List, i)
					}
				}
			}
			return true
		})
		if inLoop == nil || trailing == nil {
			c.check("order.identifier-checks-agree", f.Name, f.Decl.Pos(), false,
				"anchor: could not find the identifier validation before `start = i + 1` and before the final `return ..., true`")
			continue
		}
		atomsOf := func(e ast.Expr) []string {
			set := map[string]bool{}
			var rec func(e ast.Expr)
			rec = func(e ast.Expr) {
				e = ast.Unparen(e)
				if be, ok := e.(*ast.BinaryExpr); ok && (be.Op.String() == "||" || be.Op.String() == "&&") {
					rec(be.X)
					rec(be.Y)
					return
				}
				set[cf.canon(e)] = true
			}
			rec(e)
			var out []string
			for k := range set {
				out = append(out, k)
			}
			sortStrings(out)
			return out
		}
		a, b := atomsOf(inLoop.Cond), atomsOf(trailing.Cond)
		ok := strings.Join(a, " ; ") == strings.Join(b, " ; ")
		for _, n := range spec.need {
			found := false
			for _, x := range a {
				if x == n {
					found = true
				}
			}
			ok = ok && found
		}
		c.check("order.identifier-checks-agree", f.Name, trailing.Pos(), ok,
			"every identifier — those ended by a '.' and the last one — must pass the same validity tests {"+strings.Join(spec.need, ", ")+"}; in-loop tests {"+strings.Join(a, ", ")+"}, trailing tests {"+strings.Join(b, ", ")+"}")
	}
}
