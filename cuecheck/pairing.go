package main

import (
	"fmt"
	"go/ast"
	"go/token"
	"go/types"
	"strings"
)

// E7: acquire/release pairing on all non-panicking paths.

type pairSpec struct {
	acquire string   // resolved callee name of the acquire
	release []string // resolved callee names of matching releases
}

type pairResult struct {
	sites, ok, escaped int
}

// checkPairing examines every call of spec.acquire in the given bodies. For
// each, every path from the call to the function's normal exit must pass a
// release that refers to the acquire's result (as receiver or argument), or a
// defer that performs such a release must have been registered. A site whose
// result is returned or handed to another function is "escaped": the
// obligation moves to the receiver and is recorded as such.
func (c *Ctx) checkPairing(rule string, bodies []*Fn, spec pairSpec, escapeOK map[string]string) pairResult {
	var res pairResult
	rel := map[string]bool{}
	for _, r := range spec.release {
		rel[r] = true
	}
	for _, f := range bodies {
		all := append([]*Fn{f}, c.lits(f)...)
		for _, b := range all {
			info := b.Info()
			g := c.graph(b)
			nsite := 0
			for _, n := range g.Nodes {
				if n.N == nil {
					continue
				}
				for _, call := range callsIn(n.N, false) {
					if calleeName(info, call) != spec.acquire {
						continue
					}
					nsite++
					res.sites++
					key := fmt.Sprintf("%s#%s%d", b.Name, shortCallee(spec.acquire), nsite)
					// form 1: defer release(acquire())
					if d, ok := n.N.(*ast.DeferStmt); ok && rel[calleeName(info, d.Call)] {
						res.ok++
						c.check(rule, key, call.Pos(), true, "acquire is the argument of its own deferred release")
						continue
					}
					// the result variable, if any
					var rv types.Object
					switch s := n.N.(type) {
					case *ast.AssignStmt:
						if len(s.Rhs) == 1 && ast.Unparen(s.Rhs[0]) == call && len(s.Lhs) >= 1 {
							rv = identObj(info, s.Lhs[0])
						}
					case *ast.ValueSpec:
						if len(s.Values) == 1 && ast.Unparen(s.Values[0]) == call {
							rv = info.Defs[s.Names[0]]
						}
					}
					mentions := func(e ast.Node) bool {
						if rv == nil {
							return true
						}
						found := false
						ast.Inspect(e, func(x ast.Node) bool {
							if id, ok := x.(*ast.Ident); ok && info.Uses[id] == rv {
								found = true
							}
							return !found
						})
						return found
					}
					isRelease := func(x ast.Node, deep bool) bool {
						found := false
						visit := func(y ast.Node) bool {
							if cl, ok := y.(*ast.CallExpr); ok && rel[calleeName(info, cl)] && mentions(cl) {
								found = true
							}
							return !found
						}
						if deep {
							ast.Inspect(x, visit)
						} else {
							inspectShallow(x, visit)
						}
						return found
					}
					// escape analysis of the result variable
					if rv != nil {
						esc := ""
						ast.Inspect(b.Body, func(x ast.Node) bool {
							switch s := x.(type) {
							case *ast.CallExpr:
								if rel[calleeName(info, s)] {
									return true
								}
								for _, a := range s.Args {
									if identObj(info, a) == rv {
										esc = "passed to " + calleeName(info, s)
									}
								}
							case *ast.AssignStmt:
								for i, r := range s.Rhs {
									if identObj(info, r) == rv && i < len(s.Lhs) {
										if _, plain := ast.Unparen(s.Lhs[i]).(*ast.Ident); !plain {
											esc = "stored in " + exprString(s.Lhs[i])
										}
									}
								}
							}
							return true
						})
						if esc != "" {
							res.escaped++
							why, okE := escapeOK[b.Name]
							c.check(rule, key, call.Pos(), okE, fmt.Sprintf("the acquired value is %s; its release is the receiver's obligation (%s)", esc, why))
							continue
						}
					}
					acq := n.ID
					in := g.run(Automaton{
						Init: 0,
						OnNode: func(id, st int) int {
							nd := g.Nodes[id].N
							if id == acq {
								return 1
							}
							if nd == nil || st != 1 {
								return st
							}
							if d, ok := nd.(*ast.DeferStmt); ok {
								if isRelease(d.Call, true) {
									return 2
								}
								return st
							}
							if r, ok := nd.(*ast.ReturnStmt); ok && rv != nil {
								// ownership is handed to the caller on this path
								for _, x := range r.Results {
									if identObj(info, x) == rv {
										return 0
									}
								}
							}
							if isRelease(nd, false) {
								return 0
							}
							return st
						},
					})
					ok := in[g.Exit]&(1<<1) == 0
					if ok {
						res.ok++
					}
					c.check(rule, key, call.Pos(), ok,
						fmt.Sprintf("every non-panicking path from %s to the function exit must pass %v (or have it deferred)", shortCallee(spec.acquire), shortCallees(spec.release)))
				}
			}
		}
	}
	return res
}

func shortCallee(s string) string {
	if i := strings.LastIndex(s, "."); i >= 0 {
		return s[i+1:]
	}
	return s
}

func shortCallees(ss []string) []string {
	var out []string
	for _, s := range ss {
		out = append(out, shortCallee(s))
	}
	return out
}

// checkLockPairing: every Lock()/RLock() of a sync mutex is released on every
// non-panicking path of the function (explicitly or by a deferred
// Unlock/RUnlock on the same receiver), and is not re-acquired while held.
// A path that returns with the lock held deadlocks the next caller.
func (c *Ctx) checkLockPairing(rule string, pkgRels ...string) int {
	total := 0
	for _, pr := range pkgRels {
		for _, f := range c.funcs(c.pkg(pr)) {
			bodies := append([]*Fn{f}, c.lits(f)...)
			for _, b := range bodies {
				info := b.Info()
				g := c.graph(b)
				type lk struct {
					node int
					key  string
					read bool
					pos  ast.Node
				}
				var locks []lk
				for _, n := range g.Nodes {
					if n.N == nil {
						continue
					}
					if _, isDefer := n.N.(*ast.DeferStmt); isDefer {
						continue
					}
					for _, call := range callsIn(n.N, false) {
						d, ok := lockOps[calleeName(info, call)]
						if !ok || d <= 0 {
							continue
						}
						locks = append(locks, lk{n.ID, lockKey(call), d == 2, call})
					}
				}
				for i, l := range locks {
					total++
					rel := "Unlock"
					if l.read {
						rel = "RUnlock"
					}
					isRel := func(x ast.Node, deep bool) bool {
						found := false
						visit := func(y ast.Node) bool {
							if cl, ok := y.(*ast.CallExpr); ok {
								nm := calleeName(info, cl)
								if strings.HasSuffix(nm, ")."+rel) && strings.HasPrefix(nm, "sync.") && lockKey(cl) == l.key {
									found = true
								}
							}
							return !found
						}
						if deep {
							ast.Inspect(x, visit)
						} else {
							inspectShallow(x, visit)
						}
						return found
					}
					acq := l.node
					double := false
					in := g.run(Automaton{
						Init: 0,
						OnNode: func(id, st int) int {
							nd := g.Nodes[id].N
							if id == acq {
								if st == 1 {
									double = true
								}
								return 1
							}
							if nd == nil || st != 1 {
								return st
							}
							if d, ok := nd.(*ast.DeferStmt); ok {
								if isRel(d.Call, true) {
									return 2
								}
								return st
							}
							if isRel(nd, false) {
								return 0
							}
							return st
						},
					})
					ok := in[g.Exit]&(1<<1) == 0 && !double
					det := fmt.Sprintf("%s.%s must be followed by %s on every non-panicking path to the function exit (or be deferred) and must not be re-acquired while held", l.key, map[bool]string{false: "Lock", true: "RLock"}[l.read], rel)
					// a deferred release registered BEFORE the acquire (defer mu.Unlock() after an earlier Lock) also counts
					c.check(rule, fmt.Sprintf("%s#lock%d", b.Name, i+1), l.pos.Pos(), ok, det)
				}
			}
		}
	}
	return total
}

// checkCounterBalance: a struct field used as a nesting counter (x.f++ ...
// x.f--) must be decremented on every non-panicking path from the increment
// to the function's exit and before the increment can execute again (the next
// loop iteration). A path that skips the decrement — an early `continue` or
// `return` between the two — leaves the counter raised for everything that
// follows.
func (c *Ctx) checkCounterBalance(rule string, pkgRel string, exempt map[string]string) int {
	n := 0
	for _, f := range c.funcs(c.pkg(pkgRel)) {
		g := c.graph(f)
		k := 0
		for _, nd := range g.Nodes {
			inc, ok := nd.N.(*ast.IncDecStmt)
			if !ok || inc.Tok != token.INC {
				continue
			}
			sel, ok := ast.Unparen(inc.X).(*ast.SelectorExpr)
			if !ok {
				continue
			}
			if v, ok := f.Info().Uses[sel.Sel].(*types.Var); !ok || !v.IsField() {
				continue
			}
			name := exprString(inc.X)
			decs := map[int]bool{}
			for _, m := range g.Nodes {
				switch s := m.N.(type) {
				case *ast.IncDecStmt:
					if s.Tok == token.DEC && exprString(s.X) == name {
						decs[m.ID] = true
					}
				case *ast.DeferStmt:
					// defer func() { x.f-- }()
					ast.Inspect(s, func(y ast.Node) bool {
						if d, ok := y.(*ast.IncDecStmt); ok && d.Tok == token.DEC && exprString(d.X) == name {
							decs[m.ID] = true
						}
						return true
					})
				}
			}
			if len(decs) == 0 {
				continue // a plain counter, not a nesting counter
			}
			k++
			n++
			key := fmt.Sprintf("%s#%s%d", f.Name, sel.Sel.Name, k)
			// deferred decrement registered before the increment covers all exits
			deferred := false
			for id := range decs {
				if _, isDefer := g.Nodes[id].N.(*ast.DeferStmt); isDefer && g.mustPassNode(nd.ID, map[int]bool{id: true}) {
					deferred = true
				}
			}
			// the increment is often conditional (`if f.IsDef() { x.n++ }`) and the
			// decrement guarded by the very same test: paths on which the test
			// comes out differently the second time are infeasible as long as
			// the tested expression is not reassigned in between
			guard := ""
			ast.Inspect(f.Body, func(y ast.Node) bool {
				if is, ok := y.(*ast.IfStmt); ok && is.Else == nil && len(is.Body.List) >= 1 && is.Body.List[0] == ast.Stmt(inc) {
					guard = exprString(is.Cond)
				}
				return true
			})
			sameGuardFalse := func(from int, e GEdge) bool {
				if guard == "" {
					return false
				}
				if e.Cond != nil && !e.Truth && exprString(e.Cond) == guard {
					return true
				}
				if e.SwitchTag != nil && e.CaseVal != nil && !e.Truth && exprString(e.SwitchTag) == guard && exprString(e.CaseVal) == "true" {
					return true
				}
				return false
			}
			bad := ""
			if !deferred {
				for _, e := range nd.Succs {
					if decs[e.To] {
						continue
					}
					r := g.reach([]int{e.To}, func(id int) bool { return decs[id] }, sameGuardFalse)
					switch {
					case r[g.Exit]:
						bad = "the function can return with the counter raised"
					case r[nd.ID] && e.To != nd.ID:
						bad = "the increment can execute again (next loop iteration) before the decrement"
					}
				}
			}
			reason, exc := exempt[key]
			c.check(rule, key, inc.Pos(), bad == "" || exc,
				name+"++ must be undone by "+name+"-- on every path: "+bad+" "+reason)
		}
	}
	return n
}

// checkDeferredErrorLive: a deferred cleanup of the form
// `defer func() { if err != nil { undo() } }()` only works if err can still
// change after the defer statement: it must be a named result of the function
// (which every `return e` assigns) or be assigned again later. If it is a local
// that was just tested to be nil and every later error lives in a shadowing
// `if err := …` scope, the cleanup is dead and the partial artefact (temp file,
// lock, half-written directory) is left behind on every failure.
func (c *Ctx) checkDeferredErrorLive(rule string, pkgRel string) int {
	n := 0
	for _, f := range c.funcs(c.pkg(pkgRel)) {
		if f.Lit != nil {
			continue
		}
		info := f.Info()
		results := map[types.Object]bool{}
		if f.Type.Results != nil {
			for _, fl := range f.Type.Results.List {
				for _, nm := range fl.Names {
					results[info.Defs[nm]] = true
				}
			}
		}
		k := 0
		ast.Inspect(f.Body, func(x ast.Node) bool {
			ds, ok := x.(*ast.DeferStmt)
			if !ok {
				return true
			}
			lit, ok := ds.Call.Fun.(*ast.FuncLit)
			if !ok {
				return true
			}
			ast.Inspect(lit.Body, func(y ast.Node) bool {
				is, ok := y.(*ast.IfStmt)
				if !ok {
					return true
				}
				be, ok := ast.Unparen(is.Cond).(*ast.BinaryExpr)
				if !ok || be.Op != token.NEQ || !isNilIdent(be.Y) {
					return true
				}
				o := identObj(info, be.X)
				v, isVar := o.(*types.Var)
				if !isVar || !isErrorType(v.Type()) || v.Pos() > lit.Pos() { // captured only
					return true
				}
				k++
				n++
				live := results[o]
				if !live {
					// assigned after the defer statement (outside the deferred literal)?
					ast.Inspect(f.Body, func(z ast.Node) bool {
						if as, ok := z.(*ast.AssignStmt); ok && as.Pos() > ds.End() {
							for _, l := range as.Lhs {
								if id, isID := l.(*ast.Ident); isID && info.Uses[id] == o {
									live = true
								}
							}
						}
						return true
					})
				}
				c.check(rule, fmt.Sprintf("%s#defer%d", f.Name, k), is.Pos(), live,
					"the deferred cleanup tests `"+exprString(be.X)+" != nil`, but that variable is neither a named result of the function nor assigned after the defer statement (later errors live in shadowing `if err := …` scopes): the cleanup never runs and the artefact it should remove is left behind on failure")
				return true
			})
			return true
		})
	}
	return n
}
