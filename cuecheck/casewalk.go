package main

import (
	"fmt"
	"go/ast"
	"go/constant"
	"go/token"
	"go/types"
	"sort"
	"strings"
)

// Decision tables by finite case analysis.
//
// A comparator such as semver.Compare or cmpVersion touches its arguments only
// through a handful of tests (v == "", ok1, dx != dy, isNum(dx)). For such a
// function the behaviour on a *class* of inputs is visible in the shape of the
// code: fix the truth of the tests that define the class, follow the
// control-flow graph along the edges those truths allow (both edges where a
// test is not determined by the class), and read off the set of return
// expressions that can be reached. The rule then compares that set with the
// row of the table the property prescribes ("the main module's empty version
// is above every other", "numeric identifiers are below alphanumeric ones").
//
// Nothing is executed: conditions are evaluated in three-valued logic over
// canonical atom names, and what is reported is a return statement reachable
// in a class where the table forbids it.
//
// Canonical names make the tables independent of identifier spelling:
// parameters are p0, p1, ...; a local that is assigned exactly once is
// replaced by the expression it was assigned (k-th result of a call is
// `call#k`); `len(X) == 0` is `X == ""`; comparison operands are ordered.

type caseFn struct {
	c    *Ctx
	f    *Fn
	g    *Graph
	info *types.Info
	defs map[types.Object]string // canonical definition of single-assignment locals
	par  map[types.Object]int
}

func newCaseFn(c *Ctx, f *Fn) *caseFn {
	cf := &caseFn{c: c, f: f, g: c.graph(f), info: f.Info(), defs: map[types.Object]string{}, par: map[types.Object]int{}}
	if f.Lit == nil && f.Decl != nil && f.Decl.Recv != nil {
		for _, fl := range f.Decl.Recv.List {
			for _, n := range fl.Names {
				cf.par[cf.info.Defs[n]] = -1
			}
		}
	}
	i := 0
	if f.Type.Params != nil {
		for _, fl := range f.Type.Params.List {
			for _, n := range fl.Names {
				cf.par[cf.info.Defs[n]] = i
				i++
			}
		}
	}
	// single-assignment locals
	type asg struct {
		rhs ast.Expr
		k   int // result index, -1 for a 1:1 assignment
	}
	seen := map[types.Object][]asg{}
	bad := map[types.Object]bool{}
	ast.Inspect(f.Body, func(n ast.Node) bool {
		switch s := n.(type) {
		case *ast.AssignStmt:
			if s.Tok != token.ASSIGN && s.Tok != token.DEFINE {
				for _, l := range s.Lhs {
					if o := identObj(cf.info, l); o != nil {
						bad[o] = true
					}
				}
				return true
			}
			for i, l := range s.Lhs {
				o := identObj(cf.info, l)
				if o == nil {
					continue
				}
				if len(s.Lhs) == len(s.Rhs) {
					seen[o] = append(seen[o], asg{s.Rhs[i], -1})
				} else if len(s.Rhs) == 1 {
					seen[o] = append(seen[o], asg{s.Rhs[0], i})
				}
			}
		case *ast.ValueSpec:
			for i, id := range s.Names {
				if len(s.Values) == len(s.Names) {
					seen[cf.info.Defs[id]] = append(seen[cf.info.Defs[id]], asg{s.Values[i], -1})
				}
			}
		case *ast.IncDecStmt:
			if o := identObj(cf.info, s.X); o != nil {
				bad[o] = true
			}
		case *ast.RangeStmt:
			for _, e := range []ast.Expr{s.Key, s.Value} {
				if e != nil {
					if o := identObj(cf.info, e); o != nil {
						bad[o] = true
					}
				}
			}
		case *ast.UnaryExpr:
			if s.Op == token.AND {
				if o := identObj(cf.info, s.X); o != nil {
					bad[o] = true
				}
			}
		}
		return true
	})
	// resolve in dependency order (bounded depth)
	pending := map[types.Object]asg{}
	for o, as := range seen {
		if _, isPar := cf.par[o]; isPar || bad[o] || len(as) != 1 {
			continue
		}
		pending[o] = as[0]
	}
	for round := 0; round < 4; round++ {
		for o, a := range pending {
			delete(cf.defs, o) // never expand a definition in terms of itself
			s := cf.canon(a.rhs)
			if a.k >= 0 {
				s = fmt.Sprintf("%s#%d", s, a.k)
			}
			cf.defs[o] = s
		}
	}
	return cf
}

// canon renders an expression with canonical names.
func (cf *caseFn) canon(e ast.Expr) string {
	switch x := ast.Unparen(e).(type) {
	case *ast.Ident:
		o := cf.info.Uses[x]
		if o == nil {
			o = cf.info.Defs[x]
		}
		if i, ok := cf.par[o]; ok {
			if i < 0 {
				return "recv"
			}
			return fmt.Sprintf("p%d", i)
		}
		if d, ok := cf.defs[o]; ok && d != "" {
			return d
		}
		if k, ok := o.(*types.Const); ok {
			// named constants of a named type (enums) keep their name;
			// plain numeric/string constants are folded
			if _, named := k.Type().(*types.Named); named {
				return k.Name()
			}
		}
		if tv, ok := cf.info.Types[x]; ok && tv.Value != nil {
			return tv.Value.ExactString()
		}
		return x.Name
	case *ast.BasicLit:
		if tv, ok := cf.info.Types[x]; ok && tv.Value != nil {
			return tv.Value.ExactString()
		}
		return x.Value
	case *ast.UnaryExpr:
		if tv, ok := cf.info.Types[x]; ok && tv.Value != nil {
			return tv.Value.ExactString()
		}
		return x.Op.String() + cf.canon(x.X)
	case *ast.SelectorExpr:
		if o, ok := cf.info.Uses[x.Sel].(*types.Func); ok && o.Pkg() != nil {
			if _, isPkg := cf.info.Uses[identOf(x.X)].(*types.PkgName); isPkg {
				return o.Pkg().Name() + "." + o.Name()
			}
		}
		return cf.canon(x.X) + "." + x.Sel.Name
	case *ast.CallExpr:
		var args []string
		for _, a := range x.Args {
			args = append(args, cf.canon(a))
		}
		return cf.canon(x.Fun) + "(" + strings.Join(args, ",") + ")"
	case *ast.BinaryExpr:
		k, neg := cf.atomKey(x)
		if neg {
			return "!(" + k + ")"
		}
		return k
	case *ast.TypeAssertExpr:
		if x.Type == nil {
			return cf.canon(x.X) + ".(type)"
		}
		return cf.canon(x.X) + ".(" + exprString(x.Type) + ")"
	case *ast.StarExpr:
		return "*" + cf.canon(x.X)
	case *ast.IndexExpr:
		return cf.canon(x.X) + "[" + cf.canon(x.Index) + "]"
	case *ast.SliceExpr:
		s := cf.canon(x.X) + "["
		if x.Low != nil {
			s += cf.canon(x.Low)
		}
		s += ":"
		if x.High != nil {
			s += cf.canon(x.High)
		}
		return s + "]"
	}
	return exprString(e)
}

func identOf(e ast.Expr) *ast.Ident {
	id, _ := ast.Unparen(e).(*ast.Ident)
	return id
}

// atomKey normalises a comparison: the key names the positive form, neg says
// the expression is its negation.
func (cf *caseFn) atomKey(x *ast.BinaryExpr) (key string, neg bool) {
	a, b := cf.canon(x.X), cf.canon(x.Y)
	// len(X) <op> 0  ==>  X <op'> ""
	strip := func(s string) (string, bool) {
		if strings.HasPrefix(s, "len(") && strings.HasSuffix(s, ")") {
			return s[4 : len(s)-1], true
		}
		return s, false
	}
	if in, ok := strip(a); ok && b == "0" && cf.isString(x.X) {
		switch x.Op {
		case token.EQL:
			return eqKey(in, `""`), false
		case token.NEQ, token.GTR:
			return eqKey(in, `""`), true
		}
	}
	if in, ok := strip(b); ok && a == "0" && cf.isString(x.Y) {
		switch x.Op {
		case token.EQL:
			return eqKey(in, `""`), false
		case token.NEQ, token.LSS:
			return eqKey(in, `""`), true
		}
	}
	switch x.Op {
	case token.EQL:
		return eqKey(a, b), false
	case token.NEQ:
		return eqKey(a, b), true
	case token.LSS:
		return a + " < " + b, false
	case token.GTR:
		return b + " < " + a, false
	case token.GEQ:
		return a + " < " + b, true
	case token.LEQ:
		return b + " < " + a, true
	}
	return a + " " + x.Op.String() + " " + b, false
}

func (cf *caseFn) isString(lenCall ast.Expr) bool {
	call, ok := ast.Unparen(lenCall).(*ast.CallExpr)
	if !ok || len(call.Args) != 1 {
		return false
	}
	t := cf.info.TypeOf(call.Args[0])
	if t == nil {
		return false
	}
	b, ok := t.Underlying().(*types.Basic)
	return ok && b.Info()&types.IsString != 0
}

func eqKey(a, b string) string {
	if b < a {
		a, b = b, a
	}
	return a + " == " + b
}

// tri is a three-valued truth.
type tri int8

const (
	triUnknown tri = iota
	triTrue
	triFalse
)

func triOf(b bool) tri {
	if b {
		return triTrue
	}
	return triFalse
}

func (t tri) not() tri {
	switch t {
	case triTrue:
		return triFalse
	case triFalse:
		return triTrue
	}
	return triUnknown
}

// eval evaluates a condition under a partial assignment of atom keys.
func (cf *caseFn) eval(e ast.Expr, truth map[string]bool) tri {
	e = ast.Unparen(e)
	if tv, ok := cf.info.Types[e]; ok && tv.Value != nil && tv.Value.Kind() == constant.Bool {
		return triOf(constant.BoolVal(tv.Value))
	}
	switch x := e.(type) {
	case *ast.UnaryExpr:
		if x.Op == token.NOT {
			return cf.eval(x.X, truth).not()
		}
	case *ast.BinaryExpr:
		switch x.Op {
		case token.LAND:
			a, b := cf.eval(x.X, truth), cf.eval(x.Y, truth)
			if a == triFalse || b == triFalse {
				return triFalse
			}
			if a == triTrue && b == triTrue {
				return triTrue
			}
			return triUnknown
		case token.LOR:
			a, b := cf.eval(x.X, truth), cf.eval(x.Y, truth)
			if a == triTrue || b == triTrue {
				return triTrue
			}
			if a == triFalse && b == triFalse {
				return triFalse
			}
			return triUnknown
		}
		k, neg := cf.atomKey(x)
		if v, ok := truth[k]; ok {
			if neg {
				return triOf(!v)
			}
			return triOf(v)
		}
		// equality of two booleans that are themselves decided
		if x.Op == token.EQL || x.Op == token.NEQ {
			if cf.isBool(x.X) && cf.isBool(x.Y) {
				a, b := cf.eval(x.X, truth), cf.eval(x.Y, truth)
				if a != triUnknown && b != triUnknown {
					return triOf((a == b) == (x.Op == token.EQL))
				}
			}
		}
		return triUnknown
	}
	if v, ok := truth[cf.canon(e)]; ok {
		return triOf(v)
	}
	// a boolean local with a single definition is its definition
	if id, ok := e.(*ast.Ident); ok && cf.isBool(id) {
		if d := singleDef(cf.f, cf.info.Uses[id]); d != nil {
			return cf.eval(d, truth)
		}
	}
	return triUnknown
}

func (cf *caseFn) isBool(e ast.Expr) bool {
	t := cf.info.TypeOf(e)
	if t == nil {
		return false
	}
	b, ok := t.Underlying().(*types.Basic)
	return ok && b.Info()&types.IsBoolean != 0
}

// walk follows the graph from start along the edges the assignment allows and
// returns the canonical result expressions of the reachable returns (tuple
// results joined with ", "), the nodes visited, and whether EXIT was reached
// by falling off the end.
func (cf *caseFn) walk(start int, truth map[string]bool) (rets []string, visited map[int]bool) {
	return cf.walkBlocked(start, truth, nil)
}

// walkBlocked is walk with nodes that end the search (they are visited, their
// successors are not followed).
func (cf *caseFn) walkBlocked(start int, truth map[string]bool, block map[int]bool) (rets []string, visited map[int]bool) {
	g := cf.g
	visited = map[int]bool{}
	set := map[string]bool{}
	stack := []int{start}
	for len(stack) > 0 {
		n := stack[len(stack)-1]
		stack = stack[:len(stack)-1]
		if visited[n] {
			continue
		}
		visited[n] = true
		if rs, ok := g.Nodes[n].N.(*ast.ReturnStmt); ok {
			var parts []string
			for _, r := range rs.Results {
				// a boolean result that the class decides is rendered as its value
				if _, isIdent := ast.Unparen(r).(*ast.Ident); !isIdent && cf.isBool(r) {
					if v := cf.eval(r, truth); v != triUnknown {
						parts = append(parts, fmt.Sprint(v == triTrue))
						continue
					}
				}
				parts = append(parts, cf.canon(r))
			}
			if len(rs.Results) == 0 {
				parts = append(parts, "<bare return>")
			}
			set[strings.Join(parts, ", ")] = true
			continue
		}
		if block[n] && n != start {
			continue
		}
		for _, e := range g.Nodes[n].Succs {
			feasible := true
			switch {
			case e.Cond != nil:
				if v := cf.eval(e.Cond, truth); v != triUnknown && (v == triTrue) != e.Truth {
					feasible = false
				}
			case e.SwitchTag != nil && e.CaseVal != nil:
				k := eqKey(cf.canon(e.SwitchTag), cf.canon(e.CaseVal))
				if v, ok := truth[k]; ok && v != e.Truth {
					feasible = false
				}
			}
			if feasible {
				stack = append(stack, e.To)
			}
		}
	}
	for s := range set {
		rets = append(rets, s)
	}
	sort.Strings(rets)
	return rets, visited
}

// loopHead returns the condition node of the n-th `for` statement of the function.
func (cf *caseFn) loopHead(nth int) int {
	var loops []*ast.ForStmt
	ast.Inspect(cf.f.Body, func(n ast.Node) bool {
		if fs, ok := n.(*ast.ForStmt); ok {
			loops = append(loops, fs)
		}
		return true
	})
	if nth >= len(loops) || loops[nth].Cond == nil {
		return -1
	}
	for _, n := range cf.g.Nodes {
		if n.N == ast.Node(loops[nth].Cond) {
			return n.ID
		}
	}
	return -1
}

// caseRow is one row of a decision table.
type caseRow struct {
	name  string
	start int             // node to start from (default: function entry)
	truth map[string]bool // class definition
	want  []string        // exactly these results
	sub   bool            // reached results must be a non-empty subset of want
}

// checkTable discharges one obligation per row.
func (cf *caseFn) checkTable(rule string, rows []caseRow, why string) {
	for _, r := range rows {
		st := r.start
		if st == 0 {
			st = cf.g.Entry
		}
		if st < 0 {
			cf.c.check(rule, cf.f.Name+"/"+r.name, cf.f.Decl.Pos(), false, "anchor: start node of the case not found")
			continue
		}
		truth, required := map[string]bool{}, map[string]bool{}
		for k, v := range r.truth {
			if strings.HasPrefix(k, "?") {
				truth[k[1:]] = v
			} else {
				truth[k], required[k] = v, v
			}
		}
		got, _ := cf.walk(st, truth)
		want := append([]string(nil), r.want...)
		sort.Strings(want)
		ok := len(got) > 0
		if r.sub {
			ws := map[string]bool{}
			for _, w := range want {
				ws[w] = true
			}
			for _, x := range got {
				if !ws[x] {
					ok = false
				}
			}
		} else {
			ok = strings.Join(got, " | ") == strings.Join(want, " | ")
		}
		// every atom named by the row must exist in the function, else the
		// row would silently degrade to "unknown"
		missing := cf.missingAtoms(required)
		if len(missing) > 0 {
			ok = false
		}
		msg := fmt.Sprintf("%s — case %s: reachable results {%s}, table row {%s}", why, r.name, strings.Join(got, " | "), strings.Join(want, " | "))
		if len(missing) > 0 {
			msg += fmt.Sprintf("; tests not found in the function: %s", strings.Join(missing, "; "))
		}
		cf.c.check(rule, cf.f.Name+"/"+r.name, cf.f.Decl.Pos(), ok, msg)
	}
}

// atoms lists the canonical atom keys the function's conditions contain.
func (cf *caseFn) atoms() map[string]bool {
	out := map[string]bool{}
	var leaves func(e ast.Expr)
	leaves = func(e ast.Expr) {
		e = ast.Unparen(e)
		switch x := e.(type) {
		case *ast.UnaryExpr:
			if x.Op == token.NOT {
				leaves(x.X)
				return
			}
		case *ast.BinaryExpr:
			if x.Op == token.LAND || x.Op == token.LOR {
				leaves(x.X)
				leaves(x.Y)
				return
			}
			k, _ := cf.atomKey(x)
			out[k] = true
			if (x.Op == token.EQL || x.Op == token.NEQ) && cf.isBool(x.X) && cf.isBool(x.Y) {
				leaves(x.X)
				leaves(x.Y)
			}
			return
		}
		out[cf.canon(e)] = true
	}
	for _, n := range cf.g.Nodes {
		for _, e := range n.Succs {
			if e.Cond != nil {
				leaves(e.Cond)
			}
			if e.SwitchTag != nil && e.CaseVal != nil {
				out[eqKey(cf.canon(e.SwitchTag), cf.canon(e.CaseVal))] = true
			}
		}
		// tests inside boolean return expressions
		if rs, ok := n.N.(*ast.ReturnStmt); ok {
			for _, r := range rs.Results {
				if _, isIdent := ast.Unparen(r).(*ast.Ident); !isIdent && cf.isBool(r) {
					leaves(r)
				}
			}
		}
	}
	return out
}

// missingAtoms: optional atoms are written with a leading "?" in the row and
// need not exist (alternative spellings of the same test).
func (cf *caseFn) missingAtoms(truth map[string]bool) []string {
	have := cf.atoms()
	var out []string
	for k := range truth {
		if !have[k] {
			out = append(out, k)
		}
	}
	sort.Strings(out)
	return out
}

// condNode returns the node whose outgoing condition mentions the atom key.
func (cf *caseFn) condNode(key string) int {
	for _, n := range cf.g.Nodes {
		for _, e := range n.Succs {
			if e.Cond == nil {
				continue
			}
			found := false
			var leaves func(x ast.Expr)
			leaves = func(x ast.Expr) {
				x = ast.Unparen(x)
				switch y := x.(type) {
				case *ast.UnaryExpr:
					if y.Op == token.NOT {
						leaves(y.X)
						return
					}
				case *ast.BinaryExpr:
					if y.Op == token.LAND || y.Op == token.LOR {
						leaves(y.X)
						leaves(y.Y)
						return
					}
					if k, _ := cf.atomKey(y); k == key {
						found = true
					}
					return
				}
				if cf.canon(x) == key {
					found = true
				}
			}
			leaves(e.Cond)
			if found {
				return n.ID
			}
		}
	}
	return -1
}

// visitedCalls lists the canonical call statements (expression statements and
// the right-hand sides of assignments) among the visited nodes whose callee
// text contains filter.
func (cf *caseFn) visitedCalls(vis map[int]bool, filter string) []string {
	set := map[string]bool{}
	for id := range vis {
		n := cf.g.Nodes[id].N
		if n == nil {
			continue
		}
		for _, call := range callsIn(n, false) {
			s := cf.canon(call)
			if strings.Contains(s, filter) {
				set[s] = true
			}
		}
	}
	var out []string
	for s := range set {
		out = append(out, s)
	}
	sort.Strings(out)
	return out
}

// oneHot returns truth with exactly the chosen key true among keys.
func oneHot(truth map[string]bool, keys []string, chosen string) {
	for _, k := range keys {
		truth[k] = k == chosen
	}
}

func mergeTruth(ms ...map[string]bool) map[string]bool {
	out := map[string]bool{}
	for _, m := range ms {
		for k, v := range m {
			out[k] = v
		}
	}
	return out
}

// trace follows the unique feasible path from start while the assignment
// determines every branch; it stops at a return, at EXIT, at a node visited
// before, or where two successors remain feasible (ok=false then).
func (cf *caseFn) trace(start int, truth map[string]bool) (path []int, ok bool) {
	g := cf.g
	seen := map[int]bool{}
	n := start
	for {
		if seen[n] {
			return path, true
		}
		seen[n] = true
		path = append(path, n)
		if _, isRet := g.Nodes[n].N.(*ast.ReturnStmt); isRet || n == g.Exit {
			return path, true
		}
		var next []int
		for _, e := range g.Nodes[n].Succs {
			feasible := true
			switch {
			case e.Cond != nil:
				if v := cf.eval(e.Cond, truth); v != triUnknown && (v == triTrue) != e.Truth {
					feasible = false
				}
			case e.SwitchTag != nil && e.CaseVal != nil:
				k := eqKey(cf.canon(e.SwitchTag), cf.canon(e.CaseVal))
				if v, known := truth[k]; known && v != e.Truth {
					feasible = false
				}
			}
			if feasible {
				next = append(next, e.To)
			}
		}
		if len(next) != 1 {
			return path, len(next) == 0
		}
		n = next[0]
	}
}

// lastAssigned returns the canonical right-hand side of the last plain
// assignment to the named local along the path ("" if none).
func (cf *caseFn) lastAssigned(path []int, name string) string {
	out := ""
	for _, id := range path {
		switch s := cf.g.Nodes[id].N.(type) {
		case *ast.AssignStmt:
			if len(s.Lhs) == len(s.Rhs) {
				for i, l := range s.Lhs {
					if id, ok := l.(*ast.Ident); ok && id.Name == name {
						out = cf.canon(s.Rhs[i])
					}
				}
			} else if len(s.Rhs) == 1 {
				for i, l := range s.Lhs {
					if id, ok := l.(*ast.Ident); ok && id.Name == name {
						out = fmt.Sprintf("%s#%d", cf.canon(s.Rhs[0]), i)
					}
				}
			}
		case *ast.DeclStmt:
			if gd, ok := s.Decl.(*ast.GenDecl); ok {
				for _, sp := range gd.Specs {
					if vs, ok := sp.(*ast.ValueSpec); ok {
						for i, nm := range vs.Names {
							if nm.Name == name && i < len(vs.Values) {
								out = cf.canon(vs.Values[i])
							}
						}
					}
				}
			}
		}
	}
	return out
}

// stringLits lists the string literals inside the node, in source order.
func stringLits(info *types.Info, n ast.Node) []string {
	var out []string
	ast.Inspect(n, func(x ast.Node) bool {
		if bl, ok := x.(*ast.BasicLit); ok && bl.Kind == token.STRING {
			if s, ok := constString(info, bl); ok {
				out = append(out, s)
			}
		}
		return true
	})
	return out
}
