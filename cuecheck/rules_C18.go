package main

import (
	"fmt"
	"go/ast"
	"go/constant"
	"go/token"
	"go/types"
	"sort"
	"strings"
)

func init() {
	register(&propCheck{
		id:   "C18",
		pkgs: []string{"tools/flow", "internal/core/dep"},
		run:  checkC18,
		about: "C18 (workflow tasks run once, after their dependencies): the controller is a typestate machine owned by one goroutine. Decides (a) the relation of all assignments to Task.state, with their source-state guards, is a subset of {Waiting->Ready, Ready->Running, Running->Terminated, Waiting->Terminated}; tasks received from taskCh were sent only by the goroutine started right after state=Running; " +
			"(b) state=Ready lies behind isReady() being true, isReady returns true only after every depTask reported done(), and done() holds exactly for Terminated (constant-folded over the enum); " +
			"(c) on task completion every path to markReady passes updateTaskResults and the recomputation, and the failure edge returns without releasing dependants; the task goroutine starts only after updateTaskValue and state=Running; " +
			"(d) the task goroutine and the runner-facing Task methods write only Task.err / Task.update, and the goroutine's last action on every path is the send on taskCh; Task.state is assigned only by the controller goroutine's functions; " +
			"(e) checkCycle is evaluated on every non-failing initTasks path, its error reaches c.errs, and runLoop's loop tests c.errs; " +
			"(f) the `running` flag that decides whether runLoop blocks on taskCh is set exactly for tasks already Running or started in the same iteration; Task.Fill extends a pending result instead of overwriting it and updateTaskResults clears it only after taking it.",
		trust: []string{"dependency discovery (dep.Visit) is analysed only for the operand-context rule", "Runner implementations are external"},
	})
}

const fl = "tools/flow."

func checkC18(c *Ctx) {
	c18MarkedDecls(c)
	c18RetagOnEveryInit(c)
	// ownership of controller and task state (only the controller goroutine's functions, plus Fill for update)
	c.checkFieldWriters("ownership.field-writers", "tools/flow", "Task", map[string][]string{
		"state": {"(*Controller).markReady", "(*Controller).runLoop"}, "err": {"(*Controller).getTask", "(*Controller).runLoop"},
		"update": {"(*Controller).updateTaskResults", "(*Task).Fill"}, "depTasks": {"(*Controller).initTasks", "(*Task).addDep"},
		"deps": {"(*Task).addDep"}, "conjunctSeq": {"(*Controller).updateTaskResults"}, "valueSeq": {"(*Controller).getTask", "(*Controller).updateTaskValue"},
		"v": {"(*Controller).getTask", "(*Controller).updateTaskValue"}, "deferred": {"(*Controller).initTasks"},
	})
	c.checkFieldWriters("ownership.field-writers", "tools/flow", "Controller", map[string][]string{
		"errs": {"(*Controller).addErr"}, "conjuncts": {"(*Controller).runLoop", "(*Controller).updateTaskResults"},
		"conjunctSeq": {"(*Controller).updateTaskResults"}, "inst": {"(*Controller).updateValue", "New"},
		"valueSeqNum": {"(*Controller).updateValue"}, "tasks": {"(*Controller).getTask"}, "taskCh": {"New"},
	})
	// errcheck-style baseline: a newly discarded error in the package is a dropped protocol/validation step
	c.checkErrorDiscipline("errors.no-new-dropped-error", "tools/flow", map[string]string{
		"(*Controller).findRootTasks|cue.Value.Fields": "iteration over a value that was validated before; an error yields no tasks and surfaces as invalid root",
		"(*Controller).findRootTasks|cue.Value.List": "as above",
		"(*Controller).markReady|internal/cuedebug.Init": "debug flag initialisation",
		"(*Controller).markTaskDependencies|internal/core/dep.Visit": "dep.Visit only returns the visitor's error, and the visitor never returns one",
	})
	p := c.pkg("tools/flow")
	// resolve the enum and the state field
	stateT, _ := p.Types.Scope().Lookup("State").(*types.TypeName)
	taskT, _ := p.Types.Scope().Lookup("Task").(*types.TypeName)
	if stateT == nil || taskT == nil {
		c.broken("anchor: tools/flow.State or tools/flow.Task not found")
	}
	consts := map[string]constant.Value{}
	for _, name := range p.Types.Scope().Names() {
		if k, ok := p.Types.Scope().Lookup(name).(*types.Const); ok && k.Type() == stateT.Type() {
			consts[name] = k.Val()
		}
	}
	for _, want := range []string{"Waiting", "Ready", "Running", "Terminated"} {
		if _, ok := consts[want]; !ok {
			c.broken("anchor: State constant %s not found", want)
		}
	}
	c.check("typestate.enum", fl+"State", stateT.Pos(), len(consts) == 4,
		fmt.Sprintf("the state machine has exactly the four reviewed states; found %d (a new state needs the transition table re-read)", len(consts)))

	c18Transitions(c, consts)
	c18Ready(c, consts)
	c18FoldBeforeRelease(c)
	c18Confinement(c)
	c18Accumulate(c)
	c18ImpliedTask(c)
	c18TerminatedReleases(c)
	c18OperandContexts(c)
	c18Cycle(c)
	c.expect("typestate.transition", 4)
}

var c18Allowed = map[string]bool{
	"Waiting->Ready": true, "Ready->Running": true, "Running->Terminated": true, "Waiting->Terminated": true,
}

func isStateSel(info *types.Info, e ast.Expr) (recv string, ok bool) {
	sel, isSel := ast.Unparen(e).(*ast.SelectorExpr)
	if !isSel || sel.Sel.Name != "state" {
		return "", false
	}
	s := info.Selections[sel]
	if s == nil || s.Kind() != types.FieldVal || !strings.HasSuffix(typeKey(s.Recv()), "tools/flow.Task") {
		return "", false
	}
	return exprString(sel.X), true
}

func c18Transitions(c *Ctx, consts map[string]constant.Value) {
	p := c.pkg("tools/flow")
	names := []string{"?", "Waiting", "Ready", "Running", "Terminated", "received"}
	idx := map[string]int{}
	for i, n := range names {
		idx[n] = i
	}
	constName := func(info *types.Info, e ast.Expr) string {
		if k, ok := identObj(info, e).(*types.Const); ok {
			if _, ok := consts[k.Name()]; ok {
				return k.Name()
			}
		}
		return ""
	}
	var writers []string
	ord := map[string]int{}
	total := 0
	for _, f := range c.funcs(p) {
		bodies := append([]*Fn{f}, c.lits(f)...)
		for _, b := range bodies {
			info := b.Info()
			g := c.graph(b)
			type asg struct {
				node int
				recv string
				to   string
			}
			var asgs []asg
			for _, n := range g.Nodes {
				as, ok := n.N.(*ast.AssignStmt)
				if !ok {
					continue
				}
				for i, l := range as.Lhs {
					if recv, ok := isStateSel(info, l); ok && i < len(as.Rhs) {
						asgs = append(asgs, asg{n.ID, recv, constName(info, as.Rhs[i])})
					}
				}
			}
			if len(asgs) == 0 {
				continue
			}
			writers = append(writers, b.Name)
			c.analysed[b.Name] = true
			for _, a := range asgs {
				total++
				recv := a.recv
				in := g.run(Automaton{
					Init: 0,
					OnNode: func(id, st int) int {
						n := g.Nodes[id]
						if n.Kind.String() == "RangeLoop" || n.Kind.String() == "ForLoop" {
							return 0
						}
						if as, ok := n.N.(*ast.AssignStmt); ok {
							for i, l := range as.Lhs {
								if r, ok := isStateSel(info, l); ok && r == recv && i < len(as.Rhs) {
									if k := constName(info, as.Rhs[i]); k != "" {
										return idx[k]
									}
									return 0
								}
								// rebinding of the receiver variable
								if id2, ok := ast.Unparen(l).(*ast.Ident); ok && id2.Name == recv {
									if len(as.Rhs) == 1 {
										if u, ok := ast.Unparen(as.Rhs[0]).(*ast.UnaryExpr); ok && u.Op == token.ARROW && strings.HasSuffix(exprString(u.X), "taskCh") {
											return idx["received"]
										}
									}
									return 0
								}
							}
						}
						return st
					},
					OnEdge: func(from int, e GEdge, st int) int {
						if e.SwitchTag != nil && e.Truth {
							if r, ok := isStateSel(info, e.SwitchTag); ok && r == recv {
								if k := constName(info, e.CaseVal); k != "" {
									return idx[k]
								}
							}
						}
						if e.Cond != nil {
							m := func(x ast.Expr) (bool, bool) {
								be, ok := x.(*ast.BinaryExpr)
								if !ok || be.Op != token.EQL {
									return false, false
								}
								if r, ok := isStateSel(info, be.X); ok && r == recv && constName(info, be.Y) != "" {
									return true, false
								}
								return false, false
							}
							pz := atomOnEdge(e.Cond, e.Truth, m)
							if pz.present && pz.good && !pz.bad && !pz.na {
								// find the constant
								var k string
								ast.Inspect(e.Cond, func(n ast.Node) bool {
									if be, ok := n.(*ast.BinaryExpr); ok && be.Op == token.EQL {
										if r, ok := isStateSel(info, be.X); ok && r == recv {
											k = constName(info, be.Y)
										}
									}
									return true
								})
								if k != "" {
									return idx[k]
								}
							}
						}
						return st
					},
				})
				var from []string
				for i, nme := range names {
					if in[a.node]&(1<<uint(i)) != 0 {
						from = append(from, nme)
					}
				}
				ok := a.to != "" && len(from) > 0
				var rel []string
				for _, src := range from {
					s := src
					if s == "received" {
						s = "Running" // justified by typestate.received-are-running
					}
					t := s + "->" + a.to
					rel = append(rel, t)
					if !c18Allowed[t] {
						ok = false
					}
				}
				ord[b.Name+a.recv+a.to]++
				c.check("typestate.transition", fmt.Sprintf("%s/%s.state=%s#%d", b.Name, a.recv, a.to, ord[b.Name+a.recv+a.to]), g.pos(a.node), ok,
					fmt.Sprintf("transition(s) %v must be within {Waiting->Ready, Ready->Running, Running->Terminated, Waiting->Terminated}: nothing leaves Terminated and nothing re-enters Ready/Running ('?' = source state not established by a guard)", rel))
			}
		}
	}
	sort.Strings(writers)
	okW := true
	for _, w := range writers {
		switch strings.TrimPrefix(w, fl) {
		case "(*Controller).runLoop", "(*Controller).markReady":
		default:
			okW = false
		}
	}
	c.check("typestate.state-writers", fl+"Task.state", token.NoPos, okW && total > 0,
		fmt.Sprintf("Task.state may be assigned only in the controller goroutine's runLoop/markReady; writers: %v", writers))

	// tasks received from taskCh are Running: the only sends are in the
	// goroutine started after `t.state = Running` in the same case.
	rl := c.fn("tools/flow", "(*Controller).runLoop")
	g := c.graph(rl)
	info := rl.Info()
	goNodes := g.find(func(n ast.Node) bool { _, ok := n.(*ast.GoStmt); return ok })
	sendsOutside := 0
	for _, f := range c.funcs(p) {
		ast.Inspect(f.Body, func(n ast.Node) bool {
			s, ok := n.(*ast.SendStmt)
			if !ok || !strings.HasSuffix(exprString(s.Chan), "taskCh") {
				return true
			}
			inGo := false
			if f.Name == rl.Name {
				for _, gn := range goNodes {
					gs := g.Nodes[gn].N.(*ast.GoStmt)
					if gs.Pos() <= s.Pos() && s.End() <= gs.End() {
						inGo = true
					}
				}
			}
			if !inGo {
				sendsOutside++
			}
			return true
		})
	}
	okRun := len(goNodes) == 1 && sendsOutside == 0
	if okRun {
		// the go statement is reached only with state == Running (index 3)
		gs := g.Nodes[goNodes[0]].N.(*ast.GoStmt)
		recv := ""
		if len(gs.Call.Args) == 1 {
			recv = exprString(gs.Call.Args[0])
		}
		setRunning := g.find(func(n ast.Node) bool {
			as, ok := n.(*ast.AssignStmt)
			if !ok {
				return false
			}
			for i, l := range as.Lhs {
				if r, ok := isStateSel(info, l); ok && r == recv {
					if k, ok := identObj(info, as.Rhs[i]).(*types.Const); ok && k.Name() == "Running" {
						return true
					}
				}
			}
			return false
		})
		okRun = len(setRunning) > 0 && g.mustPassNode(goNodes[0], setOf(setRunning))
		// no other state assignment between
		for _, sr := range setRunning {
			between := g.reachableFrom(sr)
			for id := range between {
				if as, ok := g.Nodes[id].N.(*ast.AssignStmt); ok && id != sr {
					for _, l := range as.Lhs {
						if r, ok := isStateSel(info, l); ok && r == recv && g.reachableFrom(id)[goNodes[0]] && !g.reachableFrom(id)[sr] {
							okRun = false
						}
					}
				}
			}
		}
	}
	c.check("typestate.received-are-running", rl.Name, rl.Body.Pos(), okRun,
		"the only sends on taskCh must be in the single task goroutine, which is started only after `t.state = Running` (so a received task is Running)")
}

func c18Ready(c *Ctx, consts map[string]constant.Value) {
	mr := c.fn("tools/flow", "(*Controller).markReady")
	g := c.graph(mr)
	info := mr.Info()
	accept := setOf(g.find(func(n ast.Node) bool {
		as, ok := n.(*ast.AssignStmt)
		if !ok {
			return false
		}
		for i, l := range as.Lhs {
			if _, ok := isStateSel(info, l); ok {
				if k, ok := identObj(info, as.Rhs[i]).(*types.Const); ok && k.Name() == "Ready" {
					return true
				}
			}
		}
		return false
	}))
	isReady := func(e ast.Expr) (bool, bool) {
		call, ok := e.(*ast.CallExpr)
		if !ok || calleeName(info, call) != fl+"(*Task).isReady" {
			return false, false
		}
		return true, false
	}
	head := -1
	for _, n := range g.Nodes {
		if n.Kind.String() == "RangeLoop" {
			head = n.ID
		}
	}
	_, body, _ := g.rangeLoop(func(*ast.RangeStmt) bool { return true })
	r := g.gate(isReady, accept, map[int]bool{head: true}, body)
	c.check("ready.needs-isReady", mr.Name, mr.Body.Pos(), len(accept) > 0 && r.found && !r.leak && !r.bypass,
		fmt.Sprintf("`x.state = Ready` must lie behind x.isReady() being true (found=%v leak=%v bypass=%v)", r.found, r.leak, r.bypass))
	// the isReady receiver is the task being marked
	same := false
	ast.Inspect(mr.Body, func(n ast.Node) bool {
		if call, ok := n.(*ast.CallExpr); ok && calleeName(info, call) == fl+"(*Task).isReady" {
			if sel, ok := ast.Unparen(call.Fun).(*ast.SelectorExpr); ok {
				for a := range accept {
					as := g.Nodes[a].N.(*ast.AssignStmt)
					if recv, ok := isStateSel(info, as.Lhs[0]); ok && recv == exprString(sel.X) {
						same = true
					}
				}
			}
		}
		return true
	})
	c.check("ready.same-task", mr.Name, mr.Body.Pos(), same, "isReady must be asked of the task whose state is set to Ready")

	// isReady: true only if every depTask is done
	ir := c.fn("tools/flow", "(*Task).isReady")
	gi := c.graph(ir)
	ii := ir.Info()
	var retTrue, retFalse []int
	for _, rn := range gi.returns() {
		ret := gi.Nodes[rn].N.(*ast.ReturnStmt)
		if len(ret.Results) == 1 {
			if tv := ii.Types[ret.Results[0]]; tv.Value != nil && tv.Value.Kind() == constant.Bool {
				if constant.BoolVal(tv.Value) {
					retTrue = append(retTrue, rn)
				} else {
					retFalse = append(retFalse, rn)
				}
				continue
			}
		}
		retTrue = append(retTrue, rn) // non-constant result: may be true
	}
	ihead, _, irs := gi.rangeLoop(func(rs *ast.RangeStmt) bool {
		sel, ok := ast.Unparen(rs.X).(*ast.SelectorExpr)
		return ok && sel.Sel.Name == "depTasks"
	})
	okIR := ihead >= 0 && len(retTrue) > 0
	det := "isReady must range over t.depTasks"
	if okIR {
		dv := identObj(ii, irs.Value)
		done := func(e ast.Expr) (bool, bool) {
			call, ok := e.(*ast.CallExpr)
			if !ok || calleeName(ii, call) != fl+"(*Task).done" {
				return false, false
			}
			sel, ok := ast.Unparen(call.Fun).(*ast.SelectorExpr)
			if !ok || identObj(ii, sel.X) != dv {
				return false, false
			}
			return true, false
		}
		acc := setOf(retTrue)
		acc[ihead] = true
		_, ibody, _ := gi.rangeLoop(func(rs *ast.RangeStmt) bool { return rs == irs })
		r := gi.gate(done, acc, nil, ibody)
		okIR = r.found && !r.leak && !r.bypass
		for _, rt := range retTrue {
			if !gi.mustPassNode(rt, map[int]bool{ihead: true}) {
				okIR = false
			}
		}
		det = fmt.Sprintf("isReady may return true only after the loop over t.depTasks found every d.done() true; a dependency that is not done must return false (found=%v leak=%v bypass=%v)", r.found, r.leak, r.bypass)
	}
	c.check("ready.all-deps-done", ir.Name, ir.Body.Pos(), okIR, det)

	// done(): satisfied exactly by Terminated
	dn := c.fn("tools/flow", "(*Task).done")
	di := dn.Info()
	var sat []string
	okDone := false
	ast.Inspect(dn.Body, func(n ast.Node) bool {
		ret, ok := n.(*ast.ReturnStmt)
		if !ok || len(ret.Results) != 1 {
			return true
		}
		be, ok := ast.Unparen(ret.Results[0]).(*ast.BinaryExpr)
		if !ok {
			return true
		}
		var k constant.Value
		stateLeft := false
		if _, ok := isStateSel(di, be.X); ok {
			stateLeft = true
			if tv := di.Types[be.Y]; tv.Value != nil {
				k = tv.Value
			}
		} else if _, ok := isStateSel(di, be.Y); ok {
			if tv := di.Types[be.X]; tv.Value != nil {
				k = tv.Value
			}
		}
		if k == nil {
			return true
		}
		okDone = true
		for name, v := range consts {
			var res bool
			if stateLeft {
				res = constant.Compare(v, be.Op, k)
			} else {
				res = constant.Compare(k, be.Op, v)
			}
			if res {
				sat = append(sat, name)
			}
		}
		return true
	})
	sort.Strings(sat)
	c.check("ready.done-means-terminated", dn.Name, dn.Body.Pos(), okDone && len(sat) == 1 && sat[0] == "Terminated",
		fmt.Sprintf("done() must hold exactly for state Terminated; it holds for %v", sat))
}

func c18FoldBeforeRelease(c *Ctx) {
	rl := c.fn("tools/flow", "(*Controller).runLoop")
	g := c.graph(rl)
	info := rl.Info()
	// the receive node
	recv := g.find(func(n ast.Node) bool {
		as, ok := n.(*ast.AssignStmt)
		if !ok || len(as.Rhs) != 1 {
			return false
		}
		u, ok := ast.Unparen(as.Rhs[0]).(*ast.UnaryExpr)
		return ok && u.Op == token.ARROW && strings.HasSuffix(exprString(u.X), "taskCh")
	})
	if !c.check("release.receive", rl.Name, rl.Body.Pos(), len(recv) == 1, "runLoop must receive completed tasks from taskCh in exactly one place") {
		return
	}
	after := g.reachableFrom(recv[0])
	tVar := identObj(info, g.Nodes[recv[0]].N.(*ast.AssignStmt).Lhs[0])
	pick := func(callee string) map[int]bool {
		m := map[int]bool{}
		for id := range g.callNodes(callee) {
			m[id] = true
		}
		return m
	}
	mark := map[int]bool{}
	for id, call := range g.callNodes(fl + "(*Controller).markReady") {
		if len(call.Args) == 1 && identObj(info, call.Args[0]) == tVar {
			mark[id] = true
		}
	}
	results := pick(fl + "(*Controller).updateTaskResults")
	upd := pick(fl + "(*Controller).updateValue")
	okFold := len(mark) > 0 && len(results) > 0 && len(upd) > 0
	for m := range mark {
		// from the receive, markReady is unreachable without updateTaskResults
		r := g.reach([]int{recv[0]}, func(id int) bool { return results[id] }, nil)
		if r[m] {
			okFold = false
		}
		for rs := range results {
			r2 := g.reach([]int{rs}, func(id int) bool { return upd[id] }, nil)
			if r2[m] {
				okFold = false
			}
		}
		_ = after
	}
	c.check("release.fold-before-markReady", rl.Name, g.pos(recv[0]), okFold,
		"after a task completes, every path to markReady(t) must pass updateTaskResults(t) and then updateValue() (dependants must see the filled configuration)")
	// a changed configuration is re-analysed (initTasks) before dependants are released
	initN := pick(fl + "(*Controller).initTasks")
	changed := func(e ast.Expr) (bool, bool) {
		call, ok := e.(*ast.CallExpr)
		if !ok || calleeName(info, call) != fl+"(*Controller).updateValue" {
			return false, false
		}
		return true, true
	}
	rg := g.gate(changed, mark, initN, -1)
	c.check("release.reinit-when-config-changed", rl.Name, g.pos(recv[0]), rg.found && !rg.leak && len(initN) > 0,
		"whenever updateValue() reports a changed configuration, initTasks must run before markReady(t): new tasks and dependencies that appear in the more concrete configuration must be known before dependants are released (no other condition may suppress it)")

	// failure edge returns: markReady reachable only through `case nil` of switch t.err
	okFail := true
	for m := range mark {
		r := g.reach([]int{recv[0]}, nil, func(from int, e GEdge) bool {
			if e.SwitchTag == nil || !e.Truth {
				return false
			}
			sel, ok := ast.Unparen(e.SwitchTag).(*ast.SelectorExpr)
			return ok && sel.Sel.Name == "err" && identObj(info, sel.X) == tVar && isNilIdent(e.CaseVal)
		})
		if r[m] {
			okFail = false
		}
	}
	c.check("release.failure-stops-dependants", rl.Name, g.pos(recv[0]), okFail && len(mark) > 0,
		"markReady(t) must be reachable only through the `case nil` branch of `switch t.err`: a failed or aborted task must not release its dependants")
	// failing branch records the error
	addErr := pick(fl + "(*Controller).addErr")
	okRec := false
	for _, n := range g.Nodes {
		for _, e := range n.Succs {
			if e.SwitchTag == nil || !e.Truth || !isNilIdent(e.CaseVal) {
				continue
			}
			// the false edge of the `nil` case leads to addErr before any return
			for _, e2 := range n.Succs {
				if e2.Truth {
					continue
				}
				rr := g.reach([]int{e2.To}, func(id int) bool { return addErr[id] }, nil)
				okRec = !rr[g.Exit] || addErr[e2.To]
			}
		}
	}
	c.check("release.failure-recorded", rl.Name, g.pos(recv[0]), okRec, "a task error must be added to c.errs before runLoop returns")

	// the goroutine starts only after updateTaskValue(t)
	goNodes := g.find(func(n ast.Node) bool { _, ok := n.(*ast.GoStmt); return ok })
	utv := pick(fl + "(*Controller).updateTaskValue")
	okGo := len(goNodes) == 1
	if okGo {
		head := -1
		for _, n := range g.Nodes {
			if n.Kind.String() == "RangeLoop" {
				head = n.ID
			}
		}
		r := g.reach([]int{head}, func(id int) bool { return utv[id] }, nil)
		okGo = head >= 0 && !r[goNodes[0]]
	}
	c.check("release.value-updated-before-start", rl.Name, rl.Body.Pos(), okGo,
		"the task goroutine must start only after c.updateTaskValue(t) in the same iteration (the dependant sees the results of its dependencies)")
	// the loop condition consults c.errs
	okLoop := false
	ast.Inspect(rl.Body, func(n ast.Node) bool {
		if fs, ok := n.(*ast.ForStmt); ok && fs.Cond != nil && strings.Contains(exprString(fs.Cond), "errs == nil") {
			okLoop = true
		}
		return true
	})
	c.check("release.loop-stops-on-error", rl.Name, rl.Body.Pos(), okLoop, "runLoop's loop must test c.errs == nil (errors, including cycles found by initTasks, stop dispatch)")

	// the loop blocks on taskCh exactly when a goroutine is outstanding:
	// `running = true` may be set only for a task that is in state Running at
	// the scan or whose goroutine is started in the same iteration, and every
	// started goroutine sets it.
	var runningObj types.Object
	setRunning := g.find(func(n ast.Node) bool {
		as, ok := n.(*ast.AssignStmt)
		if !ok || len(as.Lhs) != 1 || len(as.Rhs) != 1 || as.Tok != token.ASSIGN {
			return false
		}
		id, ok := as.Lhs[0].(*ast.Ident)
		if !ok || id.Name != "running" || exprString(as.Rhs[0]) != "true" {
			return false
		}
		runningObj = info.Uses[id]
		return true
	})
	head := -1
	for _, n := range g.Nodes {
		if n.Kind.String() == "RangeLoop" {
			head = n.ID
		}
	}
	okFlag := len(setRunning) >= 2 && len(goNodes) == 1 && head >= 0 && runningObj != nil
	detFlag := ""
	if okFlag {
		// which sets are dominated by the `case Running` edge?
		viaRunningCase := g.reach([]int{head}, nil, func(from int, e GEdge) bool {
			if e.SwitchTag == nil || !e.Truth {
				return false
			}
			k, ok := identObj(info, e.CaseVal).(*types.Const)
			return ok && k.Name() == "Running"
		})
		for _, s := range setRunning {
			if !viaRunningCase[s] {
				continue // only reachable through `case Running`
			}
			// otherwise the goroutine must be started in the same iteration:
			// before it (go ... ; running = true) or after it on every path
			before := !g.reach([]int{head}, func(id int) bool { return id == goNodes[0] }, nil)[s]
			after := !g.reach([]int{s}, func(id int) bool { return id == goNodes[0] }, nil)[head]
			if !before && !after {
				okFlag = false
				detFlag = fmt.Sprintf("; `running = true` at %s can be reached for a task for which no goroutine is started", c.pos(g.pos(s)))
			}
		}
		// every started goroutine is counted
		sets := setOf(setRunning)
		setBefore := !g.reach([]int{head}, func(id int) bool { return sets[id] }, nil)[goNodes[0]]
		setAfter := !g.reach([]int{goNodes[0]}, func(id int) bool { return sets[id] }, nil)[head]
		if !setBefore && !setAfter {
			okFlag = false
			detFlag += "; a goroutine can be started without `running = true` in that iteration (the loop would stop while the task runs)"
		}
	}
	c.check("release.running-flag-matches-goroutines", rl.Name, rl.Body.Pos(), okFlag,
		"runLoop waits on taskCh iff `running`; it must be set exactly for tasks already Running or started in this iteration — a task dropped because its path vanished must not count, or Run never returns"+detFlag)
}

// c18Accumulate: results a runner reports with Task.Fill accumulate until the
// controller folds them into the configuration.
func c18Accumulate(c *Ctx) {
	p := c.pkg("tools/flow")
	n := 0
	for _, f := range c.funcs(p) {
		g := c.graph(f)
		info := f.Info()
		isUpdate := func(e ast.Expr) (ast.Expr, bool) {
			sel, ok := ast.Unparen(e).(*ast.SelectorExpr)
			if !ok || sel.Sel.Name != "update" {
				return nil, false
			}
			v, ok := info.Uses[sel.Sel].(*types.Var)
			return sel.X, ok && v.IsField() && v.Pkg() != nil && strings.HasSuffix(v.Pkg().Path(), "tools/flow")
		}
		for _, nd := range g.Nodes {
			as, ok := nd.N.(*ast.AssignStmt)
			if !ok {
				continue
			}
			for i, l := range as.Lhs {
				recv, ok := isUpdate(l)
				if !ok || len(as.Rhs) != len(as.Lhs) {
					continue
				}
				n++
				rhs := as.Rhs[i]
				key := fmt.Sprintf("%s#update%d", f.Name, n)
				if isNilIdent(rhs) {
					// reset: only after the pending value was read in this function
					readers := map[int]bool{}
					for _, m := range g.Nodes {
						if m.N == nil || m.ID == nd.ID {
							continue
						}
						if a2, ok := m.N.(*ast.AssignStmt); ok {
							for _, r := range a2.Rhs {
								if _, ok := isUpdate(r); ok {
									readers[m.ID] = true
								}
							}
						}
					}
					c.check("results.fill-accumulates", key, as.Pos(), len(readers) > 0 && g.mustPassNode(nd.ID, readers),
						"Task.update may be reset to nil only after the pending result was taken (read into the conjunct being added)")
					continue
				}
				mentions := false
				ast.Inspect(rhs, func(x ast.Node) bool {
					if e, ok := x.(ast.Expr); ok {
						if r2, ok := isUpdate(e); ok && exprString(r2) == exprString(recv) {
							mentions = true
						}
					}
					return true
				})
				if mentions {
					c.check("results.fill-accumulates", key, as.Pos(), true, "extends the pending result")
					continue
				}
				// a plain store is allowed only where the pending result is known to be nil,
				// or of a local that was extended with the pending result on the way
				extend := map[int]bool{}
				if v := identObj(info, rhs); v != nil {
					for _, m := range g.Nodes {
						a2, ok := m.N.(*ast.AssignStmt)
						if !ok || len(a2.Lhs) != len(a2.Rhs) {
							continue
						}
						for j, l2 := range a2.Lhs {
							if identObj(info, l2) != v {
								continue
							}
							ast.Inspect(a2.Rhs[j], func(x ast.Node) bool {
								if e, ok := x.(ast.Expr); ok {
									if r2, ok := isUpdate(e); ok && exprString(r2) == exprString(recv) {
										extend[m.ID] = true
									}
								}
								return true
							})
						}
					}
				}
				r := g.reach([]int{g.Entry}, func(id int) bool { return extend[id] }, func(from int, e GEdge) bool {
					if e.Cond == nil {
						return false
					}
					be, ok := ast.Unparen(e.Cond).(*ast.BinaryExpr)
					if !ok || !isNilIdent(be.Y) {
						return false
					}
					if _, ok := isUpdate(be.X); !ok {
						return false
					}
					return (be.Op == token.EQL) == e.Truth
				})
				c.check("results.fill-accumulates", key, as.Pos(), !r[nd.ID],
					"a store to Task.update that does not extend the pending value (t.update & x) is allowed only where t.update == nil: a runner may call Fill several times before the controller folds the result, and every reported value must reach the configuration")
			}
		}
	}
	c.expect("results.fill-accumulates", 2)
}

func c18Confinement(c *Ctx) {
	p := c.pkg("tools/flow")
	rl := c.fn("tools/flow", "(*Controller).runLoop")
	g := c.graph(rl)
	goNodes := g.find(func(n ast.Node) bool { _, ok := n.(*ast.GoStmt); return ok })
	if len(goNodes) != 1 {
		c.check("confinement.goroutine", rl.Name, rl.Body.Pos(), false, "expected exactly one go statement in runLoop")
		return
	}
	lit, ok := ast.Unparen(g.Nodes[goNodes[0]].N.(*ast.GoStmt).Call.Fun).(*ast.FuncLit)
	if !ok {
		c.check("confinement.goroutine", rl.Name, rl.Body.Pos(), false, "the task goroutine must be a function literal")
		return
	}
	var cl *Fn
	for _, l := range c.lits(rl) {
		if l.Lit == lit {
			cl = l
		}
	}
	c.analysed[cl.Name] = true
	fieldWrites := func(f *Fn) []string {
		var out []string
		info := f.Info()
		ast.Inspect(f.Body, func(n ast.Node) bool {
			var lhs []ast.Expr
			switch s := n.(type) {
			case *ast.AssignStmt:
				lhs = s.Lhs
			case *ast.IncDecStmt:
				lhs = []ast.Expr{s.X}
			}
			for _, l := range lhs {
				e := ast.Unparen(l)
				for {
					if ix, ok := e.(*ast.IndexExpr); ok {
						e = ast.Unparen(ix.X)
						continue
					}
					break
				}
				sel, ok := e.(*ast.SelectorExpr)
				if !ok {
					continue
				}
				s := info.Selections[sel]
				if s == nil || s.Kind() != types.FieldVal {
					continue
				}
				tk := typeKey(s.Recv())
				if strings.HasSuffix(tk, "tools/flow.Task") || strings.HasSuffix(tk, "tools/flow.Controller") {
					out = append(out, tk[strings.LastIndex(tk, ".")+1:]+"."+sel.Sel.Name)
				}
			}
			return true
		})
		sort.Strings(out)
		return uniq(out)
	}
	w := fieldWrites(cl)
	okW := true
	for _, x := range w {
		if x != "Task.err" {
			okW = false
		}
	}
	c.check("confinement.goroutine-writes", cl.Name, cl.Body.Pos(), okW,
		fmt.Sprintf("the task goroutine may write only Task.err; it writes %v", w))
	// last action on every path: send on taskCh
	gc := c.graph(cl)
	sends := setOf(gc.find(func(n ast.Node) bool {
		s, ok := n.(*ast.SendStmt)
		return ok && strings.HasSuffix(exprString(s.Chan), "taskCh")
	}))
	okSend := len(sends) > 0 && gc.mustPassNode(gc.Exit, sends)
	for s := range sends {
		// nothing but the exit after the send
		for id := range gc.reachableFrom(s) {
			if id != gc.Exit && gc.Nodes[id].N != nil {
				if _, isRet := gc.Nodes[id].N.(*ast.ReturnStmt); !isRet {
					okSend = false
				}
			}
		}
	}
	c.check("confinement.goroutine-ends-with-send", cl.Name, cl.Body.Pos(), okSend,
		"every path through the task goroutine must end with the send of the task on taskCh (exactly one completion per started task)")
	// the task sent is the goroutine's own parameter
	okParam := false
	for s := range sends {
		ss := gc.Nodes[s].N.(*ast.SendStmt)
		if v, ok := identObj(cl.Info(), ss.Value).(*types.Var); ok && isParamOf(cl, v) {
			okParam = true
		}
	}
	c.check("confinement.goroutine-sends-own-task", cl.Name, cl.Body.Pos(), okParam, "the goroutine must report its own task")

	// runner-facing exported methods of *Task
	for _, f := range c.funcs(p) {
		if f.Decl.Recv == nil || !f.Decl.Name.IsExported() || !strings.Contains(f.Name, "(*Task).") {
			continue
		}
		w := fieldWrites(f)
		ok := true
		for _, x := range w {
			if x != "Task.update" {
				ok = false
			}
		}
		if len(w) > 0 || f.Decl.Name.Name == "Fill" {
			c.check("confinement.task-api-writes", f.Name, f.Decl.Pos(), ok,
				fmt.Sprintf("methods a Runner may call from the task goroutine may write only Task.update; %s writes %v", f.Decl.Name.Name, w))
		}
	}
}

func c18Cycle(c *Ctx) {
	it := c.fn("tools/flow", "(*Controller).initTasks")
	g := c.graph(it)
	info := it.Info()
	cyc := g.callNodes(fl + "checkCycle")
	addErr := g.callNodes(fl + "(*Controller).addErr")
	via := map[int]bool{}
	for id := range cyc {
		via[id] = true
	}
	for id := range addErr {
		via[id] = true
	}
	c.check("cycle.checked-on-every-path", it.Name, it.Body.Pos(), len(cyc) > 0 && g.mustPassNode(g.Exit, via),
		"every path through initTasks must evaluate checkCycle (or already have recorded an error)")
	okErr := false
	for id, call := range cyc {
		v, _ := errVarOfCall(info, g.Nodes[id].N, call)
		if v == nil {
			continue
		}
		// from the failing edge, exit is unreachable without addErr
		r := g.gate(atomErrVar(info, v), map[int]bool{g.Exit: true}, func() map[int]bool {
			m := map[int]bool{}
			for id := range addErr {
				m[id] = true
			}
			return m
		}(), -1)
		okErr = r.found && !r.leak
		// checkCycle is applied to the controller's tasks
		if len(call.Args) != 1 || !strings.HasSuffix(exprString(call.Args[0]), ".tasks") {
			okErr = false
		}
	}
	c.check("cycle.error-recorded", it.Name, it.Body.Pos(), okErr, "a cycle reported by checkCycle(c.tasks) must be added to c.errs")
	// initTasks is called from New and from runLoop after the configuration changed
	for _, caller := range []string{"New", "(*Controller).runLoop"} {
		f := c.fn("tools/flow", caller)
		found := false
		ast.Inspect(f.Body, func(n ast.Node) bool {
			if call, ok := n.(*ast.CallExpr); ok && calleeName(f.Info(), call) == fl+"(*Controller).initTasks" {
				found = true
			}
			return true
		})
		c.check("cycle.initTasks-called", f.Name, f.Decl.Pos(), found, caller+" must (re)initialise tasks through initTasks, which runs the cycle check")
	}
}

// c18ImpliedTask: dependency discovery under IgnoreConcrete. A reference to a
// concrete *scalar* cannot change any more and creates no dependency; structs
// and lists are never final (a task may still fill in fields or elements), so a
// reference to them must still be looked up in the task index.
func c18ImpliedTask(c *Ctx) {
	f := c.fn("tools/flow", "(*Controller).findImpliedTask")
	cf := newCaseFn(c, f)
	var ign, conc, isStruct, isList string
	for k := range cf.atoms() {
		switch {
		case strings.HasSuffix(k, ".IgnoreConcrete"):
			ign = k
		case strings.HasSuffix(k, ".IsConcrete()"):
			conc = k
		case strings.Contains(k, "StructKind") && strings.Contains(k, " == "):
			isStruct = k
		case strings.Contains(k, "ListKind") && strings.Contains(k, " == "):
			isList = k
		}
	}
	lookup := -1
	for _, n := range cf.g.Nodes {
		if as, ok := n.N.(*ast.AssignStmt); ok && len(as.Rhs) == 1 && strings.HasSuffix(exprString(as.Rhs[0]), ".nodes[n]") {
			lookup = n.ID
		}
	}
	if ign == "" || conc == "" || isStruct == "" || isList == "" || lookup < 0 {
		c.check("deps.concrete-containers-still-depend", f.Name, f.Decl.Pos(), false,
			fmt.Sprintf("findImpliedTask must distinguish concrete scalars from concrete structs and lists under IgnoreConcrete before looking the node up in c.nodes (tests found: %q %q %q %q, lookup=%v)", ign, conc, isStruct, isList, lookup >= 0))
		return
	}
	start := cf.condNode(ign)
	for _, row := range []struct {
		name         string
		strct, list  bool
		mustLookup   bool
	}{
		{"concrete-struct", true, false, true},
		{"concrete-list", false, true, true},
		{"concrete-scalar", false, false, false},
	} {
		rets, vis := cf.walkBlocked(start, map[string]bool{ign: true, conc: true, isStruct: row.strct, isList: row.list}, map[int]bool{lookup: true})
		early := false
		for _, r := range rets {
			if r == "nil" {
				early = true
			}
		}
		ok := vis[lookup] == row.mustLookup && early == !row.mustLookup
		c.check("deps.concrete-containers-still-depend", f.Name+"/"+row.name, f.Decl.Pos(), ok,
			fmt.Sprintf("under IgnoreConcrete a reference to a %s must%s reach the task lookup (structs and lists are never final: a task may still fill them); lookup reached=%v, early nil=%v", row.name, map[bool]string{true: "", false: " not"}[row.mustLookup], vis[lookup], early))
	}
}

// c18TerminatedReleases: a task that reaches Terminated releases its
// dependants only when markReady is called afterwards. The normal completion
// path (receive from taskCh) does that; every *other* assignment of Terminated
// inside the run loop — a Ready task dropped because its path vanished — must
// also reach markReady before the loop decides that nothing is running
// (break / "deadlock"), or the dependants stay Waiting for ever.
func c18TerminatedReleases(c *Ctx) {
	rl := c.fn("tools/flow", "(*Controller).runLoop")
	g := c.graph(rl)
	info := rl.Info()
	mark := g.callNodes("tools/flow.(*Controller).markReady")
	term := g.find(func(n ast.Node) bool {
		as, ok := n.(*ast.AssignStmt)
		if !ok || len(as.Lhs) != 1 || len(as.Rhs) != 1 {
			return false
		}
		sel, ok := as.Lhs[0].(*ast.SelectorExpr)
		if !ok || sel.Sel.Name != "state" {
			return false
		}
		k, ok := identObj(info, as.Rhs[0]).(*types.Const)
		return ok && k.Name() == "Terminated"
	})
	// the decision "nothing is running": the condition node on `!running`
	var decide []int
	for _, n := range g.Nodes {
		for _, e := range n.Succs {
			if e.Cond != nil && strings.Contains(exprString(e.Cond), "running") && !strings.Contains(exprString(e.Cond), "Running") {
				decide = append(decide, n.ID)
			}
		}
	}
	ok := len(term) >= 2 && len(mark) > 0 && len(decide) > 0
	det := ""
	for _, t := range term {
		// variables set to a non-nil value right after the assignment (a
		// "remember this task" flag): the edge on which such a variable tests
		// nil is infeasible afterwards
		nonNil := map[types.Object]bool{}
		for cur, steps := t, 0; steps < 4; steps++ {
			if len(g.Nodes[cur].Succs) != 1 {
				break
			}
			cur = g.Nodes[cur].Succs[0].To
			if as, ok := g.Nodes[cur].N.(*ast.AssignStmt); ok && len(as.Lhs) == 1 && len(as.Rhs) == 1 && !isNilIdent(as.Rhs[0]) {
				if o := identObj(info, as.Lhs[0]); o != nil {
					if _, isPtr := o.Type().Underlying().(*types.Pointer); isPtr {
						nonNil[o] = true
					}
				}
			}
		}
		infeasible := func(from int, e GEdge) bool {
			if e.Cond == nil {
				return false
			}
			be, ok := ast.Unparen(e.Cond).(*ast.BinaryExpr)
			if !ok || !isNilIdent(be.Y) || !nonNil[identObj(info, be.X)] {
				return false
			}
			return (be.Op == token.NEQ) != e.Truth
		}
		r := g.reach([]int{t}, func(id int) bool { _, is := mark[id]; return is }, infeasible)
		for _, d := range decide {
			// reaching the decision and then leaving the loop (break/return/exit) without markReady
			if r[d] {
				r2 := g.reach([]int{d}, func(id int) bool { _, is := mark[id]; return is }, infeasible)
				if r2[g.Exit] {
					ok = false
					det = fmt.Sprintf("; the Terminated assignment at %s reaches the `!running` decision and the loop exit without markReady", c.pos(g.pos(t)))
				}
			}
		}
	}
	c.check("release.every-termination-marks-ready", rl.Name, rl.Body.Pos(), ok,
		"every assignment of Terminated in runLoop must be followed by markReady before the loop can decide that nothing is running: a task dropped because its path vanished counts as completed for its dependants, which otherwise stay Waiting (spurious \"deadlock\" on an acyclic workflow)"+det)
}

// c18OperandContexts: dependency discovery (internal/core/dep) in dynamic mode
// finds references inside list and struct literals by descending into the
// *arcs* they become. A literal that is only an operand — a call argument, the
// source of a `for` clause, the subject of a slice — never becomes an arc of
// the visited node, so its elements must be visited on the spot: the visitor
// forces full traversal (c.all = true, restored afterwards) around such
// operands. The three operand contexts must agree; otherwise
// `in: {for x in [a.out] {...}}` creates no dependency on task a and the
// dependant starts first.
func c18OperandContexts(c *Ctx) {
	const depP = "internal/core/dep"
	p := c.pkgOpt(depP)
	if p == nil {
		c.check("deps.operand-contexts-visit-everything", depP, 0, false, "anchor: package internal/core/dep not loaded")
		return
	}
	type site struct {
		name string
		fn   string
		arg  func(e ast.Expr, info *types.Info) bool
	}
	sites := []site{
		{"call-arguments", "(*visitor).markExpr", func(e ast.Expr, info *types.Info) bool {
			// the range variable of `for _, a := range x.Args`
			id, ok := e.(*ast.Ident)
			return ok && id.Name == "a"
		}},
		{"for-source", "(*visitor).markClauses", func(e ast.Expr, info *types.Info) bool { return strings.HasSuffix(exprString(e), ".Src") }},
		{"slice-subject", "(*visitor).markExpr", func(e ast.Expr, info *types.Info) bool {
			sel, ok := e.(*ast.SelectorExpr)
			if !ok || sel.Sel.Name != "X" {
				return false
			}
			t := info.TypeOf(sel.X)
			return t != nil && strings.HasSuffix(t.String(), "adt.SliceExpr")
		}},
	}
	for _, s := range sites {
		f := c.fn(depP, s.fn)
		info := f.Info()
		found, ok := false, false
		var pos token.Pos
		// walk blocks: the call (or the loop containing it) must have `c.all = true` before and `c.all = <saved>` after it in the same statement list
		ast.Inspect(f.Body, func(n ast.Node) bool {
			var list []ast.Stmt
			switch b := n.(type) {
			case *ast.BlockStmt:
				list = b.List
			case *ast.CaseClause:
				list = b.Body
			default:
				return true
			}
			for i, st := range list {
				has := false
				ast.Inspect(st, func(m ast.Node) bool {
					if call, isCall := m.(*ast.CallExpr); isCall && strings.HasSuffix(calleeName(info, call), ".(*visitor).markExpr") && len(call.Args) == 2 && s.arg(ast.Unparen(call.Args[1]), info) {
						has = true
						pos = call.Pos()
					}
					return true
				})
				if !has {
					continue
				}
				// only consider the innermost list that directly holds the statement
				if _, isBlockHolder := st.(*ast.BlockStmt); isBlockHolder {
					continue
				}
				found = true
				setBefore, restoreAfter := false, false
				for _, b := range list[:i] {
					if as, isAs := b.(*ast.AssignStmt); isAs && len(as.Lhs) == 1 && exprString(as.Lhs[0]) == "c.all" && exprString(as.Rhs[0]) == "true" {
						setBefore = true
					}
				}
				for _, a := range list[i+1:] {
					if as, isAs := a.(*ast.AssignStmt); isAs && len(as.Lhs) == 1 && exprString(as.Lhs[0]) == "c.all" && exprString(as.Rhs[0]) != "true" {
						restoreAfter = true
					}
				}
				if setBefore && restoreAfter {
					ok = true
				}
			}
			return true
		})
		c.check("deps.operand-contexts-visit-everything", f.Name+"/"+s.name, pos, found && ok,
			"the visitor must force full traversal (c.all = true … restored) around an operand that never becomes an arc of the visited node ("+s.name+"): in dynamic mode the elements of a list or struct literal used there are otherwise never visited and the references inside create no dependency")
	}
}


// c18MarkedDecls: in dynamic mode the dependency visitor follows an arc only
// if one of its conjuncts was marked by marked.markExpr as coming from the
// task's own expression. markExpr walks the declarations of a struct literal;
// a declaration kind whose value it does not mark makes every reference below
// that value invisible (no dependency edge). Every declaration case must mark
// the declaration's Value, as the sibling walker visitor.markDecl visits it.
func c18MarkedDecls(c *Ctx) {
	const rule = "deps.marked-declaration-values"
	f := c.fn("internal/core/dep", "marked.markExpr")
	info := f.Info()
	declT := c.lookupType(adtP + ".Decl").Type()
	n := 0
	ast.Inspect(f.Body, func(x ast.Node) bool {
		ts, ok := x.(*ast.TypeSwitchStmt)
		if !ok {
			return true
		}
		var op ast.Expr
		switch a := ts.Assign.(type) {
		case *ast.AssignStmt:
			op = a.Rhs[0].(*ast.TypeAssertExpr).X
		case *ast.ExprStmt:
			op = a.X.(*ast.TypeAssertExpr).X
		}
		if t := info.TypeOf(op); t == nil || !types.Identical(t, declT) {
			return true
		}
		for _, cl := range ts.Body.List {
			cc := cl.(*ast.CaseClause)
			if len(cc.List) != 1 {
				continue
			}
			pt, ok := info.TypeOf(cc.List[0]).(*types.Pointer)
			if !ok {
				continue
			}
			named, ok := pt.Elem().(*types.Named)
			if !ok {
				continue
			}
			st, ok := named.Underlying().(*types.Struct)
			if !ok {
				continue
			}
			hasValue := false
			for i := 0; i < st.NumFields(); i++ {
				if st.Field(i).Name() == "Value" {
					hasValue = true
				}
			}
			if !hasValue {
				continue
			}
			n++
			bound := info.Implicits[cc]
			marks := false
			for _, s := range cc.Body {
				ast.Inspect(s, func(y ast.Node) bool {
					call, ok := y.(*ast.CallExpr)
					if !ok || len(call.Args) != 1 {
						return true
					}
					nm := calleeName(info, call)
					if sel, ok := ast.Unparen(call.Args[0]).(*ast.SelectorExpr); ok && sel.Sel.Name == "Value" && identObj(info, sel.X) == bound && bound != nil {
						if strings.HasSuffix(nm, "marked.markExpr") {
							marks = true
						}
					}
					// the value taken into a local first: v := x.Value; m.markExpr(v)
					if id, ok := ast.Unparen(call.Args[0]).(*ast.Ident); ok && strings.HasSuffix(nm, "marked.markExpr") {
						if o := info.ObjectOf(id); o != nil {
							for _, s2 := range cc.Body {
								ast.Inspect(s2, func(z ast.Node) bool {
									as, isAs := z.(*ast.AssignStmt)
									if !isAs || len(as.Lhs) != 1 || len(as.Rhs) != 1 || identObj(info, as.Lhs[0]) != o {
										return true
									}
									if sel, isSel := ast.Unparen(as.Rhs[0]).(*ast.SelectorExpr); isSel && sel.Sel.Name == "Value" && identObj(info, sel.X) == bound {
										marks = true
									}
									return true
								})
							}
						}
					}
					// the whole declaration handed to a sibling marker (markComprehension walks clauses and value)
					if bound != nil && identObj(info, call.Args[0]) == bound && strings.Contains(nm, "marked.mark") {
						marks = true
					}
					return true
				})
			}
			c.check(rule, f.Name+"/case *"+named.Obj().Name(), cc.Pos(), marks,
				"the declaration's Value must be passed to markExpr: the dynamic dependency visitor follows an arc only when one of its conjuncts is marked, so an unmarked value hides every task reference below it (the sibling walker visitor.markDecl visits the Value of every declaration kind)")
		}
		return true
	})
	c.expect(rule, 5)
}

// c18RetagOnEveryInit: Controller.nodes maps the vertices of the current
// configuration value to the task they belong to; findImpliedTask resolves a
// reference into a task's fields through it. initTasks rebuilds the map from
// scratch after every task completion, so getTask must re-associate the
// children of every task it sees with that task, whatever the task's state —
// a Running task whose fields are skipped loses every dependency edge first
// discovered in that round.
func c18RetagOnEveryInit(c *Ctx) {
	const rule = "deps.children-tagged-for-every-task"
	f := c.fn("tools/flow", "(*Controller).getTask")
	cf := newCaseFn(c, f)
	g := cf.g
	tag := g.callNodes("tools/flow.(*Controller).tagChildren")
	if len(tag) == 0 {
		c.broken("anchor: getTask no longer calls tagChildren")
	}
	// no condition on the task's state may guard the call
	bad := ""
	for id := range tag {
		for _, is := range enclosingIfs(f.Body, g.Nodes[id].N) {
			if strings.Contains(exprString(is.Cond), ".state") {
				bad = exprString(is.Cond)
			}
		}
	}
	var pos token.Pos
	for id := range tag {
		pos = g.pos(id)
	}
	c.check(rule, f.Name, pos, bad == "",
		"getTask must tag the children of every task it (re)visits, independent of the task's state: initTasks rebuilds Controller.nodes from scratch after each completion, and a reference to a field of a task whose children were skipped resolves to no task (condition found: "+bad+")")
}
