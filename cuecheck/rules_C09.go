package main

import (
	"fmt"
	"go/ast"
	"strings"
)

func init() {
	register(&propCheck{
		id:   "C09",
		pkgs: []string{"cue/parser", "cue/scanner", "cue/literal", "cue/ast"},
		run:  checkC09,
		about: "C09 (the parser is total; literals round-trip through quoting): decides (a) the parser's bailout discipline — every panic in cue/parser sets p.panicking first (the API recover is conditional on it) or is a reviewed unreachable assertion, and the exported entry points install the recover before parsing; " +
			"(b) recursion in the parser is bounded — after removing the functions that take the nesting guard, no call cycle remains except reviewed bounded ones; " +
			"(c) the escape alphabets of the quoting writer (literal.appendEscapedRune), the unquoting reader (literal.unquoteChar) and the scanner (scanner.scanEscape) agree, including the digit counts of \\x \\u \\U. " +
			"(d) the identifier character classes of cue/ast and cue/scanner are the same predicates and ast.IsValidIdent classifies decoded runes only through them. " +
			"It does not decide position containment nor that quoting an arbitrary string unquotes to the original (value-level: hash counts, multi-line indentation).",
	})
}

func checkC09(c *Ctx) {
	c09IdentClasses(c)
	parserRules(c)
	escapeRules(c)
}

// c09IdentClasses: the scanner and cue/ast each carry a copy of the
// identifier character classes; ast.IsValidIdent decides whether a label can
// be written unquoted, the scanner decides how it is read back. The two copies
// must be the same predicates, and IsValidIdent must classify runes only
// through them (an inline ASCII range test accepts non-ASCII digits the
// scanner rejects as the start of an identifier).
func c09IdentClasses(c *Ctx) {
	for _, name := range []string{"isLetter", "isDigit"} {
		a, b := c.fn("cue/ast", name), c.fn("cue/scanner", name)
		ca, cb := newCaseFn(c, a), newCaseFn(c, b)
		ra, _ := ca.walk(ca.g.Entry, nil)
		rb, _ := cb.walk(cb.g.Entry, nil)
		c.check("ident.char-classes-agree", "cue/ast."+name+"~cue/scanner."+name, a.Decl.Pos(), len(ra) > 0 && strings.Join(ra, "|") == strings.Join(rb, "|"),
			"cue/ast."+name+" and cue/scanner."+name+" must be the same predicate (what the printer leaves unquoted must scan as one identifier): "+strings.Join(ra, "|")+"  vs  "+strings.Join(rb, "|"))
	}
	f := c.fn("cue/ast", "IsValidIdent")
	info := f.Info()
	inline := 0
	nDigit, nLetter := 0, 0
	byteIndexed := false
	ast.Inspect(f.Body, func(n ast.Node) bool {
		switch x := n.(type) {
		case *ast.BinaryExpr:
			switch x.Op.String() {
			case "<", "<=", ">", ">=":
				for _, o := range []ast.Expr{x.X, x.Y} {
					if bl, ok := ast.Unparen(o).(*ast.BasicLit); ok && bl.Kind.String() == "CHAR" {
						inline++
					}
				}
			}
		case *ast.CallExpr:
			switch calleeName(info, x) {
			case "cue/ast.isDigit":
				nDigit++
				if len(x.Args) == 1 {
					ast.Inspect(x.Args[0], func(m ast.Node) bool {
						if _, ok := m.(*ast.IndexExpr); ok {
							byteIndexed = true
						}
						return true
					})
				}
			case "cue/ast.isLetter":
				nLetter++
			}
		}
		return true
	})
	c.check("ident.classified-through-shared-predicates", f.Name, f.Decl.Pos(), inline == 0 && nDigit >= 2 && nLetter >= 1 && !byteIndexed,
		fmt.Sprintf("IsValidIdent must classify runes only through isLetter/isDigit (leading-digit test and body), on decoded runes, never on bytes or with inline ranges: inline range tests=%d, isDigit calls=%d, isLetter calls=%d, byte-indexed=%v", inline, nDigit, nLetter, byteIndexed))
}
