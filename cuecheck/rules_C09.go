package main

import (
	"fmt"
	"go/ast"
	"go/token"
	"strings"
)

func init() {
	register(&propCheck{
		id:   "C09",
		pkgs: []string{"cue/parser", "cue/scanner", "cue/literal", "cue/ast"},
		run:  checkC09,
		about: "C09 (the parser is total; literals round-trip through quoting): decides (a) the parser's bailout discipline — every panic in cue/parser sets p.panicking first (the API recover is conditional on it) or is a reviewed unreachable assertion, and the exported entry points install the recover before parsing; " +
			"(b) recursion in the parser is bounded — after removing the functions that take the nesting guard, no call cycle remains except reviewed bounded ones; " +
			"(c) the escape alphabets of the quoting writer (literal.appendEscapedRune), the unquoting reader (literal.unquoteChar) and the scanner (scanner.scanEscape) agree, including the digit counts of \\x \\u \\U. " +
			"(d) the identifier character classes of cue/ast and cue/scanner are the same predicates and ast.IsValidIdent classifies decoded runes only through them. " +
			"It does not decide position containment nor that quoting an arbitrary string unquotes to the original (value-level: hash counts, multi-line indentation).",
	})
}

func checkC09(c *Ctx) {
	c09IdentClasses(c)
	c09RuneError(c)
	c09HashForm(c)
	parserRules(c)
	escapeRules(c)
}

// c09IdentClasses: the scanner and cue/ast each carry a copy of the
// identifier character classes; ast.IsValidIdent decides whether a label can
// be written unquoted, the scanner decides how it is read back. The two copies
// must be the same predicates, and IsValidIdent must classify runes only
// through them (an inline ASCII range test accepts non-ASCII digits the
// scanner rejects as the start of an identifier).
func c09IdentClasses(c *Ctx) {
	for _, name := range []string{"isLetter", "isDigit"} {
		a, b := c.fn("cue/ast", name), c.fn("cue/scanner", name)
		ca, cb := newCaseFn(c, a), newCaseFn(c, b)
		ra, _ := ca.walk(ca.g.Entry, nil)
		rb, _ := cb.walk(cb.g.Entry, nil)
		c.check("ident.char-classes-agree", "cue/ast."+name+"~cue/scanner."+name, a.Decl.Pos(), len(ra) > 0 && strings.Join(ra, "|") == strings.Join(rb, "|"),
			"cue/ast."+name+" and cue/scanner."+name+" must be the same predicate (what the printer leaves unquoted must scan as one identifier): "+strings.Join(ra, "|")+"  vs  "+strings.Join(rb, "|"))
	}
	f := c.fn("cue/ast", "IsValidIdent")
	info := f.Info()
	inline := 0
	nDigit, nLetter := 0, 0
	byteIndexed := false
	ast.Inspect(f.Body, func(n ast.Node) bool {
		switch x := n.(type) {
		case *ast.BinaryExpr:
			switch x.Op.String() {
			case "<", "<=", ">", ">=":
				for _, o := range []ast.Expr{x.X, x.Y} {
					if bl, ok := ast.Unparen(o).(*ast.BasicLit); ok && bl.Kind.String() == "CHAR" {
						inline++
					}
				}
			}
		case *ast.CallExpr:
			switch calleeName(info, x) {
			case "cue/ast.isDigit":
				nDigit++
				if len(x.Args) == 1 {
					ast.Inspect(x.Args[0], func(m ast.Node) bool {
						if _, ok := m.(*ast.IndexExpr); ok {
							byteIndexed = true
						}
						return true
					})
				}
			case "cue/ast.isLetter":
				nLetter++
			}
		}
		return true
	})
	c.check("ident.classified-through-shared-predicates", f.Name, f.Decl.Pos(), inline == 0 && nDigit >= 2 && nLetter >= 1 && !byteIndexed,
		fmt.Sprintf("IsValidIdent must classify runes only through isLetter/isDigit (leading-digit test and body), on decoded runes, never on bytes or with inline ranges: inline range tests=%d, isDigit calls=%d, isLetter calls=%d, byte-indexed=%v", inline, nDigit, nLetter, byteIndexed))
}

// c09RuneError: utf8.DecodeRune reports invalid UTF-8 as (RuneError, 1); a
// well-formed U+FFFD decodes to the same rune with width 3. Code that treats
// RuneError as "invalid byte" without looking at the width mangles strings
// that legitimately contain U+FFFD.
func c09RuneError(c *Ctx) {
	exceptions := map[string]string{
		"cue/literal.isSimple": "conservative classification: any U+FFFD selects the general (escaping) path, nothing is dropped",
	}
	n := 0
	for _, rel := range []string{"cue/literal", "cue/scanner"} {
		for _, f := range c.funcs(c.pkg(rel)) {
			info := f.Info()
			k := 0
			var visit func(cond ast.Expr, body ast.Node, pos token.Pos)
			visit = func(cond ast.Expr, body ast.Node, pos token.Pos) {
				tests := false
				widthOne := false
				ast.Inspect(cond, func(x ast.Node) bool {
					be, ok := x.(*ast.BinaryExpr)
					if !ok {
						return true
					}
					if be.Op == token.EQL || be.Op == token.NEQ {
						if exprString(be.X) == "utf8.RuneError" || exprString(be.Y) == "utf8.RuneError" {
							tests = true
						}
						if v, ok := constInt(info, be.Y); ok && v == 1 {
							if _, isID := ast.Unparen(be.X).(*ast.Ident); isID {
								widthOne = true
							}
						}
					}
					return true
				})
				if !tests {
					return
				}
				// the width may also be tested right inside the branch
				if !widthOne && body != nil {
					ast.Inspect(body, func(x ast.Node) bool {
						if be, ok := x.(*ast.BinaryExpr); ok && be.Op == token.EQL {
							if v, ok := constInt(info, be.Y); ok && v == 1 {
								widthOne = true
							}
						}
						return true
					})
				}
				n++
				k++
				reason, exc := exceptions[f.Name]
				c.check("utf8.rune-error-needs-width", fmt.Sprintf("%s#%d", f.Name, k), pos, widthOne || exc,
					"a test for utf8.RuneError must be paired with width == 1 (invalid byte) — a well-formed U+FFFD has the same rune value and width 3 "+reason)
			}
			ast.Inspect(f.Body, func(x ast.Node) bool {
				switch s := x.(type) {
				case *ast.IfStmt:
					visit(s.Cond, s.Body, s.Pos())
				case *ast.CaseClause:
					for _, e := range s.List {
						visit(e, s, s.Pos())
					}
				}
				return true
			})
		}
	}
	c.expect("utf8.rune-error-needs-width", 4)
}

// c09HashForm: Quote may choose the hash-delimited single-line form #"..."#
// (WithOptionalHashes) to avoid escaping. The scanner reads `#"""` as the
// opening of a multi-line string, so the writer must not choose that form for
// a string that starts with two quote characters: `#""""#` does not scan. The
// function that picks the form must test for the doubled leading quote on
// every path that returns a positive hash count.
func c09HashForm(c *Ctx) {
	f := c.fn("cue/literal", "(*Form).singleLineHashCount")
	g := c.graph(f)
	info := f.Info()
	// guard atom: strings.HasPrefix(s, quote+quote); true = must not use the hash form
	atom := func(e ast.Expr) (bool, bool) {
		call, ok := e.(*ast.CallExpr)
		if !ok || calleeName(info, call) != "strings.HasPrefix" || len(call.Args) != 2 {
			return false, false
		}
		if strings.Count(exprString(call.Args[1]), "quote") >= 2 || strings.Contains(exprString(call.Args[1]), "tripleQuote[") {
			return true, true
		}
		return false, false
	}
	positive := map[int]bool{}
	for _, r := range g.returns() {
		rs := g.Nodes[r].N.(*ast.ReturnStmt)
		if len(rs.Results) == 1 {
			if v, isConst := constInt(info, rs.Results[0]); isConst && v == 0 {
				continue // the escaped form
			}
		}
		positive[r] = true
	}
	res := g.gate(atom, positive, nil, g.Entry)
	ok := len(positive) > 0 && res.found && !res.leak && !res.bypass
	c.check("quote.hash-form-never-opens-multiline", f.Name, f.Decl.Pos(), ok,
		"singleLineHashCount must fall back to the escaped form (return 0) for a string that starts with two quote characters: `#\"` followed by `\"\"` is the opening of a multi-line string for the scanner, so `#\"\"\"\"#` (the string of two quotes) does not read back — every path returning a positive hash count must pass a strings.HasPrefix(s, quote+quote) test")
}
