package main

func init() {
	register(&propCheck{
		id:   "C09",
		pkgs: []string{"cue/parser", "cue/scanner", "cue/literal"},
		run:  checkC09,
		about: "C09 (the parser is total; literals round-trip through quoting): decides (a) the parser's bailout discipline — every panic in cue/parser sets p.panicking first (the API recover is conditional on it) or is a reviewed unreachable assertion, and the exported entry points install the recover before parsing; " +
			"(b) recursion in the parser is bounded — after removing the functions that take the nesting guard, no call cycle remains except reviewed bounded ones; " +
			"(c) the escape alphabets of the quoting writer (literal.appendEscapedRune), the unquoting reader (literal.unquoteChar) and the scanner (scanner.scanEscape) agree, including the digit counts of \\x \\u \\U. " +
			"It does not decide position containment nor that quoting an arbitrary string unquotes to the original (value-level: hash counts, multi-line indentation).",
	})
}

func checkC09(c *Ctx) {
	parserRules(c)
	escapeRules(c)
}
