package main

import (
	"fmt"
	"go/ast"
	"go/token"
	"go/types"
	"os"
	"sort"
	"strings"
)

const jsP = "encoding/jsonschema"

func init() {
	register(&propCheck{
		id:   "C13",
		pkgs: []string{jsP},
		run:  checkC13,
		about: "C13 (JSON Schema translation preserves validity), narrow: decides structural necessary conditions of the keyword translation, not semantic equivalence. " +
			"(a) registry: every keyword of the conformance subset has exactly one entry in the generated constraint table whose handler is a real translation (not constraintTODO/constraintIgnore, not an empty body); " +
			"(b) phase order: when the handler of one keyword reads a field of the per-schema state that the handler of another keyword writes, the writer's phase is strictly lower (so `minimum` sees `exclusiveMinimum`, `contains` sees `minContains`, `required` sees `properties`, ...); " +
			"(c) operator tables by finite case analysis: each bound keyword adds its constraint for the right core type with the right CUE operator or builtin (minimum >= / > when exclusive, maximum <= / <, exclusiveMinimum >, exclusiveMaximum <, minLength MinRunes, ...), and the generator maps the same operators back to the same keywords; " +
			"(d) the dispatcher calls a handler only in its own phase and for a schema version it is defined for, and reports (under StrictKeywords) what it skips; " +
			"(e) the type-name table of the type keyword, the match count of allOf equals the emitted list, a boolean false sub-schema is not reported as unconstrained (known finding), handlers that inspect the collected object fields do not share a phase with handlers that add fields; (f) generator: collected object constraints are emitted whenever any exist, the keyword-interaction table is symmetric. " +
			"It does not decide that the CUE built for a keyword accepts exactly the instances the keyword accepts, nor keyword interactions (not/oneOf/if over overlapping schemas), which is the core of the property and needs an oracle.",
		trust: []string{"constraints_gen.go is the generated table actually compiled in", "CUE builtins (strings.MinRunes, list.MatchN, matchN, matchIf) trusted"},
	})
}

type c13Entry struct {
	key   string
	fn    string
	phase int
	pos   token.Pos
	vers  string
}

func c13Table(c *Ctx) []c13Entry {
	p := c.pkg(jsP)
	var out []c13Entry
	for _, file := range p.Syntax {
		for _, d := range file.Decls {
			gd, ok := d.(*ast.GenDecl)
			if !ok {
				continue
			}
			for _, sp := range gd.Specs {
				vs, ok := sp.(*ast.ValueSpec)
				if !ok || len(vs.Names) != 1 || vs.Names[0].Name != "constraints" || len(vs.Values) != 1 {
					continue
				}
				cl, ok := vs.Values[0].(*ast.CompositeLit)
				if !ok {
					continue
				}
				for _, el := range cl.Elts {
					call, ok := el.(*ast.CallExpr)
					if !ok || len(call.Args) != 3 {
						c.broken("anchor: unexpected element in jsonschema.constraints table")
					}
					key, _ := constString(p.TypesInfo, call.Args[0])
					ph := map[string]int{"p0": 0, "p1": 1, "p2": 2, "p3": 3, "p4": 4, "px": 1}
					phase, known := ph[exprString(call.Fun)]
					if !known {
						c.broken("anchor: unknown phase constructor %s in jsonschema.constraints", exprString(call.Fun))
					}
					out = append(out, c13Entry{key: key, fn: exprString(call.Args[1]), phase: phase, pos: call.Pos(), vers: exprString(call.Args[2])})
				}
			}
		}
	}
	if len(out) == 0 {
		c.broken("anchor: jsonschema.constraints table not found")
	}
	return out
}

// c13StateFields returns, for a function of the package, the fields of the
// per-schema state (struct state and the embedded schemaInfo) it writes and
// reads, following calls to package functions that receive the state.
func c13StateFields(c *Ctx, fname string, seen map[string]bool, depth int) (writes, reads map[string]bool) {
	writes, reads = map[string]bool{}, map[string]bool{}
	if seen[fname] || depth > 4 {
		return
	}
	seen[fname] = true
	f := c.fnOpt(jsP, fname)
	if f == nil {
		return
	}
	info := f.Info()
	isStateField := func(sel *ast.SelectorExpr) (string, bool) {
		v, ok := info.Uses[sel.Sel].(*types.Var)
		if !ok || !v.IsField() {
			return "", false
		}
		t := info.TypeOf(sel.X)
		if t == nil {
			return "", false
		}
		if p, ok := t.(*types.Pointer); ok {
			t = p.Elem()
		}
		n, ok := t.(*types.Named)
		if !ok || (n.Obj().Name() != "state" && n.Obj().Name() != "schemaInfo") || n.Obj().Pkg() == nil || !strings.HasSuffix(n.Obj().Pkg().Path(), jsP) {
			return "", false
		}
		return v.Name(), true
	}
	written := map[*ast.SelectorExpr]bool{}
	ast.Inspect(f.Body, func(n ast.Node) bool {
		switch x := n.(type) {
		case *ast.AssignStmt:
			for _, l := range x.Lhs {
				if sel, ok := ast.Unparen(l).(*ast.SelectorExpr); ok {
					if name, ok := isStateField(sel); ok {
						writes[name] = true
						if x.Tok == token.ASSIGN || x.Tok == token.DEFINE {
							written[sel] = true
						}
					}
				}
			}
		case *ast.IncDecStmt:
			if sel, ok := ast.Unparen(x.X).(*ast.SelectorExpr); ok {
				if name, ok := isStateField(sel); ok {
					writes[name] = true
				}
			}
		}
		return true
	})
	ast.Inspect(f.Body, func(n ast.Node) bool {
		switch x := n.(type) {
		case *ast.SelectorExpr:
			if name, ok := isStateField(x); ok && !written[x] {
				reads[name] = true
			}
		case *ast.CallExpr:
			callee := calleeName(info, x)
			if strings.HasPrefix(callee, jsP+".") && !c13ReachesSubschema(c, strings.TrimPrefix(callee, jsP+"."), map[string]bool{}) {
				w, r := c13StateFields(c, strings.TrimPrefix(callee, jsP+"."), seen, depth+1)
				for k := range w {
					writes[k] = true
				}
				for k := range r {
					reads[k] = true
				}
			}
		}
		return true
	})
	return
}

// c13ReachesSubschema: the function (transitively) translates a nested
// schema, i.e. works on a fresh state; field accesses below it concern the
// child, not the state of the keyword's own schema.
var c13Reach = map[string]bool{}

func c13ReachesSubschema(c *Ctx, fname string, seen map[string]bool) bool {
	if v, ok := c13Reach[fname]; ok {
		return v
	}
	f := c.fnOpt(jsP, fname)
	if f == nil {
		return false
	}
	res := false
	ast.Inspect(f.Body, func(n ast.Node) bool {
		if cl, ok := n.(*ast.CompositeLit); ok {
			if t := f.Info().TypeOf(cl); t != nil {
				if nt, ok := t.(*types.Named); ok && nt.Obj().Name() == "state" {
					res = true // creates the state of a nested (or root) schema
				}
			}
		}
		return true
	})
	c13Reach[fname] = res
	return res
}

// keywords of the conformance subset named by the property (plus the legacy
// spellings that share a handler)
var c13Subset = []string{
	"type", "enum", "const",
	"minimum", "maximum", "exclusiveMinimum", "exclusiveMaximum", "multipleOf",
	"minLength", "maxLength", "pattern",
	"properties", "required", "additionalProperties", "patternProperties", "propertyNames", "minProperties", "maxProperties",
	"items", "prefixItems", "additionalItems", "minItems", "maxItems", "uniqueItems", "contains", "minContains", "maxContains",
	"allOf", "anyOf", "oneOf", "not", "if", "then", "else",
	"$defs", "definitions", "$ref",
}

// fields of the per-schema state through which the handler of one keyword
// informs the handler of another: the writer must run in an earlier phase
var c13Ordered = map[string]string{
	"exclusiveMin": "draft-04/OpenAPI boolean exclusiveMinimum changes the operator of minimum", "exclusiveMax": "same for maximum",
	"minContains": "contains builds MatchN(>=minContains & <=maxContains, schema)", "maxContains": "same",
	"list": "additionalItems / items refine the ellipsis of the prefix list", "listItemsIsArray": "additionalItems applies only after an array-form items",
	"patterns": "additionalProperties excludes the patternProperties patterns", "id": "$ref resolves against the schema's $id",
	"schemaVersion": "$schema selects the dialect all other keywords are read in",
	"k8sAPIVersion": "properties fills in apiVersion/kind", "k8sResourceKind": "same",
	"title": "documentation only", "description": "documentation only", "deprecated": "documentation only",
}

// fields shared by several handlers whose updates commute (reviewed)
var c13Commutative = map[string]string{
	"allowedTypes": "only narrowed by &= (or set to 0)", "knownTypes": "only narrowed by &=",
	"obj": "created on demand by state.object(); handlers only append declarations", "objN": "set together with obj",
}

var c13PairExceptions = map[string]string{
	"constraintItems->constraintPrefixItems/list": "the array form of items (up to 2019-09) delegates to constraintPrefixItems, which assigns s.list before reading it; prefixItems itself exists only from 2020-12",
}

func checkC13(c *Ctx) {
	c13RebuildCarriesFields(c)
	c13ItemMethodsCoverFields(c)
	table := c13Table(c)
	byFn := map[string][]c13Entry{}
	byKey := map[string][]c13Entry{}
	for _, e := range table {
		byFn[e.fn] = append(byFn[e.fn], e)
		byKey[e.key] = append(byKey[e.key], e)
	}
	var fns []string
	for fn := range byFn {
		fns = append(fns, fn)
	}
	sort.Strings(fns)

	// ---- (a) registry
	for _, k := range c13Subset {
		es := byKey[k]
		ok := len(es) == 1
		det := fmt.Sprintf("%d entries", len(es))
		var pos token.Pos
		if ok {
			e := es[0]
			pos = e.pos
			f := c.fnOpt(jsP, e.fn)
			nStmts := 0
			if f != nil {
				nStmts = len(f.Body.List)
			}
			ok = e.fn != "constraintTODO" && e.fn != "constraintIgnore" && f != nil && nStmts > 0
			det = fmt.Sprintf("handler %s (%d statements), phase %d, versions %s", e.fn, nStmts, e.phase, e.vers)
		}
		c.check("registry.keyword-handled", "keyword/"+k, pos, ok,
			"every keyword of the conformance subset needs exactly one table entry with a translating handler (not constraintTODO/constraintIgnore/empty): "+det)
	}
	for k, es := range byKey {
		if len(es) > 1 {
			c.check("registry.keyword-handled", "duplicate/"+k, es[1].pos, false, "duplicate table entry (init panics)")
		}
	}

	// ---- (b) phase order against def-use of the state fields
	W, R := map[string]map[string]bool{}, map[string]map[string]bool{}
	for _, fn := range fns {
		W[fn], R[fn] = c13StateFields(c, fn, map[string]bool{}, 0)
	}
	dump := os.Getenv("CUECHECK_DUMP") != ""
	for _, a := range fns {
		for _, b := range fns {
			if a == b {
				continue
			}
			var flds []string
			for fld := range W[a] {
				if R[b][fld] {
					flds = append(flds, fld)
				}
			}
			sort.Strings(flds)
			for _, fld := range flds {
				if dump {
					fmt.Fprintf(os.Stderr, "%-28s p%d  writes %-22s read by %-28s p%d\n", a, byFn[a][0].phase, fld, b, byFn[b][0].phase)
				}
				if _, comm := c13Commutative[fld]; comm {
					continue
				}
				key := a + "->" + b + "/" + fld
				if _, exc := c13PairExceptions[key]; exc {
					c.check("phases.def-before-use", key, byFn[b][0].pos, true, "reviewed exception: "+c13PairExceptions[key])
					continue
				}
				if _, ord := c13Ordered[fld]; !ord {
					c.check("phases.unreviewed-shared-field", key, byFn[b][0].pos, false,
						"state field "+fld+" is written by the handler "+a+" and read by the handler "+b+" but is in neither the ordered nor the commutative table of the checker: review how the two keywords interact")
					continue
				}
				okp := true
				det := ""
				for _, ea := range byFn[a] {
					for _, eb := range byFn[b] {
						if ea.phase >= eb.phase {
							okp = false
							det = fmt.Sprintf("%q is processed in phase %d, %q in phase %d", ea.key, ea.phase, eb.key, eb.phase)
						}
					}
				}
				c.check("phases.def-before-use", key, byFn[b][0].pos, okp,
					fmt.Sprintf("%s reads state.%s which %s sets (%s): the writer's keyword must be processed in a strictly earlier phase, or the reader translates the schema as if the other keyword were absent; %s", b, fld, a, c13Ordered[fld], det))
			}
		}
	}
	c.expect("phases.def-before-use", 15)
	// the shared object literal: handlers that inspect the fields collected
	// so far must run after the handlers that contribute them
	for _, pr := range []struct{ w, r, why string }{
		{"constraintProperties", "constraintRequired", "required marks the field that properties declared (a second declaration would be optional again)"},
		{"constraintProperties", "constraintAdditionalProperties", "additionalProperties must exclude the names properties declared"},
		{"constraintPatternProperties", "constraintAdditionalProperties", "additionalProperties must exclude what patternProperties matches"},
	} {
		inspects := false
		if f := c.fnOpt(jsP, pr.r); f != nil {
			ast.Inspect(f.Body, func(n ast.Node) bool {
				switch x := n.(type) {
				case *ast.RangeStmt:
					if strings.HasSuffix(exprString(x.X), ".Elts") {
						inspects = true
					}
				case *ast.CallExpr:
					for _, a := range x.Args {
						if strings.HasSuffix(exprString(a), ".Elts") && exprString(x.Fun) != "append" && exprString(x.Fun) != "len" {
							inspects = true
						}
					}
				}
				return true
			})
		}
		okp := len(byFn[pr.w]) > 0 && len(byFn[pr.r]) > 0 && W[pr.w]["obj"] && R[pr.r]["obj"]
		for _, ea := range byFn[pr.w] {
			for _, eb := range byFn[pr.r] {
				if ea.phase >= eb.phase {
					okp = false
				}
			}
		}
		if !inspects {
			// the reader no longer looks at the collected fields: nothing to order
			c.check("phases.object-fields-before-inspection", pr.w+"->"+pr.r, 0, true, "reader no longer inspects the collected fields")
			continue
		}
		c.check("phases.object-fields-before-inspection", pr.w+"->"+pr.r, byFn[pr.r][0].pos, okp,
			pr.r+" inspects the fields collected in the shared object literal; "+pr.w+" contributes them and must run in a strictly earlier phase: "+pr.why)
	}
	// the commutative fields really are only narrowed
	nNarrow := map[string]int{}
	for _, fld := range []string{"allowedTypes", "knownTypes"} {
		for _, f := range c.funcs(c.pkg(jsP)) {
			if !strings.HasPrefix(f.Decl.Name.Name, "constraint") {
				continue
			}
			ast.Inspect(f.Body, func(n ast.Node) bool {
				as, ok := n.(*ast.AssignStmt)
				if !ok {
					return true
				}
				for i, l := range as.Lhs {
					sel, ok := ast.Unparen(l).(*ast.SelectorExpr)
					if !ok || sel.Sel.Name != fld || exprString(sel.X) != "s" {
						continue
					}
					okw := as.Tok == token.AND_ASSIGN || (as.Tok == token.ASSIGN && exprString(as.Rhs[i]) == "0")
					nNarrow[f.Name+fld]++
					c.check("phases.shared-field-only-narrowed", fmt.Sprintf("%s/%s#%d", f.Name, fld, nNarrow[f.Name+fld]), as.Pos(), okw,
						"handlers of different keywords (and phases) update state."+fld+"; that is order-independent only while every update is an intersection (&=) or the empty set")
				}
				return true
			})
		}
	}

	// a handler that inspects the collected fields must not share its phase
	// with any other handler that contributes fields: within one phase the
	// order is the map order of the schema object, so the inspector would see
	// the other's fields or not depending on key order
	inspectors := map[string]bool{}
	for _, fn := range fns {
		if f := c.fnOpt(jsP, fn); f != nil && R[fn]["obj"] {
			ast.Inspect(f.Body, func(n ast.Node) bool {
				switch x := n.(type) {
				case *ast.RangeStmt:
					if strings.HasSuffix(exprString(x.X), ".Elts") {
						inspectors[fn] = true
					}
				case *ast.CallExpr:
					for _, a := range x.Args {
						if strings.HasSuffix(exprString(a), ".Elts") && exprString(x.Fun) != "append" && exprString(x.Fun) != "len" {
							inspectors[fn] = true
						}
					}
				}
				return true
			})
		}
	}
	nIns := 0
	for _, ins := range fns {
		if !inspectors[ins] {
			continue
		}
		for _, w := range fns {
			if w == ins || !W[w]["obj"] {
				continue
			}
			nIns++
			okp := true
			det := ""
			for _, ea := range byFn[w] {
				for _, eb := range byFn[ins] {
					if ea.phase == eb.phase {
						okp = false
						det = fmt.Sprintf("%q and %q are both processed in phase %d", ea.key, eb.key, ea.phase)
					}
				}
			}
			c.check("phases.object-inspector-alone-in-phase", w+"~"+ins, byFn[ins][0].pos, okp,
				ins+" inspects the fields collected so far in the shared object literal and "+w+" adds fields to it: they must not run in the same phase, or the translation depends on the order of the keys in the schema object (e.g. whether a required name is exempted from additionalProperties); "+det)
		}
	}
	if nIns < 8 {
		c.check("phases.object-inspector-alone-in-phase", "instances", 0, false, fmt.Sprintf("expected at least 8 inspector/contributor pairs, found %d (anchor moved?)", nIns))
	}
	// required adds `name!: _` for names not declared by properties; those are
	// additional properties and must stay subject to additionalProperties
	{
		okp := len(byFn["constraintAdditionalProperties"]) > 0 && len(byFn["constraintRequired"]) > 0
		for _, ea := range byFn["constraintAdditionalProperties"] {
			for _, eb := range byFn["constraintRequired"] {
				if ea.phase >= eb.phase {
					okp = false
				}
			}
		}
		c.check("phases.object-fields-before-inspection", "constraintAdditionalProperties->constraintRequired(adds)", 0, okp,
			"additionalProperties excludes every field already in the object literal from its pattern; the fields that `required` adds for undeclared names must be added afterwards (additionalProperties strictly before required), or a required undeclared name escapes the additionalProperties schema")
	}

	// ---- combinators: the count handed to matchN agrees with the list handed to it
	for _, fn := range []string{"constraintAllOf", "constraintAnyOf", "constraintOneOf"} {
		f := c.fnOpt(jsP, fn)
		if f == nil {
			continue
		}
		k := 0
		ast.Inspect(f.Body, func(n ast.Node) bool {
			call, ok := n.(*ast.CallExpr)
			if !ok || calleeName(f.Info(), call) != jsP+".matchN" || len(call.Args) != 2 {
				return true
			}
			// the slice spread into the list argument
			listVar := ""
			if lc, ok := ast.Unparen(call.Args[1]).(*ast.CallExpr); ok && exprString(lc.Fun) == "ast.NewList" && len(lc.Args) == 1 && lc.Ellipsis.IsValid() {
				listVar = exprString(lc.Args[0])
			}
			// every len(X) inside the count argument must be len(listVar)
			okc := true
			lens := 0
			ast.Inspect(call.Args[0], func(m ast.Node) bool {
				if lc, ok := m.(*ast.CallExpr); ok && exprString(lc.Fun) == "len" && len(lc.Args) == 1 {
					lens++
					if exprString(lc.Args[0]) != listVar || listVar == "" {
						okc = false
					}
				}
				return true
			})
			if lens == 0 {
				return true // a constant count (oneOf: 1, anyOf: >=1)
			}
			k++
			c.check("combinators.count-matches-list", fmt.Sprintf("%s#matchN%d", fn, k), call.Pos(), okc,
				"matchN(n, list): a count computed with len(...) must be the length of the very slice that becomes the list ("+listVar+"); members dropped from the list (sub-schemas without constraints) must not be counted, or no instance can ever match")
			return true
		})
	}
	c.expect("combinators.count-matches-list", 1)

	// ---- generator: a struct that has properties, required names or pattern
	// properties must generate them — never the empty (accept-all) schema
	{
		f := c.fn(jsP, "(*generator).makeStructItem")
		cf := newCaseFn(c, f)
		start := -1
		for _, n := range cf.g.Nodes {
			if as, ok := n.N.(*ast.AssignStmt); ok && len(as.Lhs) == 1 && exprString(as.Lhs[0]) == "hasObjectConstraints" {
				start = n.ID
			}
		}
		pr, rq, pp := "0 == len(props.properties)", "0 == len(props.required)", "0 == len(props.patternProperties)"
		ap := "?props.additionalProperties.Value() == nil"
		noAllOf := "0 < len(allOf.elems)"
		for k := range cf.atoms() {
			if strings.HasPrefix(k, "0 < len(") && strings.HasSuffix(k, ".elems)") {
				noAllOf = k
			}
		}
		var rows []caseRow
		for _, r := range []struct {
			name       string
			p, q, t, a bool // empty?
			want       string
		}{
			{"properties+required+patterns", false, false, false, true, "&props"},
			{"properties-only", false, true, true, true, "&props"},
			{"required-only", true, false, true, true, "&props"},
			{"patterns-only", true, true, false, true, "&props"},
			{"properties+required", false, false, true, true, "&props"},
		} {
			rows = append(rows, caseRow{name: r.name, start: start,
				truth: map[string]bool{pr: r.p, rq: r.q, pp: r.t, ap: r.a, noAllOf: false}, want: []string{r.want}})
		}
		if start < 0 {
			c.check("generator.object-constraints-emitted", f.Name, f.Decl.Pos(), false, "anchor: hasObjectConstraints is no longer computed in makeStructItem")
		} else {
			cf.checkTable("generator.object-constraints-emitted", rows,
				"makeStructItem must return the collected properties/required/patternProperties whenever any of them is non-empty (the accept-all schema only for a struct without object constraints)")
		}
	}

	// ---- a boolean `false` sub-schema is a constraint: the combinators drop
	// members whose schemaInfo says "no constraints", so the info returned
	// with a boolean schema must not claim that for `false`
	{
		f := c.fn(jsP, "(*state).schemaState")
		g := c.graph(f)
		sets := map[int]bool{}
		for _, n := range g.Nodes {
			if as, ok := n.N.(*ast.AssignStmt); ok {
				for _, l := range as.Lhs {
					if strings.HasSuffix(exprString(l), ".hasConstraints") {
						sets[n.ID] = true
					}
				}
			}
		}
		k := 0
		for _, r := range g.returns() {
			rs := g.Nodes[r].N.(*ast.ReturnStmt)
			if len(rs.Results) != 2 {
				continue
			}
			isBool := false
			ast.Inspect(rs.Results[0], func(n ast.Node) bool {
				if call, ok := n.(*ast.CallExpr); ok && calleeName(f.Info(), call) == jsP+".boolSchema" {
					isBool = true
				}
				return true
			})
			if id, ok := rs.Results[0].(*ast.Ident); ok && !isBool {
				if def := singleDef(f, f.Info().Uses[id]); def != nil {
					if call, ok := ast.Unparen(def).(*ast.CallExpr); ok && calleeName(f.Info(), call) == jsP+".boolSchema" {
						isBool = true
					}
				}
			}
			if !isBool {
				continue
			}
			k++
			c.check("combinators.false-subschema-not-dropped", fmt.Sprintf("%s#bool%d", f.Name, k), rs.Pos(), g.mustPassNode(r, sets),
				"schemaState returns a boolean schema together with a schemaInfo whose hasConstraints was never set: allOf drops members without constraints, so `false` (which rejects everything) is dropped like `true`")
		}
		if k == 0 {
			c.check("combinators.false-subschema-not-dropped", f.Name, f.Decl.Pos(), false, "anchor: no return of boolSchema(...) found in schemaState")
		}
	}

	// ---- the generator's keyword interaction table is symmetric
	{
		okSym, found := false, false
		for _, file := range c.pkg(jsP).Syntax {
			ast.Inspect(file, func(n ast.Node) bool {
				vs, ok := n.(*ast.ValueSpec)
				if !ok || len(vs.Names) != 1 || vs.Names[0].Name != "keywordInteractions" || len(vs.Values) != 1 {
					return true
				}
				found = true
				// every assignment m[k] = <group> inside the initializer must store the whole ranged group
				ast.Inspect(vs.Values[0], func(m ast.Node) bool {
					outer, ok := m.(*ast.RangeStmt)
					if !ok || exprString(outer.X) != "keywordGroups" || outer.Value == nil {
						return true
					}
					group := exprString(outer.Value)
					nAssign := 0
					allWhole := true
					ast.Inspect(outer.Body, func(q ast.Node) bool {
						as, ok := q.(*ast.AssignStmt)
						if !ok || len(as.Lhs) != 1 || len(as.Rhs) != 1 {
							return true
						}
						if ix, ok := as.Lhs[0].(*ast.IndexExpr); ok && exprString(ix.X) == "m" {
							nAssign++
							if exprString(as.Rhs[0]) != group {
								allWhole = false
							}
						}
						return true
					})
					okSym = nAssign > 0 && allWhole
					return false
				})
				return false
			})
		}
		c.check("generator.keyword-interactions-symmetric", jsP+".keywordInteractions", 0, found && okSym,
			"keywordInteractions must map every keyword of a group to the whole group: the lookup in itemAllOf.generate is directional (is the new member's keyword in conflict with one already merged?), so a one-sided table lets `prefixItems` be merged next to an earlier `items` and changes which instances the generated schema accepts")
	}

	// ---- (c) operator tables of the bound keywords (decoder)
	type addSpec struct {
		fn, typ string
		need    []string // selectors / builtin names that must occur in the added expression
	}
	for _, sp := range []addSpec{
		{"constraintExclusiveMinimum", "numType", []string{"token.GTR"}},
		{"constraintExclusiveMaximum", "numType", []string{"token.LSS"}},
		{"constraintMultipleOf", "numType", []string{`"MultipleOf"`}},
		{"constraintMinLength", "stringType", []string{`"MinRunes"`}},
		{"constraintMaxLength", "stringType", []string{`"MaxRunes"`}},
		{"constraintPattern", "stringType", []string{"token.MAT"}},
		{"constraintMaxItems", "arrayType", []string{`"MaxItems"`}},
		{"constraintUniqueItems", "arrayType", []string{`"UniqueItems"`}},
		{"constraintContains", "arrayType", []string{`"MatchN"`, "token.GEQ", "token.LEQ"}},
		{"constraintMinProperties", "objectType", []string{`"MinFields"`}},
		{"constraintMaxProperties", "objectType", []string{`"MaxFields"`}},
		{"constraintMinimum", "numType", nil},
		{"constraintMaximum", "numType", nil},
	} {
		f := c.fn(jsP, sp.fn)
		info := f.Info()
		var adds []*ast.CallExpr
		ast.Inspect(f.Body, func(n ast.Node) bool {
			if call, ok := n.(*ast.CallExpr); ok && calleeName(info, call) == jsP+".(*state).add" && len(call.Args) == 3 {
				adds = append(adds, call)
			}
			return true
		})
		ok := len(adds) == 1
		det := fmt.Sprintf("%d calls of s.add", len(adds))
		if ok {
			text := c13ExprText(f, adds[0].Args[2], 0)
			ok = exprString(adds[0].Args[1]) == sp.typ
			det = "adds for " + exprString(adds[0].Args[1]) + ": " + text
			for _, nd := range sp.need {
				if !strings.Contains(text, nd) {
					ok = false
				}
			}
			// no other comparison operator sneaks in
			for _, op := range []string{"token.GTR", "token.GEQ", "token.LSS", "token.LEQ", "token.NEQ", "token.NMAT"} {
				if strings.Contains(text, op) && !contains(sp.need, op) && sp.need != nil {
					ok = false
				}
			}
		}
		c.check("bounds.decoder-operator", sp.fn, f.Decl.Pos(), ok,
			fmt.Sprintf("%s must add a constraint for %s built from %v; %s", sp.fn, sp.typ, sp.need, det))
	}
	// minimum / maximum: operator depends on the boolean exclusive flag of the same side
	for _, sp := range []struct{ fn, flag, incl, excl string }{
		{"constraintMinimum", "p2.exclusiveMin", "token.GEQ", "token.GTR"},
		{"constraintMaximum", "p2.exclusiveMax", "token.LEQ", "token.LSS"},
	} {
		cf := newCaseFn(c, c.fn(jsP, sp.fn))
		for _, excl := range []bool{false, true} {
			path, ok := cf.trace(cf.g.Entry, map[string]bool{sp.flag: excl})
			// the variable that supplies the operator of the added unary expression
			opVar := ""
			ast.Inspect(cf.f.Body, func(n ast.Node) bool {
				if kv, isKV := n.(*ast.KeyValueExpr); isKV && exprString(kv.Key) == "Op" {
					if id, isID := kv.Value.(*ast.Ident); isID {
						opVar = id.Name
					} else {
						opVar = "\x00" + cf.canon(kv.Value)
					}
				}
				return true
			})
			got := cf.lastAssigned(path, opVar)
			if strings.HasPrefix(opVar, "\x00") {
				got = opVar[1:]
			}
			want := sp.incl
			if excl {
				want = sp.excl
			}
			missing := cf.missingAtoms(map[string]bool{sp.flag: true})
			c.check("bounds.decoder-operator", fmt.Sprintf("%s/exclusive=%v", sp.fn, excl), cf.f.Decl.Pos(), ok && got == want && len(missing) == 0,
				fmt.Sprintf("%s must use %s, and %s when the boolean exclusive flag of the same side (%s) is set; found %s", sp.fn, sp.incl, sp.excl, sp.flag, got))
		}
	}
	// the boolean form of exclusiveMinimum/Maximum sets the flag of its own side
	for _, sp := range []struct{ fn, field string }{{"constraintExclusiveMinimum", "exclusiveMin"}, {"constraintExclusiveMaximum", "exclusiveMax"}} {
		w, _ := c13StateFields(c, sp.fn, map[string]bool{}, 0)
		c.check("bounds.decoder-operator", sp.fn+"/flag", c.fn(jsP, sp.fn).Decl.Pos(), w[sp.field] && len(w) == 1,
			fmt.Sprintf("the boolean form of the keyword must set state.%s and nothing else; writes %s", sp.field, keysOf(w)))
	}

	// ---- (c') the generator maps the operators back to the same keywords
	ops := []string{"cue.LessThanOp", "cue.LessThanEqualOp", "cue.GreaterThanOp", "cue.GreaterThanEqualOp"}
	type genSpec struct {
		recv string
		want map[string]string
	}
	for _, sp := range []genSpec{
		{"itemBounds", map[string]string{"cue.LessThanOp": "exclusiveMaximum", "cue.LessThanEqualOp": "maximum", "cue.GreaterThanOp": "exclusiveMinimum", "cue.GreaterThanEqualOp": "minimum"}},
		{"itemLengthBounds", map[string]string{"cue.LessThanEqualOp": "maxLength", "cue.GreaterThanEqualOp": "minLength"}},
		{"itemItemsBounds", map[string]string{"cue.LessThanEqualOp": "maxItems", "cue.GreaterThanEqualOp": "minItems"}},
		{"itemPropertyBounds", map[string]string{"cue.LessThanEqualOp": "maxProperties", "cue.GreaterThanEqualOp": "minProperties"}},
	} {
		f := c.fn(jsP, "(*"+sp.recv+").generate")
		cf := newCaseFn(c, f)
		var keys []string
		for _, o := range ops {
			keys = append(keys, eqKey(o, "recv.constraint"))
		}
		for i, o := range ops {
			want, has := sp.want[o]
			if !has {
				continue
			}
			tr := map[string]bool{"?!(p0.dialect.numericExclusive)": false, "?p0.dialect.numericExclusive": true}
			oneHot(tr, keys, keys[i])
			truth := map[string]bool{}
			for k, v := range tr {
				truth[strings.TrimPrefix(k, "?")] = v
			}
			path, ok := cf.trace(cf.g.Entry, truth)
			kwVar := ""
			if len(path) > 0 {
				if rs, isRet := cf.g.Nodes[path[len(path)-1]].N.(*ast.ReturnStmt); isRet && len(rs.Results) == 1 {
					if call, isCall := rs.Results[0].(*ast.CallExpr); isCall && len(call.Args) > 0 {
						if id, isID := call.Args[0].(*ast.Ident); isID {
							kwVar = id.Name
						}
					}
				}
			}
			got := strings.Trim(cf.lastAssigned(path, kwVar), `"`)
			c.check("bounds.generator-keyword", fmt.Sprintf("%s/%s", sp.recv, strings.TrimPrefix(o, "cue.")), f.Decl.Pos(), ok && got == want,
				fmt.Sprintf("the generator must spell a %s bound as %q (the keyword the importer reads back as the same operator); found %q", strings.TrimPrefix(o, "cue."), want, got))
		}
		if sp.recv == "itemBounds" {
			// boolean-exclusive dialects
			for _, o := range []struct{ op, base, flag string }{{"cue.LessThanOp", "maximum", "exclusiveMaximum"}, {"cue.GreaterThanOp", "minimum", "exclusiveMinimum"}} {
				truth := map[string]bool{"p0.dialect.numericExclusive": false}
				for _, k := range keys {
					truth[k] = k == eqKey(o.op, "recv.constraint")
				}
				path, ok := cf.trace(cf.g.Entry, truth)
				got := ""
				if len(path) > 0 {
					if rs, isRet := cf.g.Nodes[path[len(path)-1]].N.(*ast.ReturnStmt); isRet {
						got = strings.Join(stringLits(f.Info(), rs), ",")
					}
				}
				c.check("bounds.generator-keyword", fmt.Sprintf("%s/%s/boolean-exclusive", sp.recv, strings.TrimPrefix(o.op, "cue.")), f.Decl.Pos(), ok && got == o.base+","+o.flag,
					fmt.Sprintf("in dialects with boolean exclusive bounds a strict bound must be spelled %q plus %q: true; found {%s}", o.base, o.flag, got))
			}
		}
	}

	// ---- (c'') the type-name table of the "type" keyword
	{
		f := c.fn(jsP, "constraintType")
		want := map[string][2]string{
			"null": {"cue.NullKind", "nullType"}, "boolean": {"cue.BoolKind", "boolType"}, "string": {"cue.StringKind", "stringType"},
			"number": {"cue.NumberKind", "numType"}, "integer": {"cue.IntKind", "numType"}, "array": {"cue.ListKind", "arrayType"}, "object": {"cue.StructKind", "objectType"},
		}
		seen := map[string]bool{}
		defaultErrs := false
		ast.Inspect(f.Body, func(n ast.Node) bool {
			cc, ok := n.(*ast.CaseClause)
			if !ok {
				return true
			}
			if cc.List == nil {
				for _, st := range cc.Body {
					ast.Inspect(st, func(m ast.Node) bool {
						if call, ok := m.(*ast.CallExpr); ok && strings.HasSuffix(exprString(call.Fun), ".errf") {
							if len(call.Args) > 1 {
								if v, ok := constString(f.Info(), call.Args[1]); ok && strings.Contains(v, "unknown type") {
									defaultErrs = true
								}
							}
						}
						return true
					})
				}
				return true
			}
			for _, e := range cc.List {
				name, ok := constString(f.Info(), e)
				w, known := want[name]
				if !ok || !known {
					continue
				}
				seen[name] = true
				kind, core := "", ""
				for _, st := range cc.Body {
					ast.Inspect(st, func(m ast.Node) bool {
						switch x := m.(type) {
						case *ast.AssignStmt:
							if x.Tok == token.OR_ASSIGN && len(x.Rhs) == 1 {
								kind = exprString(x.Rhs[0])
							}
						case *ast.CallExpr:
							if strings.HasSuffix(exprString(x.Fun), ".setTypeUsed") && len(x.Args) == 2 {
								core = exprString(x.Args[1])
							}
						}
						return true
					})
				}
				okT := kind == w[0] && core == w[1]
				if name == "integer" {
					// integer additionally narrows the number to int
					hasInt := false
					for _, st := range cc.Body {
						ast.Inspect(st, func(m ast.Node) bool {
							if call, ok := m.(*ast.CallExpr); ok && exprString(call.Fun) == "ast.NewIdent" && len(call.Args) == 1 {
								if v, _ := constString(f.Info(), call.Args[0]); v == "int" {
									hasInt = true
								}
							}
							return true
						})
					}
					okT = okT && hasInt
				}
				c.check("types.name-table", "type/"+name, cc.Pos(), okT,
					fmt.Sprintf("\"type\": %q must allow %s and mark the %s constraints as used (integer additionally adds `int`); found %s / %s", name, w[0], w[1], kind, core))
			}
			return true
		})
		for name := range want {
			if !seen[name] {
				c.check("types.name-table", "type/"+name, f.Decl.Pos(), false, "no case for the JSON Schema type "+name)
			}
		}
		c.check("types.name-table", "type/<unknown>", f.Decl.Pos(), defaultErrs, "an unknown type name must be reported (s.errf \"unknown type\"), not ignored")
	}

	// ---- (d) dispatcher: a handler runs only in its own phase, for a version it is defined for
	ss := c.fn(jsP, "(*state).schemaState")
	var disp *Fn
	for _, l := range c.lits(ss) {
		found := false
		ast.Inspect(l.Body, func(n ast.Node) bool {
			if call, ok := n.(*ast.CallExpr); ok && exprString(call.Fun) == "c.fn" {
				found = true
			}
			return true
		})
		if found {
			disp = l
		}
	}
	if disp == nil {
		c.broken("anchor: the closure of schemaState that dispatches c.fn(key, value, s) was not found")
	}
	g := c.graph(disp)
	calls := setOf(g.find(func(n ast.Node) bool {
		for _, call := range callsIn(n, false) {
			if exprString(call.Fun) == "c.fn" {
				return true
			}
		}
		return false
	}))
	phaseAtom := func(e ast.Expr) (bool, bool) {
		be, ok := e.(*ast.BinaryExpr)
		if !ok || (be.Op != token.NEQ && be.Op != token.EQL) {
			return false, false
		}
		a, b := exprString(be.X), exprString(be.Y)
		if !((a == "c.phase" && b == "pass") || (a == "pass" && b == "c.phase")) {
			return false, false
		}
		return true, be.Op == token.NEQ
	}
	versAtom := func(e ast.Expr) (bool, bool) {
		call, ok := e.(*ast.CallExpr)
		if !ok || !strings.HasSuffix(exprString(call.Fun), "schemaVersion.is") || len(call.Args) != 1 || exprString(call.Args[0]) != "c.versions" {
			return false, false
		}
		return true, false
	}
	for _, gs := range []struct {
		name string
		m    atomMatcher
		why  string
	}{
		{"own-phase", phaseAtom, "a handler must run only in the pass equal to its phase (each keyword exactly once, in dependency order)"},
		{"defined-for-version", versAtom, "a handler must run only for a schema version in its version set (a keyword of another draft must not change the translation)"},
	} {
		r := g.gate(gs.m, calls, nil, g.Entry)
		c.check("dispatch."+gs.name, disp.Name, disp.Body.Pos(), len(calls) == 1 && r.found && !r.leak && !r.bypass,
			fmt.Sprintf("%s (found=%v leak=%v bypass=%v)", gs.why, r.found, r.leak, r.bypass))
	}
	// the pass loop covers every phase
	okLoop := false
	ast.Inspect(ss.Body, func(n ast.Node) bool {
		if rs, ok := n.(*ast.RangeStmt); ok && exprString(rs.X) == "numPhases" {
			okLoop = true
		}
		return true
	})
	maxPhase := 0
	for _, e := range table {
		if e.phase > maxPhase {
			maxPhase = e.phase
		}
	}
	np := -1
	if f := c.fnOpt(jsP, "init"); f != nil {
		_ = f
	}
	for _, file := range c.pkg(jsP).Syntax {
		ast.Inspect(file, func(n ast.Node) bool {
			if as, ok := n.(*ast.AssignStmt); ok && len(as.Lhs) == 1 && exprString(as.Lhs[0]) == "numPhases" {
				if v, ok := constInt(c.pkg(jsP).TypesInfo, as.Rhs[0]); ok {
					np = int(v)
				}
			}
			return true
		})
	}
	c.check("dispatch.every-phase-runs", ss.Name, ss.Decl.Pos(), okLoop && np > maxPhase,
		fmt.Sprintf("schemaState must loop over numPhases passes and numPhases (%d) must exceed the highest phase in the table (%d)", np, maxPhase))
}

func contains(a []string, s string) bool {
	for _, x := range a {
		if x == s {
			return true
		}
	}
	return false
}

// c13ExprText renders an expression together with every expression assigned
// to the locals it mentions (transitively), with selectors and literals
// spelled out (types.ExprString elides composite literals).
func c13ExprText(f *Fn, e ast.Expr, depth int) string {
	info := f.Info()
	var sb strings.Builder
	seen := map[types.Object]bool{}
	var rec func(n ast.Node, d int)
	defsOf := func(o types.Object) []ast.Expr {
		var out []ast.Expr
		ast.Inspect(f.Body, func(m ast.Node) bool {
			switch x := m.(type) {
			case *ast.AssignStmt:
				if len(x.Lhs) == len(x.Rhs) {
					for i, l := range x.Lhs {
						if identObj(info, l) == o {
							out = append(out, x.Rhs[i])
						}
					}
				}
			case *ast.ValueSpec:
				for i, nm := range x.Names {
					if info.Defs[nm] == o && i < len(x.Values) {
						out = append(out, x.Values[i])
					}
				}
			}
			return true
		})
		return out
	}
	rec = func(n ast.Node, d int) {
		ast.Inspect(n, func(x ast.Node) bool {
			switch y := x.(type) {
			case *ast.Ident:
				sb.WriteString(y.Name + " ")
				o := info.Uses[y]
				if v, ok := o.(*types.Var); ok && !v.IsField() && v.Pkg() != nil && v.Parent() != v.Pkg().Scope() && !isParamOf(f, v) && !seen[o] && d < 5 {
					seen[o] = true
					for _, def := range defsOf(o) {
						sb.WriteString("{")
						rec(def, d+1)
						sb.WriteString("} ")
					}
				}
			case *ast.SelectorExpr:
				sb.WriteString(exprString(y) + " ")
				if _, isPkg := info.Uses[identOf(y.X)].(*types.PkgName); isPkg {
					return false
				}
			case *ast.BasicLit:
				sb.WriteString(y.Value + " ")
			}
			return true
		})
	}
	rec(e, depth)
	return sb.String()
}

// c13RebuildCarriesFields: the generator's optimisation passes rewrite the
// item tree through `apply` methods: when a child changed, the method returns
// a fresh node of its own type. The fresh node must carry every field of the
// old one — a field left out silently resets that constraint (a `contains`
// rebuilt without its min/max becomes a plain `contains`). The rule applies
// to every method in the package that returns a composite literal of its own
// receiver type: all fields of the struct must be keyed in the literal.
func c13RebuildCarriesFields(c *Ctx) {
	const rule = "generator.rebuild-carries-every-field"
	p := c.pkg(jsP)
	n := 0
	for _, f := range c.funcs(p) {
		fd := f.Decl
		if fd == nil || fd.Recv == nil || len(fd.Recv.List) != 1 {
			continue
		}
		info := f.Info()
		rt := info.TypeOf(fd.Recv.List[0].Type)
		if rt == nil {
			continue
		}
		if pt, ok := rt.(*types.Pointer); ok {
			rt = pt.Elem()
		}
		named, ok := types.Unalias(rt).(*types.Named)
		if !ok {
			continue
		}
		st, ok := named.Underlying().(*types.Struct)
		if !ok || st.NumFields() < 2 {
			continue // a single-field node cannot drop a sibling field
		}
		k := 0
		ast.Inspect(f.Body, func(x ast.Node) bool {
			if _, isLit := x.(*ast.FuncLit); isLit {
				return false
			}
			rs, ok := x.(*ast.ReturnStmt)
			if !ok {
				return true
			}
			for _, r := range rs.Results {
				e := ast.Unparen(r)
				if u, ok := e.(*ast.UnaryExpr); ok && u.Op == token.AND {
					e = ast.Unparen(u.X)
				}
				cl, ok := e.(*ast.CompositeLit)
				if !ok {
					continue
				}
				t := info.TypeOf(cl)
				if t == nil || !types.Identical(types.Unalias(t), named) {
					continue
				}
				// only rebuilds: the literal takes at least one field from the receiver or the method is apply
				set := map[string]bool{}
				for _, el := range cl.Elts {
					if kv, ok := el.(*ast.KeyValueExpr); ok {
						set[exprString(kv.Key)] = true
					}
				}
				var missing []string
				for i := 0; i < st.NumFields(); i++ {
					if !set[st.Field(i).Name()] {
						missing = append(missing, st.Field(i).Name())
					}
				}
				k++
				n++
				c.check(rule, fmt.Sprintf("%s#%d", f.Name, k), cl.Pos(), len(missing) == 0 || len(cl.Elts) == st.NumFields() && len(set) == 0,
					fmt.Sprintf("a method of %s that returns a fresh %s must set every field of the struct (missing: %v): the field left out is reset to its zero value when an optimisation pass rewrites the node", named.Obj().Name(), named.Obj().Name(), missing))
			}
			return true
		})
	}
	c.expect(rule, 3)
	c.note("%d rebuild sites of multi-field item nodes", n)
}

// c13ItemMethodsCoverFields: the generator's item nodes are hash-consed
// (uniqueItems interns a node by its hash) and rendered by generate. A field
// that hash does not write makes two different constraints intern to one node;
// a field that generate never reads is a constraint that is never emitted.
// Every field of an item struct must be mentioned (through the receiver) by
// both methods.
func c13ItemMethodsCoverFields(c *Ctx) {
	p := c.pkg(jsP)
	nHash, nGen := 0, 0
	for _, f := range c.funcs(p) {
		fd := f.Decl
		if fd == nil || fd.Recv == nil || len(fd.Recv.List) != 1 || len(fd.Recv.List[0].Names) != 1 {
			continue
		}
		if fd.Name.Name != "hash" && fd.Name.Name != "generate" {
			continue
		}
		info := f.Info()
		rt := info.TypeOf(fd.Recv.List[0].Type)
		if pt, ok := rt.(*types.Pointer); ok {
			rt = pt.Elem()
		}
		named, ok := types.Unalias(rt).(*types.Named)
		if !ok || !strings.HasPrefix(named.Obj().Name(), "item") {
			continue
		}
		st, ok := named.Underlying().(*types.Struct)
		if !ok || st.NumFields() == 0 {
			continue
		}
		recv := info.Defs[fd.Recv.List[0].Names[0]]
		used := map[string]bool{}
		whole := false
		ast.Inspect(f.Body, func(x ast.Node) bool {
			switch e := x.(type) {
			case *ast.SelectorExpr:
				if identObj(info, e.X) == recv {
					used[e.Sel.Name] = true
					return false
				}
			case *ast.Ident:
				if info.Uses[e] == recv {
					whole = true // the receiver is passed on as a whole (delegation)
				}
			}
			return true
		})
		var missing []string
		for i := 0; i < st.NumFields(); i++ {
			if !used[st.Field(i).Name()] {
				missing = append(missing, st.Field(i).Name())
			}
		}
		// a method that hands the whole receiver to a helper is judged at the helper
		rule := "generator.hash-covers-every-field"
		why := "the node is interned by this hash: a field it does not write lets two different constraints collapse into one node"
		if fd.Name.Name == "generate" {
			rule = "generator.generate-reads-every-field"
			why = "a field that generate never reads is a constraint that is never emitted"
			nGen++
		} else {
			nHash++
		}
		c.check(rule, f.Name, fd.Pos(), len(missing) == 0 || whole,
			fmt.Sprintf("every field of %s must be mentioned by %s (missing: %v): %s", named.Obj().Name(), fd.Name.Name, missing, why))
	}
	c.expect("generator.hash-covers-every-field", 10)
	c.expect("generator.generate-reads-every-field", 10)
}
