package main

import (
	"fmt"
	"go/ast"
	"go/types"
	"sort"
	"strings"

	"golang.org/x/tools/go/packages"
)

// ---------------------------------------------------------------------------
// E5: exhaustiveness of type-switch dispatchers

// lookupType resolves "internal/core/adt.Expr" to its type name object.
func (c *Ctx) lookupType(qual string) *types.TypeName {
	dot := strings.LastIndex(qual, ".")
	p := c.pkg(qual[:dot])
	tn, _ := p.Types.Scope().Lookup(qual[dot+1:]).(*types.TypeName)
	if tn == nil {
		c.broken("anchor: type %s not found", qual)
	}
	return tn
}

// implementors lists the named non-interface types of package p such that T
// or *T implements iface, sorted by name.
func implementors(p *packages.Package, iface *types.Interface) []*types.TypeName {
	var out []*types.TypeName
	sc := p.Types.Scope()
	for _, name := range sc.Names() {
		tn, ok := sc.Lookup(name).(*types.TypeName)
		if !ok || tn.IsAlias() {
			continue
		}
		if _, isIface := tn.Type().Underlying().(*types.Interface); isIface {
			continue
		}
		if types.Implements(tn.Type(), iface) || types.Implements(types.NewPointer(tn.Type()), iface) {
			out = append(out, tn)
		}
	}
	return out
}

// switchCases collects, over all type switches in body whose operand's static
// type is identical to (or an interface implemented by / implementing) iface,
// the set of case types. anyDefault reports whether some such switch has a
// default clause.
func switchCases(info *types.Info, body ast.Node, want func(types.Type) bool) (cases []types.Type, nswitch int, hasDefault bool) {
	ast.Inspect(body, func(n ast.Node) bool {
		ts, ok := n.(*ast.TypeSwitchStmt)
		if !ok {
			return true
		}
		var x ast.Expr
		switch a := ts.Assign.(type) {
		case *ast.AssignStmt:
			x = a.Rhs[0].(*ast.TypeAssertExpr).X
		case *ast.ExprStmt:
			x = a.X.(*ast.TypeAssertExpr).X
		}
		t := info.TypeOf(x)
		if t == nil || !want(t) {
			return true
		}
		nswitch++
		for _, cl := range ts.Body.List {
			cc := cl.(*ast.CaseClause)
			if cc.List == nil {
				hasDefault = true
			}
			for _, e := range cc.List {
				if ct := info.TypeOf(e); ct != nil {
					cases = append(cases, ct)
				}
			}
		}
		return true
	})
	return
}

// covered reports whether implementor tn is matched by one of the case types:
// identical (value or pointer form), or an interface case it implements.
func covered(tn *types.TypeName, cases []types.Type) bool {
	T := tn.Type()
	P := types.NewPointer(T)
	for _, ct := range cases {
		if types.Identical(ct, T) || types.Identical(ct, P) {
			return true
		}
		if it, ok := ct.Underlying().(*types.Interface); ok {
			if types.Implements(T, it) || types.Implements(P, it) {
				return true
			}
		}
	}
	return false
}

type dispatcher struct {
	pkg, fn string // anchored function
	iface   string // qualified interface name, e.g. "internal/core/adt.Expr"
	// switchOn optionally narrows to switches whose operand has exactly this
	// type (qualified name); default: operand type identical to iface.
	implPkg string            // package whose implementors must be covered
	except  map[string]string // implementor name -> reason it cannot reach this switch
}

// checkDispatcher emits one obligation per (dispatcher, implementor).
func (c *Ctx) checkDispatcher(rule string, d dispatcher) (total, missing int) {
	f := c.fn(d.pkg, d.fn)
	itn := c.lookupType(d.iface)
	iface, ok := itn.Type().Underlying().(*types.Interface)
	if !ok {
		c.broken("anchor: %s is not an interface", d.iface)
	}
	want := func(t types.Type) bool { return types.Identical(t, itn.Type()) }
	cases, nsw, _ := switchCases(f.Info(), f.Body, want)
	if nsw == 0 {
		c.broken("anchor: %s has no type switch over %s any more; the dispatcher table needs re-reading", f.Name, d.iface)
	}
	impls := implementors(c.pkg(d.implPkg), iface)
	if len(impls) == 0 {
		c.broken("anchor: no implementors of %s in %s", d.iface, d.implPkg)
	}
	for _, tn := range impls {
		total++
		cov := covered(tn, cases)
		why, exc := d.except[tn.Name()]
		okk := cov || exc
		det := fmt.Sprintf("%s must handle every %s: %s", f.Name, d.iface, tn.Name())
		switch {
		case cov:
			det += " is covered by a case"
		case exc:
			det += " is excepted: " + why
		default:
			det += " has NO case (a value of this type falls to the default: panic or silent drop)"
			missing++
		}
		c.check(rule, fmt.Sprintf("%s/%s<-%s", f.Name, shortIface(d.iface), tn.Name()), f.Decl.Pos(), okk, det)
	}
	for name := range d.except {
		found := false
		for _, tn := range impls {
			if tn.Name() == name {
				found = true
			}
		}
		if !found {
			c.note("dispatcher %s: exception for %s is stale (no such implementor)", f.Name, name)
		}
	}
	return
}

func shortIface(q string) string { return q[strings.LastIndex(q, "/")+1:] }

// discoverDispatchers lists, for the evidence, every function in pkgs with a
// type switch over iface and its missing implementors (not a verdict).
func (c *Ctx) discoverDispatchers(pkgRels []string, ifaceQ, implPkg string) []string {
	itn := c.lookupType(ifaceQ)
	iface := itn.Type().Underlying().(*types.Interface)
	impls := implementors(c.pkg(implPkg), iface)
	var out []string
	for _, pr := range pkgRels {
		p := c.pkg(pr)
		for _, f := range c.funcs(p) {
			cases, nsw, def := switchCases(f.Info(), f.Body, func(t types.Type) bool { return types.Identical(t, itn.Type()) })
			if nsw == 0 {
				continue
			}
			var miss []string
			for _, tn := range impls {
				if !covered(tn, cases) {
					miss = append(miss, tn.Name())
				}
			}
			dp := defaultPanics(f, func(t types.Type) bool { return types.Identical(t, itn.Type()) })
			out = append(out, fmt.Sprintf("%s over %s: %d/%d covered, default=%v panics=%v, missing=%v", f.Name, shortIface(ifaceQ), len(impls)-len(miss), len(impls), def, dp, miss))
		}
	}
	sort.Strings(out)
	return out
}

// ---------------------------------------------------------------------------
// E8: field coverage — no dropped subtree

// structFields returns the fields of named struct type tn (not promoted).
func structFields(tn *types.TypeName) []*types.Var {
	st, ok := tn.Type().Underlying().(*types.Struct)
	if !ok {
		return nil
	}
	var out []*types.Var
	for i := 0; i < st.NumFields(); i++ {
		out = append(out, st.Field(i))
	}
	return out
}

// carriesNode reports whether a field type is, points to, or is a slice/array
// of a type implementing iface (a child of the tree), or is itself an
// interface extending iface.
func carriesNode(t types.Type, iface *types.Interface) bool {
	for i := 0; i < 3; i++ {
		switch u := t.(type) {
		case *types.Slice:
			t = u.Elem()
			continue
		case *types.Array:
			t = u.Elem()
			continue
		}
		break
	}
	if types.Implements(t, iface) {
		return true
	}
	if p, ok := t.(*types.Pointer); ok {
		return types.Implements(p, iface) || types.Implements(p.Elem(), iface)
	}
	if _, ok := t.Underlying().(*types.Struct); ok {
		return types.Implements(types.NewPointer(t), iface)
	}
	return false
}

// fieldsUsed returns the set of struct field objects referenced (selector or
// composite-literal key) inside the given bodies.
func fieldsUsed(bodies []*Fn) map[*types.Var]bool {
	used := map[*types.Var]bool{}
	for _, f := range bodies {
		info := f.Info()
		ast.Inspect(f.Body, func(n ast.Node) bool {
			switch x := n.(type) {
			case *ast.SelectorExpr:
				if s := info.Selections[x]; s != nil && s.Kind() == types.FieldVal {
					if v, ok := s.Obj().(*types.Var); ok {
						used[v.Origin()] = true
					}
				}
			case *ast.KeyValueExpr:
				if id, ok := x.Key.(*ast.Ident); ok {
					if v, ok := info.Uses[id].(*types.Var); ok && v.IsField() {
						used[v.Origin()] = true
					}
				}
			}
			return true
		})
	}
	return used
}

// pkgBodies returns all function bodies of a package (declarations only;
// literals are nested inside them and are walked with them).
func (c *Ctx) pkgBodies(pkgRel string, files ...string) []*Fn {
	p := c.pkg(pkgRel)
	var out []*Fn
	for _, f := range c.funcs(p) {
		if len(files) > 0 {
			fn := c.Fset.Position(f.Decl.Pos()).Filename
			ok := false
			for _, want := range files {
				if strings.HasSuffix(fn, "/"+want) {
					ok = true
				}
			}
			if !ok {
				continue
			}
		}
		out = append(out, f)
	}
	return out
}

type fieldCoverage struct {
	consumer  string   // label of the consumer ("cue/format (v1 printer)")
	bodies    []*Fn    // the consumer's code
	nodePkg   string   // package of the node types
	nodeIface string   // qualified node interface
	types     []string // node types the consumer handles; nil = all implementors
	payload   map[string][]string // extra (non-child) fields that must be referenced, per type
	except    map[string]string   // "Type.Field" -> reason
}

// checkFieldCoverage emits one obligation per (consumer, type.field).
func (c *Ctx) checkFieldCoverage(rule string, fc fieldCoverage) (total, missing int) {
	itn := c.lookupType(fc.nodeIface)
	iface := itn.Type().Underlying().(*types.Interface)
	np := c.pkg(fc.nodePkg)
	var tns []*types.TypeName
	if fc.types == nil {
		tns = implementors(np, iface)
	} else {
		for _, name := range fc.types {
			tn, _ := np.Types.Scope().Lookup(name).(*types.TypeName)
			if tn == nil {
				c.broken("anchor: type %s.%s not found", fc.nodePkg, name)
			}
			tns = append(tns, tn)
		}
	}
	used := fieldsUsed(fc.bodies)
	for _, tn := range tns {
		want := map[string]bool{}
		for _, p := range fc.payload[tn.Name()] {
			want[p] = true
		}
		for _, fld := range structFields(tn) {
			child := carriesNode(fld.Type(), iface) && !fld.Embedded()
			if !child && !want[fld.Name()] {
				continue
			}
			delete(want, fld.Name())
			total++
			key := tn.Name() + "." + fld.Name()
			why, exc := fc.except[key]
			ok := used[fld.Origin()] || exc
			det := fmt.Sprintf("%s must reference %s (a child/payload of the tree it prints or walks)", fc.consumer, key)
			switch {
			case used[fld.Origin()]:
				det += ": referenced"
			case exc:
				det += ": excepted — " + why
			default:
				det += ": NEVER referenced — the subtree/payload is dropped"
				missing++
			}
			c.check(rule, fc.consumer+"/"+key, fld.Pos(), ok, det)
		}
		for p := range want {
			c.broken("anchor: payload field %s.%s not found", tn.Name(), p)
		}
	}
	return
}

// ---------------------------------------------------------------------------
// E8 at case granularity: inside a dispatcher, the case that handles node type
// T must itself (or through helpers that receive the same node) reference
// every child/payload field of T.

// descentFuncs returns the functions of package p from which a function
// containing a type switch over an interface of nodePkg is reachable through
// static calls inside the package ("recursive descent" functions): a child
// handed to one of them is processed further.
func (c *Ctx) descentFuncs(p *packages.Package, nodePkgPath string) map[*types.Func]bool {
	key := p.PkgPath + "|" + nodePkgPath
	if c.descentMemo == nil {
		c.descentMemo = map[string]map[*types.Func]bool{}
	}
	if m, ok := c.descentMemo[key]; ok {
		return m
	}
	callees := map[*types.Func]map[*types.Func]bool{}
	seeds := map[*types.Func]bool{}
	for _, f := range c.funcs(p) {
		if f.Obj == nil {
			continue
		}
		self := f.Obj.Origin()
		callees[self] = map[*types.Func]bool{}
		info := f.Info()
		ast.Inspect(f.Body, func(n ast.Node) bool {
			switch x := n.(type) {
			case *ast.TypeSwitchStmt:
				var op ast.Expr
				switch a := x.Assign.(type) {
				case *ast.AssignStmt:
					op = a.Rhs[0].(*ast.TypeAssertExpr).X
				case *ast.ExprStmt:
					op = a.X.(*ast.TypeAssertExpr).X
				}
				if t, ok := info.TypeOf(op).(*types.Named); ok && t.Obj().Pkg() != nil && t.Obj().Pkg().Path() == nodePkgPath {
					if _, isI := t.Underlying().(*types.Interface); isI {
						seeds[self] = true
					}
				}
			case *ast.Ident:
				if fn, ok := info.Uses[x].(*types.Func); ok && fn.Pkg() == p.Types {
					callees[self][fn.Origin()] = true
				}
			}
			return true
		})
	}
	out := map[*types.Func]bool{}
	for s := range seeds {
		out[s] = true
	}
	for changed := true; changed; {
		changed = false
		for f, cs := range callees {
			if out[f] {
				continue
			}
			for cal := range cs {
				if out[cal] {
					out[f] = true
					changed = true
					break
				}
			}
		}
	}
	c.descentMemo[key] = out
	return out
}

// strongFieldRefs scans n for uses of fields of struct type T that make the
// field's value flow onward: passed (possibly by address or inside a slice
// expression) to a descent function, placed in a composite literal, ranged
// over, assigned, returned, or used as receiver of a method call. A use that
// only tests the field (x.F != nil, len(x.F) == 0) or hands it to a function
// that does not descend is not a strong use.
func (c *Ctx) strongFieldRefs(p *packages.Package, info *types.Info, n ast.Node, T types.Type, nodePkgPath string, into map[string]bool, follow func(fn *types.Func)) {
	descent := c.descentFuncs(p, nodePkgPath)
	isT := func(t types.Type) bool {
		if t == nil {
			return false
		}
		if pt, ok := t.(*types.Pointer); ok {
			t = pt.Elem()
		}
		return types.Identical(t, T)
	}
	var stack []ast.Node
	ast.Inspect(n, func(x ast.Node) bool {
		if x == nil {
			stack = stack[:len(stack)-1]
			return false
		}
		stack = append(stack, x)
		if call, ok := x.(*ast.CallExpr); ok && follow != nil {
			if fn, ok := calleeObj(info, call).(*types.Func); ok {
				passes := false
				for _, a := range call.Args {
					if isT(info.TypeOf(a)) {
						passes = true
					}
				}
				if sel, ok := ast.Unparen(call.Fun).(*ast.SelectorExpr); ok && isT(info.TypeOf(sel.X)) {
					passes = true
				}
				if passes {
					follow(fn)
				}
			}
		}
		sel, ok := x.(*ast.SelectorExpr)
		if !ok {
			return true
		}
		s := info.Selections[sel]
		if s == nil || s.Kind() != types.FieldVal || !isT(s.Recv()) {
			return true
		}
		into["~"+sel.Sel.Name] = true // any reference (used for payload fields)
		// climb the parents
		strong := false
		child := ast.Node(sel)
		for i := len(stack) - 2; i >= 0 && !strong; i-- {
			switch par := stack[i].(type) {
			case *ast.ParenExpr, *ast.StarExpr, *ast.SliceExpr, *ast.IndexExpr:
			case *ast.UnaryExpr:
				if par.Op.String() != "&" {
					i = -1
				}
			case *ast.SelectorExpr:
				// x.F.Method(...) or x.F.Sub
				if par.X == child {
					if i > 0 {
						if call, ok := stack[i-1].(*ast.CallExpr); ok && call.Fun == par {
							strong = true // receiver of a method call
						}
					}
				}
				if !strong {
					// deeper selection: keep climbing (x.F.Sub passed on)
				}
			case *ast.CallExpr:
				if par.Fun == child {
					i = -1
					break
				}
				switch fn := calleeObj(info, par).(type) {
				case *types.Func:
					// A function that merely measures or tests its argument
					// (single basic-typed result: bool, int, RelPos, string)
					// does not carry the child onward, unless it descends.
					weak := false
					if sig, ok := fn.Type().(*types.Signature); ok && sig.Results().Len() == 1 {
						if _, basic := sig.Results().At(0).Type().Underlying().(*types.Basic); basic {
							weak = true
						}
					}
					if !weak || descent[fn.Origin()] {
						strong = true
					}
				case *types.Builtin:
					if fn.Name() == "append" || fn.Name() == "copy" {
						strong = true
					}
				default:
					strong = true // call through a function value
				}
				i = -1
			case *ast.CompositeLit, *ast.KeyValueExpr:
				strong = true
			case *ast.RangeStmt:
				if par.X == child {
					strong = true
				}
				i = -1
			case *ast.AssignStmt:
				for _, r := range par.Rhs {
					if r == child {
						strong = true
					}
				}
				for _, l := range par.Lhs {
					if l == child {
						strong = true // the consumer sets the field (parser, Apply)
					}
				}
				i = -1
			case *ast.ReturnStmt, *ast.SendStmt:
				strong = true
			case *ast.SwitchStmt:
				if par.Tag == child {
					strong = true
				}
				i = -1
			case *ast.TypeSwitchStmt, *ast.TypeAssertExpr:
				strong = true
			default:
				i = -1
			}
			if i >= 0 {
				child = stack[i]
			}
		}
		if strong {
			into[sel.Sel.Name] = true
		}
		return true
	})
}

// caseFieldRefs returns the fields of T strongly used by the statements of
// the case clause and by package functions reached by passing a *T / T value.
func (c *Ctx) caseFieldRefs(f *Fn, stmts []ast.Stmt, T types.Type, nodePkgPath string) map[string]bool {
	refs := map[string]bool{}
	visited := map[*types.Func]bool{}
	var follow func(fn *types.Func)
	depth := 0
	follow = func(fn *types.Func) {
		if visited[fn.Origin()] || depth >= 4 {
			return
		}
		visited[fn.Origin()] = true
		if d := c.declOf(fn); d != nil && d.Pkg == f.Pkg {
			depth++
			c.strongFieldRefs(f.Pkg, d.Info(), d.Body, T, nodePkgPath, refs, follow)
			depth--
		}
	}
	for _, s := range stmts {
		c.strongFieldRefs(f.Pkg, f.Info(), s, T, nodePkgPath, refs, follow)
	}
	return refs
}

// pkgStrongRefs: strong uses of T's fields anywhere in the package.
func (c *Ctx) pkgStrongRefs(p *packages.Package, T types.Type, nodePkgPath string) map[string]bool {
	refs := map[string]bool{}
	for _, f := range c.funcs(p) {
		c.strongFieldRefs(p, f.Info(), f.Body, T, nodePkgPath, refs, nil)
	}
	return refs
}

// checkCaseFieldCoverage: for each case of the dispatcher's type switches over
// iface that names a struct node type of nodePkg, every child field (and the
// listed payload fields) is referenced in that case.
func (c *Ctx) checkCaseFieldCoverage(rule string, d dispatcher, nodeIface string, payload map[string][]string, except map[string]string) int {
	f := c.fn(d.pkg, d.fn)
	info := f.Info()
	itn := c.lookupType(d.iface)
	niface := c.lookupType(nodeIface).Type().Underlying().(*types.Interface)
	nodePkgPath := c.lookupType(nodeIface).Pkg().Path()
	n := 0
	ast.Inspect(f.Body, func(x ast.Node) bool {
		ts, ok := x.(*ast.TypeSwitchStmt)
		if !ok {
			return true
		}
		var op ast.Expr
		switch a := ts.Assign.(type) {
		case *ast.AssignStmt:
			op = a.Rhs[0].(*ast.TypeAssertExpr).X
		case *ast.ExprStmt:
			op = a.X.(*ast.TypeAssertExpr).X
		}
		if t := info.TypeOf(op); t == nil || !types.Identical(t, itn.Type()) {
			return true
		}
		for _, cl := range ts.Body.List {
			cc := cl.(*ast.CaseClause)
			if len(cc.List) != 1 {
				continue // multi-type cases see the interface only
			}
			ct := info.TypeOf(cc.List[0])
			pt, ok := ct.(*types.Pointer)
			if !ok {
				continue
			}
			named, ok := pt.Elem().(*types.Named)
			if !ok {
				continue
			}
			tn := named.Obj()
			if _, isStruct := named.Underlying().(*types.Struct); !isStruct {
				continue
			}
			refs := c.caseFieldRefs(f, cc.Body, named, nodePkgPath)
			// If the node as a whole is handed to a function that takes an
			// interface (f.expr(n), f.print(n)), the callee dispatches on it
			// again; fall back to package-wide references for this case.
			escapes := false
			for _, st := range cc.Body {
				ast.Inspect(st, func(y ast.Node) bool {
					call, ok := y.(*ast.CallExpr)
					if !ok {
						return true
					}
					for _, a := range call.Args {
						if id, ok := ast.Unparen(a).(*ast.Ident); ok {
							if t := info.TypeOf(id); t != nil && types.Identical(t, ct) {
								escapes = true
							}
						}
					}
					return true
				})
			}
			var pkgUsed map[string]bool
			if escapes {
				pkgUsed = c.pkgStrongRefs(f.Pkg, named, nodePkgPath)
			}
			want := map[string]bool{}
			for _, p := range payload[tn.Name()] {
				want[p] = true
			}
			for _, fld := range structFields(tn) {
				child := carriesNode(fld.Type(), niface) && !fld.Embedded()
				if !child && !want[fld.Name()] {
					continue
				}
				key := tn.Name() + "." + fld.Name()
				why, exc := except[key]
				if !exc {
					why, exc = except[f.Name+":"+key]
				}
				if !child {
					// payload (operator, label, literal text): any use counts
					if refs["~"+fld.Name()] || (escapes && pkgUsed["~"+fld.Name()]) {
						refs[fld.Name()] = true
					}
				}
				ok := refs[fld.Name()] || exc || (escapes && pkgUsed[fld.Name()])
				det := fmt.Sprintf("the %s case of %s must use %s (directly or in a helper that receives the node)", tn.Name(), f.Name, key)
				if escapes && !refs[fld.Name()] && pkgUsed[fld.Name()] {
					det += ": the node is passed on whole; referenced elsewhere in the package"
				}
				if !refs[fld.Name()] && exc {
					det += ": excepted — " + why
				} else if !ok {
					det += ": it never does — this child/payload is dropped for nodes of this type"
				}
				n++
				c.check(rule, fmt.Sprintf("%s/case-%s/%s", f.Name, tn.Name(), fld.Name()), cc.Pos(), ok, det)
			}
		}
		return true
	})
	return n
}

// defaultPanics reports whether a type switch over the wanted operand type in
// f has a default clause that panics (directly).
func defaultPanics(f *Fn, want func(types.Type) bool) bool {
	info := f.Info()
	found := false
	ast.Inspect(f.Body, func(n ast.Node) bool {
		ts, ok := n.(*ast.TypeSwitchStmt)
		if !ok {
			return true
		}
		var x ast.Expr
		switch a := ts.Assign.(type) {
		case *ast.AssignStmt:
			x = a.Rhs[0].(*ast.TypeAssertExpr).X
		case *ast.ExprStmt:
			x = a.X.(*ast.TypeAssertExpr).X
		}
		if t := info.TypeOf(x); t == nil || !want(t) {
			return true
		}
		for _, cl := range ts.Body.List {
			cc := cl.(*ast.CaseClause)
			if cc.List != nil {
				continue
			}
			for _, st := range cc.Body {
				ast.Inspect(st, func(y ast.Node) bool {
					if call, ok := y.(*ast.CallExpr); ok {
						nm := calleeName(info, call)
						if nm == "panic" || strings.HasSuffix(nm, ".Assertf") || strings.HasSuffix(nm, "Fatalf") {
							found = true
						}
					}
					return true
				})
			}
		}
		return true
	})
	return found
}
