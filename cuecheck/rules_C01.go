package main

import (
	"fmt"
	"go/ast"
	"go/types"
	"sort"
	"strings"
)

func init() {
	register(&propCheck{
		id:   "C01",
		pkgs: []string{"internal/core/adt", "internal/core/compile", "cue/build", "cue/load", "cue"},
		run:  checkC01,
		about: "C01 (evaluation independent of declaration/conjunct order), narrow: decides three order-independence mechanisms that are visible in the shape of the code. (a) Share exclusion: in the two conjunct dispatchers (nodeContext.scheduleConjunct, insertValueConjunct) every case that accumulates a non-reference constraint passes n.unshare() — or delegates to a dispatcher that does — on every path through the case; without it the node stays aliased to the referenced vertex and the extra conjunct is ignored, depending on which conjunct arrived first. " +
			"(b) shareIfPossible reaches share() only past the noSharing/isShared/errs guard and the no-arcs guard. (c) No iteration-order dependence: every range over a map in the evaluator, the compiler and the build/load packages is commutative or sorted before use. " +
			"It does not decide commutativity/associativity/idempotence of the values computed (scheduler freezing, disjunction cross product, closedness evidence).",
		trust: []string{"the scheduler and closedness bookkeeping are value-level"},
	})
}

// calls that hand the conjunct to another dispatcher which applies the rule itself
var c01Delegates = map[string]string{
	adtP + ".(*nodeContext).scheduleConjunct":        "recursion into the same dispatcher",
	adtP + ".(*nodeContext).insertValueConjunct":     "value dispatcher (checked case by case)",
	adtP + ".(*nodeContext).scheduleVertexConjuncts": "the sharing path itself: decides per referenced vertex whether to share",
	adtP + ".(*nodeContext).insertComprehension":     "unshared when the comprehension task runs (tasks.go)",
}

// cases that may legitimately leave the node shared
var c01ExemptCases = map[string]string{
	"scheduleConjunct/Resolver":           "a reference is the sharing path itself (handleResolver -> shareIfPossible)",
	"insertValueConjunct/*Vertex":         "the first switch's Vertex case is the sharing path (a shared or struct/list vertex is forwarded, not accumulated)",
	"insertValueConjunct/*Top":            "`ref & _` may stay shared: top adds no constraint",
	"insertValueConjunct/*Vertex#2":       "handled by the first switch",
	"scheduleConjunct/*ConjunctGroup":     "pure recursion into scheduleConjunct per element; an empty group adds no constraint",
	"insertValueConjunct/*Conjunction":    "pure recursion into insertValueConjunct per element (ref & ref may stay shared); an empty conjunction adds no constraint",
}

func checkC01(c *Ctx) {
	c01ScalarMerge(c)
	c01TopIsNeutral(c)
	c01PendingLookupRetries(c)
	nCases := 0
	for _, fn := range []string{"(*nodeContext).scheduleConjunct", "(*nodeContext).insertValueConjunct"} {
		f := c.fn(adtP, fn)
		g := c.graph(f)
		info := f.Info()
		short := strings.TrimPrefix(fn, "(*nodeContext).")
		seen := map[string]int{}
		passes := func(id int) bool {
			nd := g.Nodes[id].N
			if nd == nil {
				return false
			}
			for _, call := range callsIn(nd, false) {
				nm := calleeName(info, call)
				if nm == adtP+".(*nodeContext).unshare" {
					return true
				}
				if _, ok := c01Delegates[nm]; ok {
					return true
				}
				// scheduleTask(handleResolver, …) is the reference path
				if nm == adtP+".(*nodeContext).scheduleTask" && len(call.Args) > 0 {
					if id, ok := ast.Unparen(call.Args[0]).(*ast.Ident); ok && id.Name == "handleResolver" {
						return true
					}
				}
			}
			return false
		}
		ast.Inspect(f.Body, func(n ast.Node) bool {
			ts, ok := n.(*ast.TypeSwitchStmt)
			if !ok {
				return true
			}
			// only switches over the conjunct element / the value
			var op ast.Expr
			switch a := ts.Assign.(type) {
			case *ast.AssignStmt:
				op = a.Rhs[0].(*ast.TypeAssertExpr).X
			case *ast.ExprStmt:
				op = a.X.(*ast.TypeAssertExpr).X
			}
			ot := info.TypeOf(op)
			if ot == nil {
				return true
			}
			tk := typeKey(ot)
			if !strings.HasSuffix(tk, "adt.Elem") && !strings.HasSuffix(tk, "adt.Value") {
				return true
			}
			for _, cl := range ts.Body.List {
				cc := cl.(*ast.CaseClause)
				if cc.List == nil || len(cc.Body) == 0 {
					continue // default panics / empty case accumulates nothing
				}
				var names []string
				for _, e := range cc.List {
					names = append(names, exprString(e))
				}
				name := short + "/" + strings.Join(names, ",")
				seen[name]++
				if seen[name] > 1 {
					name = fmt.Sprintf("%s#%d", name, seen[name])
				}
				nCases++
				if why, ok := c01ExemptCases[name]; ok {
					c.check("share.excluded-on-accumulation", name, cc.Pos(), true, "exempt: "+why)
					continue
				}
				// entry node of the case body
				entry := -1
				for _, nd := range g.Nodes {
					if nd.Stmt == ast.Stmt(cc) && nd.Kind.String() == "SwitchCaseBody" {
						if entry < 0 || nd.ID < entry {
							entry = nd.ID
						}
					}
				}
				if entry < 0 {
					c.check("share.excluded-on-accumulation", name, cc.Pos(), false, "case body not found in the control-flow graph")
					continue
				}
				inCase := func(id int) bool {
					p := g.pos(id)
					return cc.Pos() <= p && p <= cc.End()
				}
				// can control leave the case without passing unshare / a delegate?
				leak := ""
				if !passes(entry) {
					r := g.reach([]int{entry}, func(id int) bool { return passes(id) }, nil)
					for id := range r {
						if passes(id) {
							continue
						}
						if id == g.Exit || !inCase(id) {
							leak = "a path leaves the case without n.unshare()"
						}
						// an explicit return inside the case
						if _, isRet := g.Nodes[id].N.(*ast.ReturnStmt); isRet && inCase(id) {
							leak = "a return at " + c.pos(g.pos(id)) + " is reached without n.unshare()"
						}
					}
				}
				c.check("share.excluded-on-accumulation", name, cc.Pos(), leak == "",
					"a conjunct of this kind constrains the node, so structure sharing must be excluded (n.unshare(), or delegation to a dispatcher that decides) on every path through the case; otherwise `ref & <this>` ignores <this> when the reference arrives first: "+leak)
			}
			return true
		})
	}
	c.check("share.dispatcher-cases", adtP, 0, nCases >= 18, fmt.Sprintf("expected the two conjunct dispatchers to have at least 18 cases (found %d)", nCases))

	// (b) shareIfPossible guards
	sp := c.fn(adtP, "(*nodeContext).shareIfPossible")
	g := c.graph(sp)
	si := sp.Info()
	shareCalls := setOf(keys(g.callNodes(adtP + ".(*nodeContext).share")))
	fieldTrue := func(name string) atomMatcher {
		return func(e ast.Expr) (bool, bool) {
			if sel, ok := e.(*ast.SelectorExpr); ok && sel.Sel.Name == name {
				if t := si.TypeOf(sel); t != nil {
					if b, ok := t.Underlying().(*types.Basic); ok && b.Info()&types.IsBoolean != 0 {
						return true, true
					}
				}
			}
			return false, false
		}
	}
	for _, fld := range []string{"noSharing", "isShared"} {
		r := g.gate(fieldTrue(fld), shareCalls, nil, g.Entry)
		c.check("share.guarded", sp.Name+"/"+fld, sp.Decl.Pos(), len(shareCalls) > 0 && r.found && !r.leak && !r.bypass,
			"share() may be reached only when n."+fld+" is false (a node that already received a non-reference conjunct, or is already shared, must not be aliased)")
	}
	arcs := func(e ast.Expr) (bool, bool) {
		be, ok := e.(*ast.BinaryExpr)
		if !ok {
			return false, false
		}
		if call, ok := ast.Unparen(be.X).(*ast.CallExpr); ok && calleeName(si, call) == "len" && strings.HasSuffix(exprString(call.Args[0]), ".Arcs") {
			switch be.Op.String() {
			case ">", "!=":
				return true, true
			case "==":
				return true, false
			}
		}
		return false, false
	}
	r := g.gate(arcs, shareCalls, nil, g.Entry)
	c.check("share.guarded", sp.Name+"/no-arcs", sp.Decl.Pos(), r.found && !r.leak && !r.bypass,
		"share() may be reached only for a node without arcs (fields already inserted by an earlier conjunct would be lost behind the alias)")
	errsNil := func(e ast.Expr) (bool, bool) {
		be, ok := e.(*ast.BinaryExpr)
		if !ok || (be.Op.String() != "!=" && be.Op.String() != "==") || !isNilIdent(be.Y) {
			return false, false
		}
		if sel, ok := ast.Unparen(be.X).(*ast.SelectorExpr); ok && sel.Sel.Name == "errs" {
			return true, be.Op.String() == "!="
		}
		return false, false
	}
	r = g.gate(errsNil, shareCalls, nil, g.Entry)
	c.check("share.guarded", sp.Name+"/no-errors", sp.Decl.Pos(), r.found && !r.leak && !r.bypass, "share() may be reached only when the context holds no error")
	// unshare sets noSharing
	us := c.fn(adtP, "(*nodeContext).unshare")
	sets := false
	gu := c.graph(us)
	for _, id := range gu.find(func(n ast.Node) bool {
		as, ok := n.(*ast.AssignStmt)
		if !ok || len(as.Lhs) != 1 {
			return false
		}
		sel, ok := ast.Unparen(as.Lhs[0]).(*ast.SelectorExpr)
		return ok && sel.Sel.Name == "noSharing"
	}) {
		if gu.mustPassNode(gu.Exit, map[int]bool{id: true}) {
			sets = true
		}
	}
	c.check("share.unshare-is-sticky", us.Name, us.Decl.Pos(), sets, "unshare() must set n.noSharing on every path (later references must not re-alias the node)")

	// (c) iteration order
	n := c.checkMapOrder("order.map-iteration", []string{adtP, "internal/core/compile", "cue/build", "cue/load"}, c01MapExceptions)
	c.note("%d map iterations classified", n)
}

var c01MapExceptions = map[string]string{}

// c01ScalarMerge: the order in which two concrete scalars of one field arrive
// must not matter. In nodeContext.insertValueConjunct the first scalar is
// recorded; a later one is *compared* with it (conflict error when different)
// and never silently replaces it — except through the explicit layer priority
// (a strictly higher priority wins, a strictly lower one is ignored), which is
// itself symmetric.
func c01ScalarMerge(c *Ctx) {
	f := c.fn(adtP, "(*nodeContext).insertValueConjunct")
	cf := newCaseFn(c, f)
	const (
		none = "nil == recv.scalar"
		z1   = "0 == recv.scalarID.Priority"
		z2   = "0 == p2.Priority"
		gt   = "p2.Priority < recv.scalarID.Priority" // p1 > p2
		lt   = "recv.scalarID.Priority < p2.Priority" // p1 < p2
	)
	start := cf.condNode(none)
	assign, cmp := -1, -1
	for _, n := range cf.g.Nodes {
		if as, ok := n.N.(*ast.AssignStmt); ok && len(as.Lhs) == 1 && exprString(as.Lhs[0]) == "n.scalar" {
			assign = n.ID
		}
		for _, e := range n.Succs {
			if e.Cond != nil && strings.Contains(exprString(e.Cond), "BinOpBool(ctx, errOnDiffType, EqualOp") {
				cmp = n.ID
			}
		}
	}
	missing := cf.missingAtoms(map[string]bool{none: true, z1: true, z2: true, gt: true, lt: true})
	if start < 0 || assign < 0 || cmp < 0 || len(missing) > 0 {
		c.check("scalar.second-value-compared-not-replaced", f.Name, f.Decl.Pos(), false,
			fmt.Sprintf("anchor: the scalar case of insertValueConjunct no longer has the shape first-recorded / later-compared / priority (start=%v assign=%v compare=%v missing tests=%v)", start >= 0, assign >= 0, cmp >= 0, missing))
		return
	}
	// stop at the bound re-simplification that follows the type switch
	stop := map[int]bool{}
	for _, n := range cf.g.Nodes {
		for _, e := range n.Succs {
			if e.Cond != nil && strings.Contains(exprString(e.Cond), "n.lowerBound != nil") {
				stop[n.ID] = true
			}
		}
	}
	for _, row := range []struct {
		name            string
		truth           map[string]bool
		recorded, compd bool
	}{
		{"first-scalar", map[string]bool{none: true}, true, false},
		{"second/no-priorities", map[string]bool{none: false, z1: true, z2: true}, false, true},
		{"second/one-priority", map[string]bool{none: false, z1: false, z2: true}, false, true},
		{"second/equal-priorities", map[string]bool{none: false, z1: false, z2: false, gt: false, lt: false}, false, true},
		{"second/lower-priority", map[string]bool{none: false, z1: false, z2: false, gt: true, lt: false}, false, false},
		{"second/higher-priority", map[string]bool{none: false, z1: false, z2: false, gt: false, lt: true}, true, false},
	} {
		_, vis := cf.walkBlocked(start, row.truth, stop)
		c.check("scalar.second-value-compared-not-replaced", f.Name+"/"+row.name, f.Decl.Pos(), vis[assign] == row.recorded && vis[cmp] == row.compd,
			fmt.Sprintf("scalar merge, class %s: recorded as the field's scalar=%v (want %v), compared for equality with the recorded one=%v (want %v) — a later scalar of the same priority must be compared, never silently replace the earlier one, or the result depends on conjunct order", row.name, vis[assign], row.recorded, vis[cmp], row.compd))
	}
}

// c01TopIsNeutral: `x & _` must evaluate to `x`, however the `_` is written
// (an operand, a second declaration, an embedding). In insertValueConjunct the
// `*Top` arm may therefore record only that a top was seen (hasTop, the typo
// checker's conjunct info); any other node state it changes — directly or
// through the nodeContext methods it calls — is state a program without the
// `_` does not have. (The arm used to call updateCyclicStatus, which counts
// the `_` as non-cyclic content and releases the held-back cyclic conjuncts:
// `#B: ref: (null | #B) & _` expanded one level further than
// `#A: ref: null | #A`.)
func c01TopIsNeutral(c *Ctx) {
	const rule = "top.conjunct-is-neutral"
	f := c.fn(adtP, "(*nodeContext).insertValueConjunct")
	info := f.Info()
	var arm *ast.CaseClause
	ast.Inspect(f.Body, func(x ast.Node) bool {
		cc, ok := x.(*ast.CaseClause)
		if !ok {
			return true
		}
		for _, e := range cc.List {
			if exprString(e) == "*Top" {
				arm = cc
			}
		}
		return true
	})
	if arm == nil {
		c.broken("anchor: insertValueConjunct has no `case *Top` arm")
	}
	allowed := map[string]bool{"hasTop": true, "conjunctInfo": true,
		"ctx": true, // n.ctx.stats.* counters: statistics on the shared context, not node state
	}
	// fields of nodeContext written through the receiver in a method body
	recvType := func(fn *Fn) types.Object {
		if fn.Decl == nil || fn.Decl.Recv == nil || len(fn.Decl.Recv.List) != 1 || len(fn.Decl.Recv.List[0].Names) != 1 {
			return nil
		}
		return fn.Info().Defs[fn.Decl.Recv.List[0].Names[0]]
	}
	var written func(fn *Fn, recv types.Object, depth int, seen map[string]bool) map[string]string
	written = func(fn *Fn, recv types.Object, depth int, seen map[string]bool) map[string]string {
		out := map[string]string{}
		if fn == nil || recv == nil || seen[fn.Name] {
			return out
		}
		seen[fn.Name] = true
		finfo := fn.Info()
		fieldOf := func(e ast.Expr) string {
			for {
				switch x := ast.Unparen(e).(type) {
				case *ast.IndexExpr:
					e = x.X
				case *ast.SelectorExpr:
					if identObj(finfo, x.X) == recv {
						return x.Sel.Name
					}
					e = x.X
				default:
					return ""
				}
			}
		}
		ast.Inspect(fn.Body, func(x ast.Node) bool {
			switch s := x.(type) {
			case *ast.AssignStmt:
				for _, l := range s.Lhs {
					if fld := fieldOf(l); fld != "" {
						out[fld] = fn.Name
					}
				}
			case *ast.IncDecStmt:
				if fld := fieldOf(s.X); fld != "" {
					out[fld] = fn.Name
				}
			case *ast.CallExpr:
				if depth > 0 {
					if sel, ok := ast.Unparen(s.Fun).(*ast.SelectorExpr); ok && identObj(finfo, sel.X) == recv {
						if callee := c.fnOpt(adtP, "(*nodeContext)."+sel.Sel.Name); callee != nil {
							for k, v := range written(callee, recvType(callee), depth-1, seen) {
								out[k] = v
							}
						}
					}
				}
			}
			return true
		})
		return out
	}
	// the arm itself: direct writes and calls through n
	var recv types.Object
	if f.Decl.Recv != nil && len(f.Decl.Recv.List[0].Names) == 1 {
		recv = info.Defs[f.Decl.Recv.List[0].Names[0]]
	}
	got := map[string]string{}
	for _, st := range arm.Body {
		ast.Inspect(st, func(x ast.Node) bool {
			switch s := x.(type) {
			case *ast.AssignStmt:
				for _, l := range s.Lhs {
					if sel, ok := ast.Unparen(l).(*ast.SelectorExpr); ok && identObj(info, sel.X) == recv {
						got[sel.Sel.Name] = "the arm"
					}
				}
			case *ast.CallExpr:
				if sel, ok := ast.Unparen(s.Fun).(*ast.SelectorExpr); ok && identObj(info, sel.X) == recv {
					callee := c.fnOpt(adtP, "(*nodeContext)."+sel.Sel.Name)
					if callee == nil {
						got["?"+sel.Sel.Name] = "unresolved call"
						return true
					}
					for k, v := range written(callee, recvType(callee), 2, map[string]bool{}) {
						got[k] = v
					}
				}
			}
			return true
		})
	}
	var bad []string
	for fld, via := range got {
		if !allowed[fld] {
			bad = append(bad, fld+" (via "+strings.TrimPrefix(via, adtP+".")+")")
		}
	}
	sort.Strings(bad)
	c.check(rule, f.Name+"/case *Top", arm.Pos(), len(bad) == 0 && len(got) > 0,
		"the `*Top` arm of insertValueConjunct may change no node state other than hasTop and the typo checker's conjunctInfo: `x & _` must leave exactly the state `x` leaves; also written: "+strings.Join(bad, ", "))
}

// c01PendingLookupRetries: in attemptOnly mode (*Vertex).lookup may hand back
// an arc that is still pending, because its container has work in flight that
// may yet produce the field. The caller sees "no value, no error"; what makes
// it come back later is c.lookupPendingParent, which processResolver turns
// into a retry of the task. A pending-arc return that does not set the flag
// lets the task finish successfully with nothing inserted: the conjunct is
// silently dropped, and whether that happens depends on which declaration the
// scheduler reaches first. Every return of the pending arc in attemptOnly mode
// must therefore set the flag first (the `ignore` mode return is the
// documented optimistic exception).
func c01PendingLookupRetries(c *Ctx) {
	const rule = "lookup.pending-return-requests-retry"
	f := c.fn(adtP, "(*Vertex).lookup")
	info := f.Info()
	var pend *ast.IfStmt
	ast.Inspect(f.Body, func(x ast.Node) bool {
		is, ok := x.(*ast.IfStmt)
		if ok && pend == nil && strings.Contains(exprString(is.Cond), "ArcType == ArcPending") {
			pend = is
		}
		return true
	})
	if pend == nil {
		c.broken("anchor: (*Vertex).lookup no longer tests arc.ArcType == ArcPending")
	}
	n := 0
	var visit func(list []ast.Stmt, guards []string)
	visit = func(list []ast.Stmt, guards []string) {
		flagSet := false
		for _, st := range list {
			switch s := st.(type) {
			case *ast.AssignStmt:
				if len(s.Lhs) == 1 && strings.HasSuffix(exprString(s.Lhs[0]), ".lookupPendingParent") && exprString(s.Rhs[0]) == "true" {
					flagSet = true
				}
			case *ast.ReturnStmt:
				ignoreMode := false
				for _, gd := range guards {
					if strings.Contains(gd, "runMode == ignore") {
						ignoreMode = true
					}
				}
				if ignoreMode {
					continue
				}
				n++
				guard := "unconditional"
				if len(guards) > 0 {
					guard = guards[len(guards)-1]
				}
				c.check(rule, f.Name+"/return["+guard+"]", s.Pos(), flagSet,
					"in attemptOnly mode the pending arc is returned without setting c.lookupPendingParent: the resolving task is not retried, it completes with nothing inserted and the conjunct is lost (which returns are reached depends on the order in which the scheduler meets the declarations)")
			case *ast.IfStmt:
				visit(s.Body.List, append(append([]string{}, guards...), exprString(s.Cond)))
				if blk, ok := s.Else.(*ast.BlockStmt); ok {
					visit(blk.List, append(append([]string{}, guards...), "!("+exprString(s.Cond)+")"))
				}
			case *ast.BlockStmt:
				visit(s.List, guards)
			}
		}
	}
	_ = info
	visit(pend.Body.List, nil)
	c.expect(rule, 3)
}
