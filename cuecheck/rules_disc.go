package main

import "fmt"

func init() {
	register(&propCheck{id: "DISC", pkgs: []string{"cue/ast", "cue/ast/astutil", "cue/format", "internal/pretty", "cue/parser",
		"internal/core/adt", "internal/core/compile", "internal/core/export", "internal/core/toposort", "internal/core/walk", "internal/core/dep",
		"internal/core/subsume", "tools/trim", "internal/encoding/yaml", "internal/encoding/yaml/goccy", "encoding/toml", "cue"}, run: func(c *Ctx) {
		astPkgs := []string{"cue/ast", "cue/ast/astutil", "cue/format", "internal/pretty", "cue/parser", "internal/core/compile", "internal/encoding/yaml", "internal/encoding/yaml/goccy", "encoding/toml"}
		for _, i := range []string{"cue/ast.Node", "cue/ast.Expr", "cue/ast.Decl", "cue/ast.Clause", "cue/ast.Label"} {
			for _, l := range c.discoverDispatchers(astPkgs, i, "cue/ast") {
				fmt.Println(l)
			}
		}
		adtPkgs := []string{"internal/core/adt", "internal/core/compile", "internal/core/export", "internal/core/toposort", "internal/core/walk", "internal/core/dep", "internal/core/subsume", "tools/trim", "cue"}
		for _, i := range []string{"internal/core/adt.Node", "internal/core/adt.Expr", "internal/core/adt.Decl", "internal/core/adt.Elem", "internal/core/adt.Value", "internal/core/adt.BaseValue", "internal/core/adt.Yielder", "internal/core/adt.Resolver", "internal/core/adt.Evaluator"} {
			for _, l := range c.discoverDispatchers(adtPkgs, i, "internal/core/adt") {
				fmt.Println(l)
			}
		}
		c.check("disc", "x", 0, true, "")
	}})
}
