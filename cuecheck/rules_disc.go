package main

import (
	"fmt"
	"go/ast"
	"go/types"
	"os"
	"sort"
	"strings"
)

func init() {
	register(&propCheck{id: "DISC", pkgs: []string{"cue/ast", "cue/ast/astutil", "cue/format", "internal/pretty", "cue/parser",
		"internal/core/adt", "internal/core/compile", "internal/core/export", "internal/core/toposort", "internal/core/walk", "internal/core/dep",
		"internal/core/subsume", "tools/trim", "internal/encoding/yaml", "internal/encoding/yaml/goccy", "encoding/toml", "cue"}, run: func(c *Ctx) {
		astPkgs := []string{"cue/ast", "cue/ast/astutil", "cue/format", "internal/pretty", "cue/parser", "internal/core/compile", "internal/encoding/yaml", "internal/encoding/yaml/goccy", "encoding/toml"}
		for _, i := range []string{"cue/ast.Node", "cue/ast.Expr", "cue/ast.Decl", "cue/ast.Clause", "cue/ast.Label"} {
			for _, l := range c.discoverDispatchers(astPkgs, i, "cue/ast") {
				fmt.Println(l)
			}
		}
		adtPkgs := []string{"internal/core/adt", "internal/core/compile", "internal/core/export", "internal/core/toposort", "internal/core/walk", "internal/core/dep", "internal/core/subsume", "tools/trim", "cue"}
		for _, i := range []string{"internal/core/adt.Node", "internal/core/adt.Expr", "internal/core/adt.Decl", "internal/core/adt.Elem", "internal/core/adt.Value", "internal/core/adt.BaseValue", "internal/core/adt.Yielder", "internal/core/adt.Resolver", "internal/core/adt.Evaluator"} {
			for _, l := range c.discoverDispatchers(adtPkgs, i, "internal/core/adt") {
				fmt.Println(l)
			}
		}
		if os.Getenv("DISC_COPIES") != "" {
			discFieldCopies(c)
		}
		c.check("disc", "x", 0, true, "")
	}})
	register(&propCheck{id: "DISCALL", pkgs: []string{"cmd/cue/cmd"}, run: func(c *Ctx) {
		discFieldCopies(c)
		c.check("disc", "x", 0, true, "")
	}})
}

// discFieldCopies lists composite literals that copy two or more fields from
// the same-named fields of one value of the same struct type, with the fields
// they leave out (discovery aid; armed instances live in the per-property rules).
func discFieldCopies(c *Ctx) {
	var paths []string
	for path := range c.Pkgs {
		if strings.HasPrefix(path, "cuelang.org/go") {
			paths = append(paths, path)
		}
	}
	sort.Strings(paths)
	for _, path := range paths {
		p := c.Pkgs[path]
		if len(p.Syntax) == 0 {
			continue
		}
		for _, f := range c.funcs(p) {
			info := f.Info()
			ast.Inspect(f.Body, func(x ast.Node) bool {
				cl, ok := x.(*ast.CompositeLit)
				if !ok {
					return true
				}
				t := info.TypeOf(cl)
				if t == nil {
					return true
				}
				named, ok := types.Unalias(t).(*types.Named)
				if !ok {
					return true
				}
				st, ok := named.Underlying().(*types.Struct)
				if !ok {
					return true
				}
				set := map[string]bool{}
				srcs := map[string]int{}
				for _, e := range cl.Elts {
					kv, ok := e.(*ast.KeyValueExpr)
					if !ok {
						continue
					}
					name := exprString(kv.Key)
					set[name] = true
					if sel, ok := ast.Unparen(kv.Value).(*ast.SelectorExpr); ok && sel.Sel.Name == name {
						tv := info.TypeOf(sel.X)
						if tv == nil {
							continue
						}
						if pt, ok := tv.Underlying().(*types.Pointer); ok {
							tv = pt.Elem()
						}
						if nn, ok := types.Unalias(tv).(*types.Named); ok && nn.Obj() == named.Obj() {
							srcs[exprString(sel.X)]++
						}
					}
				}
				for s, cnt := range srcs {
					if cnt < 2 {
						continue
					}
					var missing []string
					for i := 0; i < st.NumFields(); i++ {
						if !set[st.Field(i).Name()] {
							missing = append(missing, st.Field(i).Name())
						}
					}
					fmt.Printf("COPY %s %s{} from %s copied=%d/%d missing=%v at %s\n", f.Name, named.Obj().Name(), s, cnt, st.NumFields(), missing, c.pos(cl.Pos()))
				}
				return true
			})
		}
	}
}
