package main

import (
	"bytes"
	"encoding/json"
	"fmt"
	"go/ast"
	"go/token"
	"go/types"
	"os"
	"path/filepath"
	"sort"
	"strings"
	"time"

	"golang.org/x/tools/go/packages"
)

type Ctx struct {
	Prop, Tier  string
	Repo, Verif string
	Verbose     bool
	MutantID    string
	replayKey   string
	start       time.Time

	Fset   *token.FileSet
	Pkgs   map[string]*packages.Package // by import path, whole closure
	rootPkgs []string
	nPkgs  int
	overlay map[string][]byte

	Obls         []Obligation
	minInstances map[string]int
	known        map[string]knownFinding
	analysed     map[string]bool
	Notes        []string
	SelfTest     []selfTestResult

	fnCache map[string]*Fn
	declIdx map[*types.Func]*Fn
	descentMemo map[string]map[*types.Func]bool // all function declarations of loaded repo packages

}

// note records a free-text remark in the evidence.
func (c *Ctx) note(format string, args ...any) {
	c.Notes = append(c.Notes, fmt.Sprintf(format, args...))
}

func (c *Ctx) load(patterns []string) {
	os.Unsetenv("GOWORK")
	env := append(os.Environ(),
		"GOFLAGS=-mod=mod", "GOPROXY=off", "GOSUMDB=off", "GOTOOLCHAIN=local",
		"GOOS=linux", "GOARCH=amd64", "CGO_ENABLED=0", "GOWORK=off")
	if _, err := os.Stat("/opt/veriftools/go1.26.8/bin/go"); err == nil {
		// go/packages resolves the "go" executable through this process's
		// PATH; the system go (1.23) cannot parse the repository's go.mod.
		os.Setenv("PATH", "/opt/veriftools/go1.26.8/bin:"+os.Getenv("PATH"))
		env = append(env, "PATH="+os.Getenv("PATH"))
	}
	c.Fset = token.NewFileSet()
	cfg := &packages.Config{
		Mode: packages.NeedName | packages.NeedFiles | packages.NeedCompiledGoFiles |
			packages.NeedImports | packages.NeedDeps | packages.NeedTypes |
			packages.NeedSyntax | packages.NeedTypesInfo | packages.NeedTypesSizes | packages.NeedModule,
		Dir:     c.Repo,
		Env:     env,
		Fset:    c.Fset,
		Tests:   false,
		Overlay: c.overlay,
	}
	var pats []string
	for _, p := range patterns {
		if p == "./..." {
			pats = append(pats, p)
		} else {
			pats = append(pats, modPrefix+p)
		}
	}
	pkgs, err := packages.Load(cfg, pats...)
	if err != nil {
		c.broken("packages.Load: %v", err)
	}
	if len(pkgs) == 0 {
		c.broken("no packages loaded for %v", pats)
	}
	c.Pkgs = map[string]*packages.Package{}
	packages.Visit(pkgs, nil, func(p *packages.Package) {
		c.Pkgs[p.PkgPath] = p
		if strings.HasPrefix(p.PkgPath, modPrefix) || p.PkgPath == "cuelang.org/go" {
			for _, e := range p.Errors {
				c.broken("package %s does not type-check: %v", p.PkgPath, e)
			}
			if p.Types == nil || p.TypesInfo == nil || (len(p.Syntax) == 0 && len(p.GoFiles) > 0) {
				c.broken("package %s loaded without syntax/types", p.PkgPath)
			}
		}
	})
	for _, p := range pkgs {
		c.rootPkgs = append(c.rootPkgs, p.PkgPath)
	}
	sort.Strings(c.rootPkgs)
	c.nPkgs = len(c.Pkgs)
	c.analysed = map[string]bool{}
	c.minInstances = map[string]int{}
	c.fnCache = map[string]*Fn{}
}

// pkg returns the loaded package with the given path relative to the module.
func (c *Ctx) pkg(rel string) *packages.Package {
	p := c.Pkgs[modPrefix+rel]
	if p == nil {
		p = c.Pkgs[rel]
	}
	if p == nil {
		c.broken("anchor: package %s is not loaded (moved or removed?)", rel)
	}
	return p
}

func (c *Ctx) pkgOpt(rel string) *packages.Package {
	if p := c.Pkgs[modPrefix+rel]; p != nil {
		return p
	}
	return c.Pkgs[rel]
}

// repoPkgs returns all loaded packages of the repository module, sorted.
func (c *Ctx) repoPkgs() []*packages.Package {
	var out []*packages.Package
	for path, p := range c.Pkgs {
		if strings.HasPrefix(path, modPrefix) {
			out = append(out, p)
		}
	}
	sort.Slice(out, func(i, j int) bool { return out[i].PkgPath < out[j].PkgPath })
	return out
}

// A Fn is a function body under analysis: a declaration or a function literal.
type Fn struct {
	Pkg  *packages.Package
	Decl *ast.FuncDecl // enclosing declaration (also for literals)
	Lit  *ast.FuncLit  // non-nil for a literal
	Body *ast.BlockStmt
	Type *ast.FuncType
	Obj  *types.Func // of the declaration
	Name string      // "mod/modcache.(*Cache).Fetch" or "...Fetch$1"
	g    *Graph
}

func (f *Fn) Info() *types.Info { return f.Pkg.TypesInfo }

func (c *Ctx) pos(p token.Pos) string {
	if !p.IsValid() {
		return "-"
	}
	pp := c.Fset.Position(p)
	file := pp.Filename
	if rel, err := filepath.Rel(c.Repo, file); err == nil && !strings.HasPrefix(rel, "..") {
		file = rel
	}
	return fmt.Sprintf("%s:%d", file, pp.Line)
}

// declName renders "(*T).M", "T.M" or "F" for a declaration.
func declName(d *ast.FuncDecl) string {
	if d.Recv == nil || len(d.Recv.List) == 0 {
		return d.Name.Name
	}
	t := d.Recv.List[0].Type
	star := false
	if s, ok := t.(*ast.StarExpr); ok {
		star = true
		t = s.X
	}
	// strip type parameters
	switch x := t.(type) {
	case *ast.IndexExpr:
		t = x.X
	case *ast.IndexListExpr:
		t = x.X
	}
	name := "?"
	if id, ok := t.(*ast.Ident); ok {
		name = id.Name
	}
	if star {
		return "(*" + name + ")." + d.Name.Name
	}
	return name + "." + d.Name.Name
}

// funcs lists all function declarations with bodies of a package.
func (c *Ctx) funcs(p *packages.Package) []*Fn {
	var out []*Fn
	for _, f := range p.Syntax {
		for _, d := range f.Decls {
			fd, ok := d.(*ast.FuncDecl)
			if !ok || fd.Body == nil {
				continue
			}
			out = append(out, c.mkFn(p, fd))
		}
	}
	return out
}

func (c *Ctx) mkFn(p *packages.Package, fd *ast.FuncDecl) *Fn {
	rel := strings.TrimPrefix(p.PkgPath, modPrefix)
	name := rel + "." + declName(fd)
	if f := c.fnCache[name]; f != nil && f.Decl == fd {
		return f
	}
	obj, _ := p.TypesInfo.Defs[fd.Name].(*types.Func)
	f := &Fn{Pkg: p, Decl: fd, Body: fd.Body, Type: fd.Type, Obj: obj, Name: name}
	c.fnCache[name] = f
	return f
}

// fn resolves an anchored function; a missing anchor makes the check broken
// (exit 2), never silently passing.
func (c *Ctx) fn(pkgRel, name string) *Fn {
	f := c.fnOpt(pkgRel, name)
	if f == nil {
		c.broken("anchor: function %s.%s not found (renamed or removed?); the rule table needs updating", pkgRel, name)
	}
	return f
}

func (c *Ctx) fnOpt(pkgRel, name string) *Fn {
	p := c.pkg(pkgRel)
	for _, f := range p.Syntax {
		for _, d := range f.Decls {
			if fd, ok := d.(*ast.FuncDecl); ok && fd.Body != nil && declName(fd) == name {
				fn := c.mkFn(p, fd)
				c.analysed[fn.Name] = true
				return fn
			}
		}
	}
	return nil
}

// lits returns the function literals directly or indirectly nested in f, in source order.
func (c *Ctx) lits(f *Fn) []*Fn {
	var out []*Fn
	n := 0
	ast.Inspect(f.Body, func(x ast.Node) bool {
		if l, ok := x.(*ast.FuncLit); ok {
			n++
			out = append(out, &Fn{Pkg: f.Pkg, Decl: f.Decl, Lit: l, Body: l.Body, Type: l.Type, Obj: f.Obj,
				Name: fmt.Sprintf("%s$%d", f.Name, n)})
		}
		return true
	})
	return out
}

// litArgOf returns the function literal passed as an argument of the first call
// in f whose callee name matches; used to anchor closures semantically
// ("the closure handed to ErrCache.Do") rather than by position.
func (c *Ctx) litArgOf(f *Fn, callee string) *Fn {
	var out *Fn
	n := 0
	ast.Inspect(f.Body, func(x ast.Node) bool {
		if l, ok := x.(*ast.FuncLit); ok {
			_ = l
			n++
		}
		call, ok := x.(*ast.CallExpr)
		if !ok || out != nil {
			return true
		}
		if calleeName(f.Info(), call) != callee {
			return true
		}
		for _, a := range call.Args {
			if l, ok := ast.Unparen(a).(*ast.FuncLit); ok {
				out = &Fn{Pkg: f.Pkg, Decl: f.Decl, Lit: l, Body: l.Body, Type: l.Type, Obj: f.Obj,
					Name: fmt.Sprintf("%s$arg(%s)", f.Name, callee)}
				c.analysed[out.Name] = true
				return false
			}
		}
		return true
	})
	return out
}

// ---------------------------------------------------------------------------
// obligations

func (c *Ctx) check(rule, construct string, pos token.Pos, ok bool, detail string) bool {
	key := c.Prop + "." + rule + "@" + construct
	c.Obls = append(c.Obls, Obligation{Rule: c.Prop + "." + rule, Key: key, Pos: c.pos(pos), OK: ok, Detail: detail})
	return ok
}

// expect sets the minimum number of instances a rule must produce.
func (c *Ctx) expect(rule string, min int) {
	c.minInstances[c.Prop+"."+rule] = min
}

// ---------------------------------------------------------------------------
// mutants (self-test): in-memory source edits applied through packages.Overlay

type mutantDef struct {
	ID       string `json:"id"`
	Property string `json:"property"`
	What     string `json:"what"`
	File     string `json:"file"` // relative to the repo
	Find     string `json:"find"`
	Replace  string `json:"replace"`
	Nth      int    `json:"nth,omitempty"` // which occurrence (1-based); 0 = must be unique
	Expect   string `json:"expect"`        // substring of the violated key
	Benign   bool   `json:"benign,omitempty"` // a behaviour-preserving edit: the check must stay silent
	More     []struct {
		Find    string `json:"find"`
		Replace string `json:"replace"`
	} `json:"more,omitempty"` // further edits in the same file
}

func loadMutants(verif string) ([]mutantDef, error) {
	var all []mutantDef
	files, _ := filepath.Glob(filepath.Join(verif, "mutants", "*.json"))
	sort.Strings(files)
	for _, f := range files {
		b, err := os.ReadFile(f)
		if err != nil {
			return nil, err
		}
		var ms []mutantDef
		if err := json.Unmarshal(b, &ms); err != nil {
			return nil, fmt.Errorf("%s: %v", f, err)
		}
		all = append(all, ms...)
	}
	seen := map[string]bool{}
	for _, m := range all {
		if seen[m.ID] {
			return nil, fmt.Errorf("duplicate mutant id %s", m.ID)
		}
		seen[m.ID] = true
	}
	return all, nil
}

// mutantSource returns the edited file content, or an error if the edit is stale.
func mutantSource(repo string, m mutantDef) (string, []byte, error) {
	path := filepath.Join(repo, m.File)
	src, err := os.ReadFile(path)
	if err != nil {
		return path, nil, err
	}
	n := bytes.Count(src, []byte(m.Find))
	if n == 0 {
		return path, nil, fmt.Errorf("stale: text to replace not found")
	}
	if m.Nth == 0 && n != 1 {
		return path, nil, fmt.Errorf("stale: text to replace occurs %d times, want 1", n)
	}
	nth := m.Nth
	if nth == 0 {
		nth = 1
	}
	idx := -1
	off := 0
	for i := 0; i < nth; i++ {
		j := bytes.Index(src[off:], []byte(m.Find))
		if j < 0 {
			return path, nil, fmt.Errorf("stale: occurrence %d not found", nth)
		}
		idx = off + j
		off = idx + len(m.Find)
	}
	out := append([]byte{}, src[:idx]...)
	out = append(out, m.Replace...)
	out = append(out, src[idx+len(m.Find):]...)
	for _, e := range m.More {
		if bytes.Count(out, []byte(e.Find)) != 1 {
			return path, nil, fmt.Errorf("stale: additional edit does not apply exactly once")
		}
		out = bytes.Replace(out, []byte(e.Find), []byte(e.Replace), 1)
	}
	return path, out, nil
}

func (c *Ctx) applyMutant(id string) {
	ms, err := loadMutants(c.Verif)
	if err != nil {
		c.broken("mutants: %v", err)
	}
	for _, m := range ms {
		if m.ID == id {
			path, src, err := mutantSource(c.Repo, m)
			if err != nil {
				c.broken("mutant %s: %v", id, err)
			}
			c.overlay = map[string][]byte{path: src}
			return
		}
	}
	c.broken("mutant %s not found", id)
}
