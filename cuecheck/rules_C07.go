package main

import (
	"fmt"
	"go/ast"
	"go/constant"
	"go/token"
	"go/types"
	"sort"
	"strings"
)

func init() {
	register(&propCheck{
		id:   "C07",
		pkgs: []string{"internal/core/export", "internal/core/adt", "cue"},
		run:  checkC07,
		about: "C07 (printed CUE re-evaluates to the same value): decides (a) every dispatcher of the exporter covers every implementor of the adt interface it switches on; (b) no dropped subtree — in each exporter case every child/payload field of the adt node handled is used onward (emitted), and the value exporter consults the vertex's arcs, pattern constraints, closedness flags and arc types; " +
			"(c) the operator table adt.tokenMap is injective (opMap is built from it by map iteration, so a duplicate Op would make the printed operator depend on iteration order) and has an entry for every binary/unary Op; " +
			"(d) every field of export.Profile that cue.Value.Syntax sets is read by the exporter and vice versa; (e) structural guards that keep meaning: a lower bound is dropped in favour of `uint` only when it is `>=0`, and the struct-less shortcuts of mergeValues are taken only when no `...` has to be kept. " +
			"It does not decide that the produced expression means the same (parenthesisation, let hoisting, reference relinking).",
		trust: []string{"semantic equivalence of the emitted expression is value-level"},
	})
}

const expP = "internal/core/export"

func checkC07(c *Ctx) {
	c07HoistedNames(c)
	c07PivotPassOrder(c)
	c07MergeAndFinalize(c)
	c.checkCounterBalance("counters.inc-dec-balanced", "internal/core/export", map[string]string{
		// reviewed: a structural leak, but no failing input was found
		"internal/core/export.(*exporter).structComposite#inDefinition1": "(reviewed exception: the two `continue`s between ++ and -- — missing arc, optional field not shown — do leave inDefinition raised for the rest of the export; it is read only by pivotter.refExpr to decide whether a referenced closed value must be hoisted as a definition, and differential runs of `cue eval/def -e` with and without the counter repaired on hidden optional definitions followed by references to closed values produced identical output, so it is not claimed as a defect)",
	})
	markers := map[string]string{
		"ListMarker":   "BaseValue marker; printed from the vertex (structComposite/listComposite), never reaches this switch as an element",
		"StructMarker": "BaseValue marker; printed from the vertex, never reaches this switch as an element",
	}
	structInfo := map[string]string{"StructInfo": "bookkeeping wrapper kept in Vertex.Structs; never an element of a conjunct"}
	param := map[string]string{"Param": "builtin parameter descriptor; never a Vertex.BaseValue"}
	let := map[string]string{"LetClause": "Yielder; let declarations in structs are *LetField (handled)"}
	byElem := map[string]string{
		"Comprehension": "dispatched by exporter.elem / exporter.decl before exporter.adt is reached",
		"Ellipsis":      "dispatched by exporter.elem / exporter.decl before exporter.adt is reached",
	}
	disp := []dispatcher{
		{pkg: expP, fn: "(*exporter).adt", iface: adtP + ".Elem", implPkg: adtP, except: merge(markers, structInfo, byElem)},
		{pkg: expP, fn: "(*exporter).elem", iface: adtP + ".Elem", implPkg: adtP},
		{pkg: expP, fn: "(*exporter).decl", iface: adtP + ".Decl", implPkg: adtP, except: let},
		{pkg: expP, fn: "(*exporter).comprehension", iface: adtP + ".Yielder", implPkg: adtP},
		{pkg: expP, fn: "(*exporter).value", iface: adtP + ".Value", implPkg: adtP},
		{pkg: expP, fn: "(*exporter).bareValue", iface: adtP + ".Value", implPkg: adtP},
		{pkg: expP, fn: "(*exporter).vertex", iface: adtP + ".BaseValue", implPkg: adtP, except: param},
		{pkg: expP, fn: "(*exporter).structComposite", iface: adtP + ".BaseValue", implPkg: adtP, except: param},
		{pkg: expP, fn: "(*exporter).resolve", iface: adtP + ".Resolver", implPkg: adtP, except: map[string]string{
			"NodeLink": "created only during evaluation to link to an existing vertex; never part of a compiled expression that is exported",
		}},
	}
	for _, d := range disp {
		c.checkDispatcher("dispatch.total", d)
	}
	c.expect("dispatch.total", 150)

	// (b) case-level field coverage over adt nodes
	adtPayload := map[string][]string{
		"BinaryExpr": {"Op"}, "UnaryExpr": {"Op"}, "BoundExpr": {"Op"}, "BoundValue": {"Op"},
		"Field": {"Label", "ArcType"}, "LetField": {"Label"}, "BulkOptionalField": {}, "DynamicField": {"ArcType"},
		"SelectorExpr": {"Sel"}, "ImportReference": {"ImportPath"}, "FieldReference": {"Label"}, "LetReference": {"Label"},
		"BasicType": {"K"}, "String": {"Str"}, "Bytes": {"B"}, "Bool": {"B"}, "Num": {"X", "K"},
		"Disjunction": {"NumDefaults"}, "DisjunctionExpr": {},
	}
	exc := map[string]string{
		"Conjunction.Values":  "", // placeholder removed below if referenced
		"Comprehension.Comp":  "",
	}
	for k, v := range exc {
		if v == "" {
			delete(exc, k)
		}
	}
	n := 0
	for _, d := range disp {
		switch d.fn {
		case "(*exporter).adt", "(*exporter).elem", "(*exporter).decl", "(*exporter).comprehension", "(*exporter).resolve":
			// the expression side: children are Elems (expressions, declarations) and clauses
			n += c.checkCaseFieldCoverage("fields.case-covered", d, adtP+".Elem", adtPayload, c07FieldExceptions)
		}
	}
	c.note("exporter: %d case-field obligations", n)
	c.expect("fields.case-covered", 40)

	c07Vertex(c)
	c07TokenMap(c)
	c07Profile(c)
	c07Guards(c)
}

// reviewed fields an exporter case legitimately does not emit
var c07FieldExceptions = map[string]string{
	"SliceExpr.Stride":       "never set: the compiler does not implement slice strides (TODO in the exporter)",
	"ValueClause.arc":        "evaluation state of the clause, not syntax",
	"LetField.Label":         "let declarations are emitted from the frame's let bookkeeping (resolveLet / uniqueLetIdent), the Decl case returns nil on purpose",
	"LetField.Value":         "let declarations are emitted from the frame's let bookkeeping (resolveLet), the Decl case returns nil on purpose",
	"DynamicReference.Label": "a dynamic reference is printed as the alias of the dynamic field it refers to; the label expression is printed where the field is declared",
}

// c07Vertex: the value exporter consults everything the property promises.
func c07Vertex(c *Ctx) {
	bodies := c.pkgBodies(expP)
	used := fieldsUsed(bodies)
	vt := c.lookupType(adtP + ".Vertex")
	want := map[string]string{
		"Arcs":               "the fields of the value",
		"BaseValue":          "the scalar / composite marker",
		"ClosedNonRecursive": "closedness (close())",
		"Conjuncts":          "the conjuncts from which schema output (patterns, optional fields, `...`) is rebuilt",
		"ArcType":            "optional / required field markers",
		"Label":              "field names",
	}
	for _, fld := range structFields(vt) {
		why, ok := want[fld.Name()]
		if !ok {
			continue
		}
		delete(want, fld.Name())
		c.check("vertex.consulted", "Vertex."+fld.Name(), fld.Pos(), used[fld.Origin()],
			"the value exporter must consult Vertex."+fld.Name()+" ("+why+"): the property promises it in the output")
	}
	for name := range want {
		c.broken("anchor: adt.Vertex has no field %s", name)
	}
}

// c07TokenMap: injectivity and coverage of the operator table.
func c07TokenMap(c *Ctx) {
	p := c.pkg(adtP)
	var lit *ast.CompositeLit
	for _, f := range p.Syntax {
		ast.Inspect(f, func(n ast.Node) bool {
			vs, ok := n.(*ast.ValueSpec)
			if !ok {
				return true
			}
			for i, id := range vs.Names {
				if id.Name == "tokenMap" && i < len(vs.Values) {
					lit, _ = vs.Values[i].(*ast.CompositeLit)
				}
			}
			return true
		})
	}
	if lit == nil {
		c.broken("anchor: adt.tokenMap literal not found")
	}
	info := p.TypesInfo
	seenOp := map[string][]string{}
	for _, el := range lit.Elts {
		kv := el.(*ast.KeyValueExpr)
		op := ""
		if k, ok := identObj(info, kv.Value).(*types.Const); ok {
			op = k.Name()
		}
		seenOp[op] = append(seenOp[op], exprString(kv.Key))
	}
	var ops []string
	for op := range seenOp {
		ops = append(ops, op)
	}
	sort.Strings(ops)
	for _, op := range ops {
		c.check("tokenmap.injective", "adt."+op, lit.Pos(), len(seenOp[op]) == 1,
			fmt.Sprintf("Op %s must be the image of exactly one token in adt.tokenMap (opMap is derived by ranging over the map: with two tokens the printed operator would depend on map iteration order); tokens: %v", op, seenOp[op]))
	}
	c.expect("tokenmap.injective", 15)
	// every Op the exporter turns into a token (x.Op.Token()) has an entry:
	// all Op constants except the documented non-token ones
	opT := c.lookupType(adtP + ".Op")
	noToken := map[string]string{
		"NoOp": "zero value", "InterpolationOp": "printed as an interpolation, not via Token()", "CallOp": "printed as a call",
		"SelectorOp": "printed as a selector", "IndexOp": "printed as an index", "SliceOp": "printed as a slice",
		"SpreadOp": "no expression node carries it: list and struct ellipsis are *adt.Ellipsis nodes",
	}
	sc := p.Types.Scope()
	for _, name := range sc.Names() {
		k, ok := sc.Lookup(name).(*types.Const)
		if !ok || k.Type() != opT.Type() || k.Val().Kind() != constant.Int {
			continue
		}
		_, inMap := seenOp[name]
		why, exc := noToken[name]
		c.check("tokenmap.covers-op", "adt."+name, k.Pos(), inMap || (exc && why != ""),
			"every operator constant needs a token in adt.tokenMap (Op.Token() of an unmapped Op yields token.ILLEGAL in the printed expression) or a reviewed reason: "+why)
	}
}

// c07Profile: option wiring.
func c07Profile(c *Ctx) {
	pt := c.lookupType(expP + ".Profile")
	expBodies := c.pkgBodies(expP)
	// reads: selector uses in package export that are not assignment targets
	read := map[*types.Var]bool{}
	written := map[*types.Var]bool{}
	scan := func(bodies []*Fn, rd, wr map[*types.Var]bool) {
		for _, f := range bodies {
			info := f.Info()
			lhs := map[ast.Expr]bool{}
			ast.Inspect(f.Body, func(n ast.Node) bool {
				if as, ok := n.(*ast.AssignStmt); ok {
					for _, l := range as.Lhs {
						lhs[ast.Unparen(l)] = true
					}
				}
				return true
			})
			ast.Inspect(f.Body, func(n ast.Node) bool {
				switch x := n.(type) {
				case *ast.SelectorExpr:
					if s := info.Selections[x]; s != nil && s.Kind() == types.FieldVal {
						if v, ok := s.Obj().(*types.Var); ok {
							if lhs[x] {
								wr[v.Origin()] = true
							} else {
								rd[v.Origin()] = true
							}
						}
					}
				case *ast.KeyValueExpr:
					if id, ok := x.Key.(*ast.Ident); ok {
						if v, ok := info.Uses[id].(*types.Var); ok && v.IsField() {
							wr[v.Origin()] = true
						}
					}
				}
				return true
			})
		}
	}
	scan(expBodies, read, written)
	cueBodies := c.pkgBodies("cue")
	cueRead, cueWritten := map[*types.Var]bool{}, map[*types.Var]bool{}
	scan(cueBodies, cueRead, cueWritten)
	// package-level Profile literals in export (Simplified, Final, Raw, ...) count as settable
	for _, f := range c.pkg(expP).Syntax {
		ast.Inspect(f, func(n ast.Node) bool {
			if kv, ok := n.(*ast.KeyValueExpr); ok {
				if id, ok := kv.Key.(*ast.Ident); ok {
					if v, ok := c.pkg(expP).TypesInfo.Uses[id].(*types.Var); ok && v.IsField() {
						written[v.Origin()] = true
					}
				}
			}
			return true
		})
	}
	nset := 0
	for _, fld := range structFields(pt) {
		if !cueWritten[fld.Origin()] {
			continue // not driven by Value.Syntax options
		}
		nset++
		c.check("profile.wired", "Profile."+fld.Name(), fld.Pos(), read[fld.Origin()],
			"export.Profile."+fld.Name()+" is set from the options of cue.Value.Syntax; the exporter must consult it (a switch that is set but never read silently changes what the chosen options promise)")
	}
	if nset < 5 {
		c.broken("anchor: package cue sets only %d fields of export.Profile", nset)
	}
	_ = written
}

// c07Guards: structural guards that preserve meaning.
func c07Guards(c *Ctx) {
	// bounds: `s.min = nil` only behind `s.min.Op == GreaterEqualOp` (and sign == 0)
	f := c.fn(expP, "(*boundSimplifier).expr")
	g := c.graph(f)
	info := f.Info()
	drop := setOf(g.find(func(n ast.Node) bool {
		as, ok := n.(*ast.AssignStmt)
		if !ok || len(as.Lhs) != 1 || len(as.Rhs) != 1 || !isNilIdent(as.Rhs[0]) {
			return false
		}
		sel, ok := ast.Unparen(as.Lhs[0]).(*ast.SelectorExpr)
		return ok && (sel.Sel.Name == "min" || sel.Sel.Name == "max")
	}))
	if len(drop) > 0 {
		opIsGE := func(e ast.Expr) (bool, bool) {
			be, ok := e.(*ast.BinaryExpr)
			if !ok || (be.Op != token.EQL && be.Op != token.NEQ) {
				return false, false
			}
			sel, ok := ast.Unparen(be.X).(*ast.SelectorExpr)
			if !ok || sel.Sel.Name != "Op" {
				return false, false
			}
			var k *types.Const
			switch y := ast.Unparen(be.Y).(type) {
			case *ast.Ident:
				k, _ = info.Uses[y].(*types.Const)
			case *ast.SelectorExpr:
				k, _ = info.Uses[y.Sel].(*types.Const)
			}
			if k == nil || (k.Name() != "GreaterEqualOp" && k.Name() != "LessEqualOp") {
				return false, false
			}
			return true, be.Op == token.NEQ
		}
		r := g.gate(opIsGE, drop, nil, g.Entry)
		c.check("guards.bound-dropped-only-if-implied", f.Name, f.Body.Pos(), r.found && !r.leak && !r.bypass,
			fmt.Sprintf("a bound may be dropped in favour of `uint` only when it is the non-strict `>=0` that uint implies; dropping a strict `>0` changes the value (found=%v leak=%v bypass=%v)", r.found, r.leak, r.bypass))
	} else {
		c.check("guards.bound-dropped-only-if-implied", f.Name, f.Body.Pos(), true, "no bound is dropped any more")
	}

	// mergeValues: shortcut returns only when no ellipsis must be kept
	m := c.fn(expP, "(*exporter).mergeValues")
	gm := c.graph(m)
	mi := m.Info()
	// the shortcut block: `if len(e.fields) == 0 ... { switch len(e.embed)+len(e.conjuncts) {...} }`
	var block *ast.IfStmt
	ast.Inspect(m.Body, func(n ast.Node) bool {
		ifs, ok := n.(*ast.IfStmt)
		if ok && block == nil && strings.Contains(exprString(ifs.Cond), "len(e.fields) == 0") {
			block = ifs
		}
		return true
	})
	if block == nil {
		c.broken("anchor: mergeValues no longer has the `len(e.fields) == 0` shortcut block")
	}
	shortcuts := map[int]bool{}
	for _, r := range gm.returns() {
		if p := gm.pos(r); block.Body.Pos() <= p && p <= block.Body.End() {
			shortcuts[r] = true
		}
	}
	_ = mi
	hasEll := func(e ast.Expr) (bool, bool) {
		sel, ok := e.(*ast.SelectorExpr)
		if !ok || sel.Sel.Name != "hasEllipsis" {
			return false, false
		}
		return true, true
	}
	r := gm.gate(hasEll, shortcuts, nil, gm.Entry)
	c.check("guards.ellipsis-kept", m.Name, m.Body.Pos(), len(shortcuts) > 0 && r.found && !r.leak && !r.bypass,
		fmt.Sprintf("mergeValues may return a bare embedding/conjunct instead of a struct only when the struct has no `...` to keep (an open struct printed as its closed embedding rejects fields it accepted): %d shortcut returns, found=%v leak=%v bypass=%v", len(shortcuts), r.found, r.leak, r.bypass))
}

// c07MergeAndFinalize: two shape facts of the expression exporter.
// (1) When one label is declared several times in a struct literal that is
// printed without a vertex of its own, the printed field carries the most
// restrictive marker seen (regular < ! < ?): addConjunct may lower the recorded
// arc type, never raise it — the last declaration must not win.
// (2) finalize hoists out-of-scope references into `let` declarations
// (completePivot) *before* astutil.Sanitize computes the imports and resolves
// identifiers; hoisted bodies that Sanitize never saw keep unresolved package
// references.
func c07MergeAndFinalize(c *Ctx) {
	f := c.fn("internal/core/export", "(*conjuncts).addConjunct")
	cf := newCaseFn(c, f)
	var less string
	for k := range cf.atoms() {
		if strings.HasPrefix(k, "p1 < ") && strings.HasSuffix(k, ".arcType") {
			less = k
		}
	}
	assign := -1
	for _, n := range cf.g.Nodes {
		if as, ok := n.N.(*ast.AssignStmt); ok && len(as.Lhs) == 1 && strings.HasSuffix(exprString(as.Lhs[0]), ".arcType") && cf.canon(as.Rhs[0]) == "p1" {
			assign = n.ID
		}
	}
	ok := less != "" && assign >= 0
	det := fmt.Sprintf("test `t < x.arcType` found=%v, assignment found=%v", less != "", assign >= 0)
	if ok {
		_, visT := cf.walk(cf.g.Entry, map[string]bool{less: true})
		_, visF := cf.walk(cf.g.Entry, map[string]bool{less: false})
		ok = visT[assign] && !visF[assign]
		det = fmt.Sprintf("more restrictive marker recorded=%v, weaker or equal marker ignored=%v", visT[assign], !visF[assign])
	}
	c.check("merge.arc-type-keeps-most-restrictive", f.Name, f.Decl.Pos(), ok,
		"addConjunct must record the arc type of a further declaration of the same label only if it is more restrictive than the one recorded (`{a: 1, a?: int}` prints `a: ...`, not `a?: ...`): "+det)

	fin := c.fn("internal/core/export", "(*exporter).finalize")
	g := c.graph(fin)
	piv := g.callNodes("internal/core/export.(*exporter).completePivot")
	san := g.callNodes("cue/ast/astutil.Sanitize")
	okF := len(piv) > 0 && len(san) > 0
	for id := range san {
		if !g.mustPassNode(id, setOf(keys(piv))) {
			okF = false
		}
	}
	c.check("finalize.pivot-completed-before-sanitize", fin.Name, fin.Decl.Pos(), okF,
		"finalize must add the hoisted `let` declarations (completePivot) before astutil.Sanitize runs on the file: Sanitize inserts the import declarations and resolves identifiers only for what the file contains at that moment")
}

// c07HoistedNames: out-of-scope references are hoisted into `let NAME = ...`
// where NAME is derived from the label of the referenced field. Any string
// can be a label ("foo-bar"), and exporter.ident panics on a name that is not
// a valid identifier, so the derived name must be checked or sanitised
// (ast.IsValidIdent consulted) on every path before it becomes the base of the
// unique feature.
func c07HoistedNames(c *Ctx) {
	f := c.fn("internal/core/export", "(*pivotter).makeParentPath")
	g := c.graph(f)
	info := f.Info()
	uniq := g.callNodes("internal/core/export.(*exporter).uniqueFeature")
	var nameVar types.Object
	for _, call := range uniq {
		if len(call.Args) == 1 {
			nameVar = identObj(info, call.Args[0])
		}
	}
	// where the name is taken from the label text
	fromLabel := g.find(func(n ast.Node) bool {
		as, ok := n.(*ast.AssignStmt)
		if !ok || len(as.Lhs) != 1 || len(as.Rhs) != 1 || nameVar == nil || identObj(info, as.Lhs[0]) != nameVar {
			return false
		}
		call, ok := ast.Unparen(as.Rhs[0]).(*ast.CallExpr)
		return ok && strings.HasSuffix(calleeName(info, call), ".IdentString")
	})
	consults := func(n ast.Node) bool {
		found := false
		for _, call := range callsIn(n, false) {
			callee := calleeName(info, call)
			if callee == "cue/ast.IsValidIdent" {
				found = true
			}
			// one level of helper
			if strings.HasPrefix(callee, "internal/core/export.") {
				if h := c.fnOpt("internal/core/export", strings.TrimPrefix(callee, "internal/core/export.")); h != nil {
					ast.Inspect(h.Body, func(x ast.Node) bool {
						if hc, ok := x.(*ast.CallExpr); ok && calleeName(h.Info(), hc) == "cue/ast.IsValidIdent" {
							found = true
						}
						return true
					})
				}
			}
		}
		return found
	}
	checks := map[int]bool{}
	for _, n := range g.Nodes {
		if n.N != nil && consults(n.N) {
			checks[n.ID] = true
		}
		for _, e := range n.Succs {
			if e.Cond != nil && consults(e.Cond) {
				checks[n.ID] = true
			}
		}
	}
	ok := len(uniq) == 1 && nameVar != nil && len(fromLabel) > 0
	if ok {
		for _, a := range fromLabel {
			r := g.reach([]int{a}, func(id int) bool { return checks[id] }, nil)
			for u := range uniq {
				if r[u] {
					ok = false
				}
			}
		}
	}
	c.check("hoist.let-name-is-an-identifier", f.Name, f.Decl.Pos(), ok,
		"the name of a hoisted let is derived from a field label, which may be any string: between taking the label text (IdentString) and p.x.uniqueFeature(name) the name must be validated or sanitised with ast.IsValidIdent, or exporter.ident panics (`X=\"foo-bar\": {...}` referenced from the exported sub-value)")
}

// c07PivotPassOrder: pivotter.linkDependencies is a sequence of whole passes
// over the collected dependencies; each pass needs the previous one to be
// complete for *all* dependencies (parents linked before their closure is
// taken; every name used by any hoisted value reserved before the first let
// name is chosen — uniqueFeature only avoids names it has seen). Two passes
// fused into one loop give early dependencies a view in which the later ones
// do not exist yet.
func c07PivotPassOrder(c *Ctx) {
	const rule = "hoist.passes-complete-before-next"
	f := c.fn("internal/core/export", "(*pivotter).linkDependencies")
	info := f.Info()
	passes := []string{"markDeps", "markParentsPass1", "getParent", "markUsedFeatures", "makeParentPath"}
	type site struct {
		pos  token.Pos
		loop ast.Node
	}
	sites := map[string]site{}
	var stack []ast.Node
	ast.Inspect(f.Body, func(x ast.Node) bool {
		if x == nil {
			stack = stack[:len(stack)-1]
			return true
		}
		stack = append(stack, x)
		call, ok := x.(*ast.CallExpr)
		if !ok {
			return true
		}
		nm := calleeName(info, call)
		// a pass moved into a helper of the package counts at the helper's call site
		via := map[string]bool{}
		if strings.HasPrefix(nm, "internal/core/export.") {
			if h := c.fnOpt("internal/core/export", strings.TrimPrefix(nm, "internal/core/export.")); h != nil {
				ast.Inspect(h.Body, func(y ast.Node) bool {
					if hc, ok := y.(*ast.CallExpr); ok {
						hn := calleeName(h.Info(), hc)
						for _, p := range passes {
							if strings.HasSuffix(hn, "."+p) || strings.HasSuffix(hn, ")."+p) {
								via[p] = true
							}
						}
					}
					return true
				})
			}
		}
		for _, p := range passes {
			if strings.HasSuffix(nm, "."+p) || strings.HasSuffix(nm, ")."+p) || (via[p] && !strings.HasSuffix(nm, "."+p)) {
				if _, seen := sites[p]; seen {
					continue
				}
				var loop ast.Node
				for i := len(stack) - 1; i >= 0; i-- {
					switch stack[i].(type) {
					case *ast.RangeStmt, *ast.ForStmt:
						if loop == nil {
							loop = stack[i]
						}
					}
				}
				sites[p] = site{call.Pos(), loop}
			}
		}
		return true
	})
	for i := 0; i+1 < len(passes); i++ {
		a, okA := sites[passes[i]]
		b, okB := sites[passes[i+1]]
		if !okA || !okB {
			c.check(rule, f.Name+"/"+passes[i]+"<"+passes[i+1], f.Decl.Pos(), false, "anchor: linkDependencies no longer calls "+passes[i]+" and "+passes[i+1])
			continue
		}
		end := a.pos
		if a.loop != nil {
			end = a.loop.End()
		}
		ok := end <= b.pos && (a.loop == nil || a.loop != b.loop)
		c.check(rule, f.Name+"/"+passes[i]+"<"+passes[i+1], b.pos, ok,
			"the pass calling "+passes[i]+" must have completed for every dependency (its loop ended) before "+passes[i+1]+" is first called")
	}
}
