package main

import (
	"fmt"
	"go/ast"
	"go/constant"
	"go/token"
	"go/types"
	"sort"
	"strings"
)

func init() {
	register(&propCheck{
		id:   "C12",
		pkgs: []string{"internal/encoding", "cmd/cue/cmd", "internal/encoding/json"},
		run:  checkC12,
		about: "C12 (cue export / cue import are inverse across encodings): decides (a) the concreteness gate — in (*Encoder).Encode every path to e.encValue passes a successful v.Validate(cue.Concrete(e.concrete)) and every path to e.encFile a successful v.Validate() and interpretation ('an error rather than a silent change'); " +
			"(b) registry agreement — every data encoding case of NewEncoder sets e.concrete = true, every round-trip text encoding with an encoder case also has a decoder case, and both switches end in an 'unsupported' error default; " +
			"(c) no error of the encode/validate/close chain is dropped in the encoder and in cue export's run function (so failures reach the exit status); (d) the delayed-open writer creates the output with O_EXCL unless Force, only inside the close function (after the whole buffer exists), and returns write/close errors; " +
			"(e) the JSON importer's key-unquoting predicate (shared with C10). It does not decide data equality across the trip, TOML key quoting/table splitting, or file-type inference.",
		trust: []string{"third-party YAML/TOML emitters", "TOML table/array bookkeeping is value-level"},
	})
}

func checkC12(c *Ctx) {
	c12TOMLRepresentable(c)
	// errcheck-style baseline: a newly discarded error in the package is a dropped protocol/validation step
	c.checkErrorDiscipline("errors.no-new-dropped-error", "internal/encoding", map[string]string{
		"(*Decoder).Close|io.Closer.Close": "closing the input after decoding (read side)",
		"isOpenAPI|cue.Value.String": "detection heuristic: a non-string simply is not OpenAPI",
	})
	const ep = "internal/encoding"
	enc := c.fn(ep, "(*Encoder).Encode")
	g := c.graph(enc)
	info := enc.Info()
	// calls through the function-valued fields
	fieldCall := func(name string) map[int]*ast.CallExpr {
		out := map[int]*ast.CallExpr{}
		for _, n := range g.Nodes {
			if n.N == nil {
				continue
			}
			for _, call := range callsIn(n.N, false) {
				if sel, ok := ast.Unparen(call.Fun).(*ast.SelectorExpr); ok && sel.Sel.Name == name {
					if _, isFn := info.TypeOf(sel).Underlying().(*types.Signature); isFn && calleeObj(info, call) != nil {
						if v, ok := calleeObj(info, call).(*types.Var); ok && v.IsField() {
							out[n.ID] = call
						}
					}
				}
			}
		}
		return out
	}
	encValue := fieldCall("encValue")
	encFile := fieldCall("encFile")
	interp := fieldCall("interpret")
	validateConcrete := g.callNodesWhere(func(call *ast.CallExpr) bool {
		for _, a := range call.Args {
			if in, ok := ast.Unparen(a).(*ast.CallExpr); ok && calleeName(info, in) == "cue.Concrete" && len(in.Args) == 1 {
				if sel, ok := ast.Unparen(in.Args[0]).(*ast.SelectorExpr); ok && sel.Sel.Name == "concrete" {
					return true
				}
			}
		}
		return false
	}, "cue.Value.Validate")
	validateAny := g.callNodes("cue.Value.Validate")
	okV := len(encValue) > 0 && len(validateConcrete) > 0
	var st1 []uint64
	if okV {
		// the Validate that guards an encValue must be the latest one and on the same value:
		// every encValue is reached only in state "some concrete-Validate succeeded and none failed since"
		var bad []int
		bad, st1 = g.onlyAfterSuccess(validateConcrete, keys(encValue))
		okV = len(bad) == 0
		// and the value validated is the value encoded
		for id, call := range encValue {
			arg := identObj(info, call.Args[0])
			matched := false
			for vid, vcall := range validateConcrete {
				if sel, ok := ast.Unparen(vcall.Fun).(*ast.SelectorExpr); ok && identObj(info, sel.X) == arg && g.reachableFrom(vid)[id] {
					// no reassignment of the variable between
					matched = true
				}
			}
			if !matched {
				okV = false
			}
		}
	}
	c.check("gate.concrete-before-encode", enc.Name, enc.Body.Pos(), okV,
		"every path to e.encValue(v) must pass a successful v.Validate(cue.Concrete(e.concrete)) on the same value: "+maskStr(st1))
	okF := true
	if len(encFile) > 0 {
		b1, _ := g.onlyAfterSuccess(validateAny, keys(encFile))
		b2, _ := g.onlyAfterSuccess(interp, keys(encFile))
		okF = len(b1) == 0 && len(b2) == 0 && len(interp) > 0
	}
	c.check("gate.validate-before-interpret", enc.Name, enc.Body.Pos(), okF,
		"every path to e.encFile(f) must pass a successful v.Validate() and a successful interpretation")
	// Encode's errors are returned (every call result in Encode is either returned or tested)
	c12NoDroppedErrors(c, enc, "errors.propagate")
	c12NoDroppedErrors(c, c.fn(ep, "(*Encoder).EncodeFile"), "errors.propagate")
	c12NoDroppedErrors(c, c.fn(ep, "Encoder.Close"), "errors.propagate")
	c12NoDroppedErrors(c, c.fn("cmd/cue/cmd", "runExport"), "errors.propagate")
	// the import side: decode, place and write
	for _, fn := range []string{"runImport", "genericMode", "handleFile", "writeFile", "(*buildPlan).placeOrphans", "placeOrphans", "(*buildPlan).placeValue"} {
		if f := c.fnOpt("cmd/cue/cmd", fn); f != nil {
			c12NoDroppedErrors(c, f, "errors.propagate")
		}
	}

	// (b) registries
	ne := c.fn(ep, "NewEncoder")
	ni := ne.Info()
	encCases := map[string]*ast.CaseClause{}
	var encDefault *ast.CaseClause
	ast.Inspect(ne.Body, func(n ast.Node) bool {
		sw, ok := n.(*ast.SwitchStmt)
		if !ok || sw.Tag == nil || !strings.HasSuffix(exprString(sw.Tag), ".Encoding") {
			return true
		}
		for _, cl := range sw.Body.List {
			cc := cl.(*ast.CaseClause)
			if cc.List == nil {
				encDefault = cc
			}
			for _, e := range cc.List {
				if sel, ok := ast.Unparen(e).(*ast.SelectorExpr); ok {
					if k, ok := ni.Uses[sel.Sel].(*types.Const); ok {
						encCases[k.Name()] = cc
					}
				}
			}
		}
		return true
	})
	if len(encCases) < 5 {
		c.broken("anchor: NewEncoder's switch over f.Encoding not found (%d cases)", len(encCases))
	}
	var names []string
	for k := range encCases {
		names = append(names, k)
	}
	sort.Strings(names)
	for _, k := range names {
		if k == "CUE" {
			continue // CUE output may be incomplete on purpose (e.concrete = !fi.Incomplete)
		}
		cc := encCases[k]
		sets := false
		for _, st := range cc.Body {
			if as, ok := st.(*ast.AssignStmt); ok && len(as.Lhs) == 1 && len(as.Rhs) == 1 {
				if sel, ok := ast.Unparen(as.Lhs[0]).(*ast.SelectorExpr); ok && sel.Sel.Name == "concrete" {
					if tv := ni.Types[as.Rhs[0]]; tv.Value != nil && tv.Value.Kind() == constant.Bool && constant.BoolVal(tv.Value) {
						sets = true
					}
				}
			}
		}
		c.check("registry.data-encoding-concrete", "build."+k, cc.Pos(), sets,
			"the encoder case for the data encoding "+k+" must set e.concrete = true unconditionally (a non-concrete value must be an error, not silently altered output)")
	}
	defErr := func(cc *ast.CaseClause, info *types.Info) bool {
		if cc == nil {
			return false
		}
		found := false
		for _, st := range cc.Body {
			ast.Inspect(st, func(n ast.Node) bool {
				if call, ok := n.(*ast.CallExpr); ok && calleeName(info, call) == "fmt.Errorf" {
					found = true
				}
				return true
			})
		}
		return found
	}
	c.check("registry.encoder-default-errors", ne.Name, ne.Decl.Pos(), defErr(encDefault, ni), "NewEncoder's encoding switch must end in an 'unsupported encoding' error")
	nd := c.fn(ep, "NewDecoder")
	di := nd.Info()
	decCases := map[string]bool{}
	var decDefault *ast.CaseClause
	ast.Inspect(nd.Body, func(n ast.Node) bool {
		sw, ok := n.(*ast.SwitchStmt)
		if !ok || sw.Tag == nil || !strings.HasSuffix(exprString(sw.Tag), ".Encoding") {
			return true
		}
		for _, cl := range sw.Body.List {
			cc := cl.(*ast.CaseClause)
			if cc.List == nil {
				decDefault = cc
			}
			for _, e := range cc.List {
				if sel, ok := ast.Unparen(e).(*ast.SelectorExpr); ok {
					if k, ok := di.Uses[sel.Sel].(*types.Const); ok {
						decCases[k.Name()] = true
					}
				}
			}
		}
		return true
	})
	for _, k := range []string{"CUE", "JSON", "JSONL", "YAML", "TOML"} {
		_, hasEnc := encCases[k]
		c.check("registry.round-trip-pair", "build."+k, nd.Decl.Pos(), hasEnc && decCases[k],
			fmt.Sprintf("the round-trip text encoding %s needs both an encoder case (%v) and a decoder case (%v)", k, hasEnc, decCases[k]))
	}
	c.check("registry.decoder-default-errors", nd.Name, nd.Decl.Pos(), defErr(decDefault, di), "NewDecoder's encoding switch must end in an 'unsupported encoding' error")

	// (d) writer
	w := c.fn(ep, "writer")
	lits := c.lits(w)
	okW := len(lits) == 1
	det := "writer must return a close function that opens the file"
	if okW {
		l := lits[0]
		gl := c.graph(l)
		li := l.Info()
		osPkg := c.Pkgs["os"]
		flag := func(name string) int64 {
			k := osPkg.Types.Scope().Lookup(name).(*types.Const)
			v, _ := constant.Int64Val(k.Val())
			return v
		}
		// the first definition of the mode variable includes O_EXCL; O_TRUNC only under cfg.Force
		opens := gl.callNodes("os.OpenFile")
		exclInit, truncGuarded := false, true
		ast.Inspect(l.Body, func(n ast.Node) bool {
			as, ok := n.(*ast.AssignStmt)
			if !ok || len(as.Lhs) != 1 || len(as.Rhs) != 1 {
				return true
			}
			id, ok := as.Lhs[0].(*ast.Ident)
			if !ok || id.Name != "mode" {
				return true
			}
			tv := li.Types[as.Rhs[0]]
			if tv.Value == nil {
				return true
			}
			v, _ := constant.Int64Val(tv.Value)
			if as.Tok.String() == ":=" {
				exclInit = v&flag("O_EXCL") != 0 && v&flag("O_TRUNC") == 0
			} else if v&flag("O_EXCL") == 0 {
				// must be inside `if cfg.Force`
				guarded := false
				ast.Inspect(l.Body, func(m ast.Node) bool {
					if ifs, ok := m.(*ast.IfStmt); ok && strings.HasSuffix(exprString(ifs.Cond), ".Force") && ifs.Body.Pos() <= as.Pos() && as.End() <= ifs.Body.End() {
						guarded = true
					}
					return true
				})
				if !guarded {
					truncGuarded = false
				}
			}
			return true
		})
		// no OpenFile outside the close function
		outside := false
		ast.Inspect(w.Body, func(n ast.Node) bool {
			if n == ast.Node(l.Lit) {
				return false
			}
			if call, ok := n.(*ast.CallExpr); ok {
				switch calleeName(w.Info(), call) {
				case "os.OpenFile", "os.Create", "os.WriteFile":
					outside = true
				}
			}
			return true
		})
		// write and close errors are returned
		wr := gl.callNodes("os.(*File).Write")
		cl := gl.callNodes("os.(*File).Close")
		okW = len(opens) > 0 && exclInit && truncGuarded && !outside && len(wr) > 0 && len(cl) > 0
		det = fmt.Sprintf("the output file must be opened only inside the close function (after the whole buffer exists), with O_EXCL unless cfg.Force (excl=%v, trunc-only-under-Force=%v, opened-early=%v), and Write/Close must be checked", exclInit, truncGuarded, outside)
		c12NoDroppedErrors(c, l, "errors.propagate")
		// path-sensitive folding of the open flags: the value that reaches
		// the first os.OpenFile, with and without --force
		cf := newCaseFn(c, l)
		forceKey := ""
		for k := range cf.atoms() {
			if strings.HasSuffix(k, ".Force") {
				forceKey = k
			}
		}
		for _, force := range []bool{false, true} {
			okF := forceKey != ""
			detF := "no test of cfg.Force found"
			if okF {
				path, _ := cf.trace(cf.g.Entry, map[string]bool{forceKey: force})
				// the flag argument of the first OpenFile on the path
				var flagVar types.Object
				var flagConst int64 = -1
				upto := len(path)
				for i, id := range path {
					if call, isOpen := opens[id]; isOpen && len(call.Args) == 3 {
						flagVar = identObj(li, call.Args[1])
						if tv := li.Types[call.Args[1]]; tv.Value != nil {
							flagConst, _ = constant.Int64Val(tv.Value)
						}
						upto = i
						break
					}
				}
				val, known := flagConst, flagConst >= 0
				if flagVar != nil {
					known = false
					for _, id := range path[:upto] {
						as, isAs := cf.g.Nodes[id].N.(*ast.AssignStmt)
						if !isAs || len(as.Lhs) != 1 || len(as.Rhs) != 1 || identObj(li, as.Lhs[0]) != flagVar {
							continue
						}
						tv := li.Types[as.Rhs[0]]
						if tv.Value == nil {
							known = false
							continue
						}
						r, _ := constant.Int64Val(tv.Value)
						switch as.Tok {
						case token.DEFINE, token.ASSIGN:
							val, known = r, true
						case token.OR_ASSIGN:
							val |= r
						case token.AND_ASSIGN:
							val &= r
						case token.AND_NOT_ASSIGN:
							val &^= r
						case token.XOR_ASSIGN:
							val ^= r
						default:
							known = false
						}
					}
				}
				excl, trunc, create := val&flag("O_EXCL") != 0, val&flag("O_TRUNC") != 0, val&flag("O_CREATE") != 0
				okF = known && create && ((force && trunc && !excl) || (!force && excl && !trunc))
				detF = fmt.Sprintf("flags reaching os.OpenFile with Force=%v: known=%v O_CREATE=%v O_EXCL=%v O_TRUNC=%v", force, known, create, excl, trunc)
			}
			c.check("writer.open-flags", fmt.Sprintf("%s/force=%v", w.Name, force), w.Decl.Pos(), okF,
				"the output file is created exclusively (O_CREATE|O_EXCL, no O_TRUNC) unless --force, and with --force an existing file is replaced entirely (O_TRUNC, no O_EXCL) — otherwise a shorter export keeps the tail of the old file; "+detF)
		}
	}
	c.check("writer.delayed-exclusive-open", w.Name, w.Decl.Pos(), okW, det)
	checkYAMLBytesBinary(c)
	c12TomlKeyPrefix(c)
	c12OutputOnlyToWriter(c)
	c12ImportedFilesSanitized(c)

	jsonImporterKeyRule(c)
	c.expect("registry.data-encoding-concrete", 6)
}

// c12NoDroppedErrors: no call whose last result is an error is used as a bare
// statement or assigned to blank in f, except the listed best-effort callees.
func c12NoDroppedErrors(c *Ctx, f *Fn, rule string) {
	info := f.Info()
	bestEffort := map[string]string{
		"fmt.Fprintln": "diagnostic output", "fmt.Fprintf": "diagnostic/header output", "fmt.Fprint": "diagnostic output",
		"os.(*File).Close": "", "cmd/cue/cmd.(*iterator).close": "",
		"os.MkdirAll": "a failure to create the directory surfaces through the write that follows",
	}
	var bad []string
	check := func(call *ast.CallExpr, how string) {
		tv, ok := info.Types[call]
		if !ok {
			return
		}
		returnsErr := false
		switch t := tv.Type.(type) {
		case *types.Tuple:
			returnsErr = t.Len() > 0 && isErrorType(t.At(t.Len()-1).Type())
		default:
			returnsErr = isErrorType(tv.Type)
		}
		if !returnsErr {
			return
		}
		nm := calleeName(info, call)
		if why, ok := bestEffort[nm]; ok && why != "" {
			return
		}
		if nm == "" {
			nm = exprString(call.Fun)
		}
		bad = append(bad, fmt.Sprintf("%s %s at %s", how, nm, c.pos(call.Pos())))
	}
	ast.Inspect(f.Body, func(n ast.Node) bool {
		switch s := n.(type) {
		case *ast.FuncLit:
			return s == f.Lit
		case *ast.ExprStmt:
			if call, ok := s.X.(*ast.CallExpr); ok {
				check(call, "result of")
			}
		case *ast.DeferStmt:
			// deferred cleanup is best effort by construction
			return false
		case *ast.AssignStmt:
			if len(s.Rhs) == 1 {
				if call, ok := ast.Unparen(s.Rhs[0]).(*ast.CallExpr); ok {
					last := s.Lhs[len(s.Lhs)-1]
					if id, ok := last.(*ast.Ident); ok && id.Name == "_" {
						check(call, "error of")
					}
				}
			}
		}
		return true
	})
	sort.Strings(bad)
	c.check(rule, f.Name, f.Body.Pos(), len(bad) == 0,
		"no error on the encode/validate/write chain may be discarded (it must reach the command's exit status): "+strings.Join(bad, "; "))
}

// c12TomlKeyPrefix: rooted keys of the TOML decoder are dot-separated paths.
// "Is key k below table t" must compare whole path components: the prefix has
// to include the separator (t + "."), otherwise [[a.bc]] is taken to be
// inside [[a.b]].
func c12TomlKeyPrefix(c *Ctx) {
	p := c.pkgOpt("encoding/toml")
	if p == nil {
		c.check("toml.key-prefix-includes-separator", "encoding/toml", 0, false, "anchor: package encoding/toml not loaded")
		return
	}
	isRooted := func(info *types.Info, e ast.Expr) bool {
		t := info.TypeOf(e)
		if a, ok := t.(*types.Alias); ok && a.Obj().Name() == "rootedKey" {
			return true
		}
		// fall back on the declared type of the variable or field
		var o types.Object
		switch x := ast.Unparen(e).(type) {
		case *ast.Ident:
			o = info.Uses[x]
		case *ast.SelectorExpr:
			o = info.Uses[x.Sel]
		}
		if v, ok := o.(*types.Var); ok {
			if a, ok := v.Type().(*types.Alias); ok && a.Obj().Name() == "rootedKey" {
				return true
			}
		}
		return false
	}
	n := 0
	for _, f := range c.funcs(p) {
		info := f.Info()
		ast.Inspect(f.Body, func(x ast.Node) bool {
			call, ok := x.(*ast.CallExpr)
			if !ok || calleeName(info, call) != "strings.HasPrefix" || len(call.Args) != 2 {
				return true
			}
			a1 := ast.Unparen(call.Args[1])
			base := a1
			hasSep := false
			if be, ok := a1.(*ast.BinaryExpr); ok && be.Op == token.ADD {
				if v, ok := constString(info, be.Y); ok && v == "." {
					hasSep, base = true, be.X
				}
			}
			if !isRooted(info, call.Args[0]) && !isRooted(info, base) {
				return true
			}
			n++
			c.check("toml.key-prefix-includes-separator", fmt.Sprintf("%s#prefix%d", f.Name, n), call.Pos(), hasSep,
				"a prefix test between rooted (dot-separated) keys must include the separator: strings.HasPrefix(k, t+\".\") — without it `a.bc` counts as a child of `a.b`; found "+exprString(call))
			return true
		})
	}
	c.expect("toml.key-prefix-includes-separator", 3)
}

// c12OutputOnlyToWriter: everything an encoder emits belongs to the output it
// was opened for (file, cfg.Out, or stdout when the file name is "-"). A
// fmt.Print* inside the encoder writes to the process's stdout instead: the
// text is missing from the file (e.g. the `// ---` separator between the
// values of a multi-value CUE export, whose absence fuses the values) and
// pollutes stdout.
func c12OutputOnlyToWriter(c *Ctx) {
	p := c.pkg("internal/encoding")
	nW := 0
	k := 0
	for _, f := range c.funcs(p) {
		info := f.Info()
		ast.Inspect(f.Body, func(x ast.Node) bool {
			call, ok := x.(*ast.CallExpr)
			if !ok {
				return true
			}
			switch calleeName(info, call) {
			case "fmt.Fprintf", "fmt.Fprintln", "fmt.Fprint":
				nW++
			case "fmt.Print", "fmt.Println", "fmt.Printf":
				k++
				c.check("writer.output-only-to-writer", fmt.Sprintf("%s#print%d", f.Name, k), call.Pos(), false,
					"the encoder must write through its output writer (fmt.Fprint*(w, …)), never with "+exprString(call.Fun)+": the text goes to the process's stdout and is missing from the output file")
			}
			return true
		})
	}
	c.check("writer.output-only-to-writer", "internal/encoding#writer-calls", 0, nW >= 1,
		fmt.Sprintf("the scan saw %d fmt.Fprint* calls in internal/encoding (expected at least one: the rule must see the encoder's writes)", nW))
}

// c12ImportedFilesSanitized: decoders may emit references whose import is
// attached to the identifier (encoding/toml: `time.Format(time.RFC3339)` for
// date-times) and rely on astutil.Sanitize to materialise the import
// declaration. Every decoded file that `cue import` adds to its output must
// therefore pass astutil.Sanitize, on both branches of buildPlan.placeOrphans:
// directly, or through func placeOrphans, which sanitizes what it returns.
func c12ImportedFilesSanitized(c *Ctx) {
	const cmdP = "cmd/cue/cmd"
	p := c.pkgOpt(cmdP)
	if p == nil {
		c.check("import.decoded-files-sanitized", cmdP, 0, false, "anchor: package cmd/cue/cmd not loaded")
		return
	}
	// func placeOrphans sanitizes before every success return
	pf := c.fn(cmdP, "placeOrphans")
	pg := c.graph(pf)
	san := pg.callNodes("cue/ast/astutil.Sanitize")
	okFunc := len(san) > 0
	for _, r := range pg.successReturns() {
		if !pg.mustPassNode(r, setOf(keys(san))) {
			okFunc = false
		}
	}
	c.check("import.decoded-files-sanitized", pf.Name, pf.Decl.Pos(), okFunc,
		"func placeOrphans must run astutil.Sanitize on the file it builds before returning it")
	m := c.fn(cmdP, "(*buildPlan).placeOrphans")
	g := c.graph(m)
	info := m.Info()
	n := 0
	for id, nd := range g.Nodes {
		as, ok := nd.N.(*ast.AssignStmt)
		if !ok || len(as.Lhs) != 1 || len(as.Rhs) != 1 || exprString(as.Lhs[0]) != "files" {
			continue
		}
		call, ok := ast.Unparen(as.Rhs[0]).(*ast.CallExpr)
		if !ok || exprString(call.Fun) != "append" || len(call.Args) != 2 {
			continue
		}
		n++
		fv := identObj(info, call.Args[1])
		okSite := false
		// (a) the file comes from func placeOrphans
		for _, m2 := range g.Nodes {
			if a2, isAs := m2.N.(*ast.AssignStmt); isAs && len(a2.Rhs) == 1 {
				if c2, isCall := ast.Unparen(a2.Rhs[0]).(*ast.CallExpr); isCall && calleeName(info, c2) == cmdP+".placeOrphans" && len(a2.Lhs) >= 1 && identObj(info, a2.Lhs[0]) == fv {
					if g.mustPassNode(id, map[int]bool{m2.ID: true}) {
						okSite = true
					}
				}
			}
		}
		// (b) or it is sanitized on the way
		direct := g.callNodesWhere(func(cl *ast.CallExpr) bool {
			return len(cl.Args) == 1 && identObj(info, cl.Args[0]) == fv
		}, "cue/ast/astutil.Sanitize")
		if len(direct) > 0 && g.mustPassNode(id, setOf(keys(direct))) {
			okSite = true
		}
		c.check("import.decoded-files-sanitized", fmt.Sprintf("%s#append%d", m.Name, n), as.Pos(), okSite,
			"a decoded file is added to the import output without astutil.Sanitize: an import attached to an identifier (TOML date-times: time.Format) is never declared and the written .cue file fails with `reference \"time\" not found`")
	}
	c.expect("import.decoded-files-sanitized", 4)
}

// c12TOMLRepresentable: the TOML encoder decodes the value into Go data and
// hands it to go-toml's reflection encoder, which does not fail on what TOML
// cannot express: a nil map value is dropped, []byte is written as a list of
// integers, *big.Int / *big.Float as strings. C12 asks for an error rather
// than a silent change, so the library call must lie behind a successful
// check that walks the value and rejects those kinds.
func c12TOMLRepresentable(c *Ctx) {
	const rule = "toml.values-checked-representable"
	f := c.fnOpt("encoding/toml", "(*Encoder).Encode")
	if f == nil {
		c.check(rule, "encoding/toml", 0, false, "anchor: encoding/toml.(*Encoder).Encode not found")
		return
	}
	g := c.graph(f)
	info := f.Info()
	lib := keys(g.callNodes("github.com/pelletier/go-toml/v2.(*Encoder).Encode"))
	if len(lib) == 0 {
		c.check(rule, f.Name, f.Decl.Pos(), false, "anchor: the encoder no longer calls go-toml's Encode")
		return
	}
	// candidate checkers: package-local functions called with the value that return an error
	var checker *Fn
	checks := g.callNodesWhere(func(call *ast.CallExpr) bool {
		nm := calleeName(info, call)
		if !strings.HasPrefix(nm, "encoding/toml.") {
			return false
		}
		h := c.fnOpt("encoding/toml", strings.TrimPrefix(nm, "encoding/toml."))
		if h == nil || !c12RejectsUnrepresentable(h) {
			return false
		}
		checker = h
		return true
	}, c12LocalFuncNames(c, "encoding/toml")...)
	ok := len(checks) > 0
	det := ": no call to a function that rejects null, bytes and out-of-range numbers and descends into lists and structs"
	if ok {
		bad, st := g.onlyAfterSuccess(checks, lib)
		ok = len(bad) == 0
		det = ": " + maskStr(st)
		if ok {
			det = " (checker: " + checker.Name + ")"
		}
	}
	c.check(rule, f.Name, g.pos(lib[0]), ok,
		"go-toml's reflection encoder may be called only after a successful check that the value holds nothing TOML cannot represent (null is dropped, bytes become a list of integers, numbers beyond 64 bits become strings — silent changes where C12 demands an error)"+det)
}

// c12RejectsUnrepresentable: h switches on the value's kind, returns an error
// in the null and bytes cases, tests integers, and recurses for lists and structs.
func c12RejectsUnrepresentable(h *Fn) bool {
	info := h.Info()
	need := map[string]bool{"NullKind": false, "BytesKind": false, "IntKind": false, "ListKind": false, "StructKind": false}
	ast.Inspect(h.Body, func(x ast.Node) bool {
		cc, ok := x.(*ast.CaseClause)
		if !ok {
			return true
		}
		for _, e := range cc.List {
			sel, ok := ast.Unparen(e).(*ast.SelectorExpr)
			if !ok {
				continue
			}
			name := sel.Sel.Name
			if _, want := need[name]; !want {
				continue
			}
			switch name {
			case "NullKind", "BytesKind":
				// the clause returns a non-nil error unconditionally
				for _, st := range cc.Body {
					if rs, ok := st.(*ast.ReturnStmt); ok && len(rs.Results) == 1 && !isNilIdent(rs.Results[0]) {
						need[name] = true
					}
				}
			case "IntKind":
				ast.Inspect(cc, func(y ast.Node) bool {
					if call, ok := y.(*ast.CallExpr); ok && strings.HasSuffix(calleeName(info, call), "cue.Value.Int64") {
						need[name] = true
					}
					return true
				})
			default:
				ast.Inspect(cc, func(y ast.Node) bool {
					if call, ok := y.(*ast.CallExpr); ok && calleeName(info, call) == h.Name {
						need[name] = true
					}
					return true
				})
			}
		}
		return true
	})
	for _, v := range need {
		if !v {
			return false
		}
	}
	return true
}


func c12LocalFuncNames(c *Ctx, pkgRel string) []string {
	var out []string
	for _, f := range c.funcs(c.pkg(pkgRel)) {
		if f.Decl != nil {
			out = append(out, f.Name)
		}
	}
	return out
}
