package main

import (
	"fmt"
	"go/ast"
	"go/token"
	"go/types"
	"os"
	"path/filepath"
	"reflect"
	"sort"
	"strings"
)

// readRepoFile returns the content of a repository file, honouring the
// self-test overlay.
func (c *Ctx) readRepoFile(rel string) ([]byte, error) {
	path := filepath.Join(c.Repo, rel)
	if b, ok := c.overlay[path]; ok {
		return b, nil
	}
	return os.ReadFile(path)
}

// ---------------------------------------------------------------------------
// a small scanner for the declaration structure of a CUE schema file: it
// yields, for every field declaration `label[?!]: …`, the chain of enclosing
// labels. Values are not interpreted.

type cueTok struct {
	kind byte // 'i' identifier, 's' string, 'p' punctuation, 'n' newline
	text string
}

func cueTokens(src string) []cueTok {
	var out []cueTok
	i := 0
	for i < len(src) {
		ch := src[i]
		switch {
		case ch == '\n':
			out = append(out, cueTok{'n', "\n"})
			i++
		case ch == ' ' || ch == '\t' || ch == '\r':
			i++
		case ch == '/' && i+1 < len(src) && src[i+1] == '/':
			for i < len(src) && src[i] != '\n' {
				i++
			}
		case cueStringStart(src[i:]):
			j := i
			hashes := 0
			for src[j] == '#' {
				hashes++
				j++
			}
			q := src[j]
			multi := strings.HasPrefix(src[j:], strings.Repeat(string(q), 3))
			closer := string(q)
			if multi {
				closer = strings.Repeat(string(q), 3)
			}
			k := j + len(closer)
			closer += strings.Repeat("#", hashes)
			start := k
			for k < len(src) {
				if src[k] == '\\' && hashes == 0 {
					k += 2
					continue
				}
				if strings.HasPrefix(src[k:], closer) {
					break
				}
				k++
			}
			end := min(k, len(src))
			out = append(out, cueTok{'s', src[start:end]})
			i = min(k+len(closer), len(src))
		case ch == '_' || ch == '#' || ch == '$' || (ch >= 'a' && ch <= 'z') || (ch >= 'A' && ch <= 'Z'):
			j := i
			for j < len(src) {
				b := src[j]
				if b == '_' || b == '#' || b == '$' || (b >= 'a' && b <= 'z') || (b >= 'A' && b <= 'Z') || (b >= '0' && b <= '9') {
					j++
					continue
				}
				break
			}
			if j == i {
				j = i + 1
			}
			out = append(out, cueTok{'i', src[i:j]})
			i = j
		default:
			out = append(out, cueTok{'p', string(ch)})
			i++
		}
	}
	return out
}

// cueStringStart reports whether s starts a string literal ("…", '…', #"…"#, """…""").
func cueStringStart(s string) bool {
	j := 0
	for j < len(s) && s[j] == '#' {
		j++
	}
	return j < len(s) && (s[j] == '"' || s[j] == '\'') && (j == 0 || true)
}

// cueFieldDecl is one `label:` occurrence.
type cueFieldDecl struct {
	path  []string // enclosing labels, outermost first
	label string
	mark  string // "", "?" or "!"
}

// cueFieldDecls walks the token stream. Bracketed labels (`[pattern]:`) are
// reported with the label "[]".
func cueFieldDecls(toks []cueTok) []cueFieldDecl {
	var out []cueFieldDecl
	type frame struct{ n int } // number of labels pushed for this brace
	var path []string
	var braces []frame
	var chain int // labels of the current declaration chain not yet closed by a value
	i := 0
	// labelAt reports a label starting at i: returns label, mark, next index.
	labelAt := func(i int) (string, string, int, bool) {
		if i >= len(toks) {
			return "", "", i, false
		}
		j := i
		label := ""
		switch {
		case toks[j].kind == 'i' || toks[j].kind == 's':
			label = toks[j].text
			j++
			// alias form X=label is not used by the schema
		case toks[j].kind == 'p' && toks[j].text == "[":
			depth := 0
			for j < len(toks) {
				if toks[j].kind == 'p' && toks[j].text == "[" {
					depth++
				}
				if toks[j].kind == 'p' && toks[j].text == "]" {
					depth--
					if depth == 0 {
						j++
						break
					}
				}
				if toks[j].kind == 'n' {
					return "", "", i, false
				}
				j++
			}
			label = "[]"
		default:
			return "", "", i, false
		}
		mark := ""
		if j < len(toks) && toks[j].kind == 'p' && (toks[j].text == "?" || toks[j].text == "!") {
			mark = toks[j].text
			j++
		}
		if j < len(toks) && toks[j].kind == 'p' && toks[j].text == ":" {
			return label, mark, j + 1, true
		}
		return "", "", i, false
	}
	endChain := func() {
		path = path[:len(path)-chain]
		chain = 0
	}
	for i < len(toks) {
		t := toks[i]
		if label, mark, next, ok := labelAt(i); ok {
			out = append(out, cueFieldDecl{path: append([]string{}, path...), label: label, mark: mark})
			path = append(path, label)
			chain++
			i = next
			continue
		}
		switch {
		case t.kind == 'p' && t.text == "{":
			braces = append(braces, frame{chain})
			chain = 0
			i++
		case t.kind == 'p' && t.text == "}":
			if chain > 0 {
				endChain()
			}
			if len(braces) > 0 {
				fr := braces[len(braces)-1]
				braces = braces[:len(braces)-1]
				path = path[:len(path)-fr.n]
			}
			i++
		case t.kind == 'n' || (t.kind == 'p' && t.text == ","):
			if chain > 0 {
				endChain()
			}
			i++
		default:
			// part of a value expression: skip to the end of the line at bracket depth 0,
			// but stop at an opening brace (a struct value is walked)
			depth := 0
			for i < len(toks) {
				x := toks[i]
				if x.kind == 'p' && (x.text == "(" || x.text == "[") {
					depth++
				}
				if x.kind == 'p' && (x.text == ")" || x.text == "]") {
					depth--
				}
				if depth == 0 && (x.kind == 'n' || (x.kind == 'p' && (x.text == "{" || x.text == "}" || x.text == ","))) {
					break
				}
				i++
			}
		}
	}
	return out
}

// jsonTags returns json name -> field name for the exported fields of a struct.
func jsonTags(st *types.Struct) map[string]string {
	out := map[string]string{}
	for i := 0; i < st.NumFields(); i++ {
		f := st.Field(i)
		if !f.Exported() {
			continue
		}
		tag := reflect.StructTag(st.Tag(i)).Get("json")
		name, _, _ := strings.Cut(tag, ",")
		if name == "-" {
			continue
		}
		if name == "" {
			name = f.Name()
		}
		out[name] = f.Name()
	}
	return out
}

// c17SchemaStructAgreement: the module-file schema (mod/modfile/schema.cue)
// is closed, and parse decodes the validated value into modfiledata.File.
// A regular field that the schema's #File (or #Dep, #Source, language)
// declares but the Go struct has no json field for is accepted by Parse and
// then dropped by Decode: Format(Parse(x)) loses it and `cue mod tidy`
// rewrites module.cue without it. Conversely a json field the schema does not
// declare can never be written back.
func c17SchemaStructAgreement(c *Ctx) {
	const rule = "modfile.schema-fields-decoded"
	src, err := c.readRepoFile("mod/modfile/schema.cue")
	if err != nil {
		c.broken("anchor: mod/modfile/schema.cue cannot be read: " + err.Error())
	}
	decls := cueFieldDecls(cueTokens(string(src)))
	// schema struct name -> set of regular fields
	schema := map[string]map[string]bool{}
	add := func(k, f string) {
		if schema[k] == nil {
			schema[k] = map[string]bool{}
		}
		schema[k][f] = true
	}
	for _, d := range decls {
		if d.label == "[]" || strings.HasPrefix(d.label, "#") || strings.HasPrefix(d.label, "_") {
			continue
		}
		// position relative to the innermost #File / #Dep / #Source definition
		idx := -1
		for i, p := range d.path {
			if p == "#File" || p == "#Dep" || p == "#Source" {
				idx = i
			}
		}
		if idx < 0 || d.path[0] != "versions" {
			continue
		}
		// #Strict refines #File; its fields are a subset by construction (closed)
		rel := d.path[idx+1:]
		switch {
		case len(rel) == 0:
			add(d.path[idx], d.label)
		case d.path[idx] == "#File" && len(rel) == 1 && rel[0] == "language":
			add("#File.language", d.label)
		}
	}
	mp := c.pkg("internal/mod/modfiledata")
	structOf := func(name string) *types.Struct {
		obj := mp.Types.Scope().Lookup(name)
		if obj == nil {
			c.broken("anchor: modfiledata." + name + " not found")
		}
		st, ok := obj.Type().Underlying().(*types.Struct)
		if !ok {
			c.broken("anchor: modfiledata." + name + " is not a struct")
		}
		return st
	}
	n := 0
	for _, pair := range []struct{ def, typ string }{
		{"#File", "File"}, {"#Dep", "Dep"}, {"#Source", "Source"}, {"#File.language", "Language"},
	} {
		fields := schema[pair.def]
		if len(fields) == 0 {
			c.check(rule, pair.def, token.NoPos, false, "anchor: no regular field of "+pair.def+" found in mod/modfile/schema.cue")
			continue
		}
		st := structOf(pair.typ)
		tags := jsonTags(st)
		var names []string
		for f := range fields {
			names = append(names, f)
		}
		sort.Strings(names)
		for _, f := range names {
			n++
			_, ok := tags[f]
			c.check(rule, pair.def+"."+f, mp.Types.Scope().Lookup(pair.typ).Pos(), ok,
				fmt.Sprintf("the schema accepts the field %q in %s; modfiledata.%s must have a json field for it, or Parse accepts it and Decode silently drops it (Format and `cue mod tidy` then delete it from module.cue)", f, pair.def, pair.typ))
		}
		var tnames []string
		for t := range tags {
			tnames = append(tnames, t)
		}
		sort.Strings(tnames)
		for _, t := range tnames {
			if !fields[t] {
				c.check(rule, pair.typ+"."+tags[t]+"/undeclared", mp.Types.Scope().Lookup(pair.typ).Pos(), false,
					fmt.Sprintf("modfiledata.%s.%s is encoded as %q, which the closed schema %s does not declare: Format can never write it back", pair.typ, tags[t], t, pair.def))
			}
		}
	}
	c.expect(rule, 10)
	c.note("schema.cue: %d field declarations scanned, %d schema fields matched against modfiledata structs", len(decls), n)

	// every place that rebuilds a File field by field from another File must carry every exported field
	c17FileCopiesComplete(c)
}

// c17FileCopiesComplete: a composite literal of modfiledata.File that takes
// two or more of its fields from the same-named fields of another File value
// is a field-by-field copy (the private fields must not be copied, hence no
// struct assignment). Every exported field has to be set in such a literal,
// or the copy drops it: `cue mod tidy`, `cue mod get` and the local-module
// merge all write the copy back.
func c17FileCopiesComplete(c *Ctx) {
	const rule = "modfile.field-by-field-copy-complete"
	mp := c.pkg("internal/mod/modfiledata")
	fileObj := mp.Types.Scope().Lookup("File")
	st := fileObj.Type().Underlying().(*types.Struct)
	var exported []string
	for i := 0; i < st.NumFields(); i++ {
		if st.Field(i).Exported() {
			exported = append(exported, st.Field(i).Name())
		}
	}
	n := 0
	for _, pr := range []string{"internal/mod/modload", "mod/modfile", "cmd/cue/cmd", "internal/mod/modfiledata"} {
		p := c.pkgOpt(pr)
		if p == nil {
			continue
		}
		for _, f := range c.funcs(p) {
			info := f.Info()
			k := 0
			ast.Inspect(f.Body, func(x ast.Node) bool {
				cl, ok := x.(*ast.CompositeLit)
				if !ok {
					return true
				}
				t := info.TypeOf(cl)
				if t == nil {
					return true
				}
				named, ok := types.Unalias(t).(*types.Named)
				if !ok || named.Obj() != fileObj {
					return true
				}
				set := map[string]bool{}
				srcs := map[string]int{}
				for _, e := range cl.Elts {
					kv, ok := e.(*ast.KeyValueExpr)
					if !ok {
						continue
					}
					name := exprString(kv.Key)
					set[name] = true
					if sel, ok := ast.Unparen(kv.Value).(*ast.SelectorExpr); ok && sel.Sel.Name == name {
						if tv := info.TypeOf(sel.X); tv != nil {
							if pt, ok := tv.Underlying().(*types.Pointer); ok {
								tv = pt.Elem()
							}
							if nn, ok := types.Unalias(tv).(*types.Named); ok && nn.Obj() == fileObj {
								srcs[exprString(sel.X)]++
							}
						}
					}
				}
				from := ""
				for s, cnt := range srcs {
					if cnt >= 2 {
						from = s
					}
				}
				if from == "" {
					return true
				}
				k++
				n++
				var missing []string
				for _, e := range exported {
					if !set[e] {
						missing = append(missing, e)
					}
				}
				c.check(rule, fmt.Sprintf("%s#%d", f.Name, k), cl.Pos(), len(missing) == 0,
					fmt.Sprintf("this modfile.File is rebuilt field by field from %s: every exported field must be set, or the copy drops it (missing: %v)", from, missing))
				return true
			})
		}
	}
	c.expect(rule, 4)
}

// c17StableExitReconcilesRoots: resolveDependencies loads the packages from
// the *pruned* requirement graph and leaves its loop when no import is
// missing. cmd/go, which this loop was ported from, calls updateRequirements
// (here: updateRoots) on every iteration, which makes every module providing
// a package a root and raises every root to the version the module graph
// selects, and reloads until that is stable. A stable exit that did not pass
// updateRoots in its iteration returns packages loaded at versions that the
// requirements of the roots tidy is about to add were never consulted for.
func c17StableExitReconcilesRoots(c *Ctx) {
	const rule = "tidy.stable-exit-reconciles-roots"
	f := c.fn("internal/mod/modload", "(*loader).resolveDependencies")
	g := c.graph(f)
	info := f.Info()
	load := g.callNodes("internal/mod/modpkgload.LoadPackages")
	upd := g.callNodes("internal/mod/modload.(*loader).updateRoots")
	if len(load) != 1 || len(upd) == 0 {
		c.broken(fmt.Sprintf("anchor: resolveDependencies must call LoadPackages once and updateRoots (found %d, %d)", len(load), len(upd)))
	}
	var loadID int
	for id := range load {
		loadID = id
	}
	stop := func(x int) bool { _, ok := upd[x]; return ok }
	r := g.reach([]int{loadID}, stop, nil)
	k := 0
	for _, ret := range g.successReturns() {
		rs := g.Nodes[ret].N.(*ast.ReturnStmt)
		if len(rs.Results) != 3 || isNilIdent(rs.Results[0]) {
			continue
		}
		// the check-mode exit reports the first problem instead of resolving it: it is gated by ld.checkTidy
		gated := false
		for _, encl := range enclosingIfs(f.Body, rs) {
			if exprString(encl.Cond) == "ld.checkTidy" {
				gated = true
			}
		}
		if gated {
			continue
		}
		k++
		_ = info
		// the exit is named by the innermost condition that guards it
		guard := "unconditional"
		if ifs := enclosingIfs(f.Body, rs); len(ifs) > 0 {
			guard = exprString(ifs[len(ifs)-1].Cond)
		}
		c.check(rule, fmt.Sprintf("%s#exit[%s]", f.Name, guard), rs.Pos(), !r[ret],
			"this exit returns the loaded packages as final without an updateRoots call since LoadPackages: the modules providing the packages were never made roots and reconciled with the graph before the result is tidied (a listed root can require a higher version of another listed root than the one written; tidy is then not idempotent)")
	}
	c.expect(rule, 1)
}

// enclosingIfs returns the if statements whose body contains n.
func enclosingIfs(root ast.Node, n ast.Node) []*ast.IfStmt {
	var out []*ast.IfStmt
	ast.Inspect(root, func(x ast.Node) bool {
		if x == nil {
			return false
		}
		if is, ok := x.(*ast.IfStmt); ok && is.Body.Pos() <= n.Pos() && n.End() <= is.Body.End() {
			out = append(out, is)
		}
		return x.Pos() <= n.Pos() && n.End() <= x.End()
	})
	return out
}

// c17NestedModuleDecidedFirst: AllModuleFiles must leave out every file of a
// nested module (a directory holding its own cue.mod). fs.ReadDir returns the
// entries sorted by name, so whether a directory is a nested module is known
// only after *all* entries were seen: the scan that returns on "cue.mod" must
// be a loop of its own that completes before the first file of the directory
// is yielded. Folded into the yielding loop, files whose names sort before
// "cue.mod" are yielded first — tidy then requires modules only a nested
// module imports, and which ones depends on file names.
func c17NestedModuleDecidedFirst(c *Ctx) {
	const rule = "imports.nested-module-decided-before-files"
	f := c.fn("internal/mod/modimports", "yieldAllModFiles")
	info := f.Info()
	isYield := func(n ast.Node) bool {
		found := false
		ast.Inspect(n, func(x ast.Node) bool {
			if call, ok := x.(*ast.CallExpr); ok {
				nm := calleeName(info, call)
				if strings.HasSuffix(nm, "modimports.yieldPackageFile") {
					found = true
				}
			}
			return true
		})
		return found
	}
	hasSkip := func(n ast.Node) bool {
		found := false
		ast.Inspect(n, func(x ast.Node) bool {
			is, ok := x.(*ast.IfStmt)
			if !ok {
				return true
			}
			cond := exprString(is.Cond)
			if !strings.Contains(cond, `"cue.mod"`) || !strings.Contains(cond, "==") {
				return true
			}
			for _, st := range is.Body.List {
				if _, isRet := st.(*ast.ReturnStmt); isRet {
					found = true
				}
			}
			return true
		})
		return found
	}
	var scan, firstYield *ast.RangeStmt
	ast.Inspect(f.Body, func(x ast.Node) bool {
		rs, ok := x.(*ast.RangeStmt)
		if !ok {
			return true
		}
		if hasSkip(rs.Body) && scan == nil {
			scan = rs
		}
		if isYield(rs.Body) && firstYield == nil {
			firstYield = rs
		}
		return true
	})
	if firstYield == nil {
		c.broken("anchor: yieldAllModFiles no longer yields package files from a loop over the directory entries")
	}
	ok := scan != nil && scan != firstYield && scan.End() < firstYield.Pos() && !isYield(scan.Body)
	if scan == nil {
		// the scan may live in a helper: an early return before the yielding loop,
		// guarded by a call to a package function that compares entry names with "cue.mod"
		ast.Inspect(f.Body, func(x ast.Node) bool {
			is, isIf := x.(*ast.IfStmt)
			if !isIf || is.End() > firstYield.Pos() {
				return true
			}
			returns := false
			for _, st := range is.Body.List {
				if _, isRet := st.(*ast.ReturnStmt); isRet {
					returns = true
				}
			}
			if !returns {
				return true
			}
			ast.Inspect(is.Cond, func(y ast.Node) bool {
				call, isCall := y.(*ast.CallExpr)
				if !isCall {
					return true
				}
				nm := calleeName(info, call)
				if !strings.HasPrefix(nm, "internal/mod/modimports.") {
					return true
				}
				h := c.fnOpt("internal/mod/modimports", strings.TrimPrefix(nm, "internal/mod/modimports."))
				if h == nil {
					return true
				}
				mentions := false
				ast.Inspect(h.Body, func(z ast.Node) bool {
					if e, isExpr := z.(ast.Expr); isExpr {
						if v, isConst := constString(h.Info(), e); isConst && v == "cue.mod" {
							mentions = true
						}
					}
					return true
				})
				if mentions && !isYield(h.Body) {
					ok = true
				}
				return true
			})
			return true
		})
	}
	pos := firstYield.Pos()
	c.check(rule, f.Name, pos, ok,
		"whether the directory is a nested module (has a cue.mod entry) must be decided by a scan of all entries that completes before the first file is yielded; entries are sorted by name, so a test folded into the yielding loop lets files sorting before \"cue.mod\" through")
}

// c17ResolutionIgnoresCacheState: which module provides a package must be a
// function of the requirements, not of whether their module graph happens to
// have been loaded already (by an earlier iteration or a concurrently loading
// package). GraphIsLoaded is a cache-state query; only the two functions that
// use it to avoid loading work they can skip may call it.
func c17ResolutionIgnoresCacheState(c *Ctx) {
	const rule = "resolve.no-branch-on-graph-cache-state"
	allowed := map[string]string{
		"internal/mod/modrequirements.(*Requirements).WithDefaultMajorVersions": "carries an already loaded graph over to the derived Requirements (same roots)",
		"internal/mod/modload.(*loader).updateRoots":                             "chooses between reading the loaded graph and spot-checking the roots; both compute the same selected versions",
	}
	n := 0
	for _, pr := range []string{"internal/mod/modload", "internal/mod/modpkgload", "internal/mod/modrequirements", "internal/mod/modimports"} {
		for _, f := range c.funcs(c.pkg(pr)) {
			info := f.Info()
			ast.Inspect(f.Body, func(x ast.Node) bool {
				call, ok := x.(*ast.CallExpr)
				if !ok || !strings.HasSuffix(calleeName(info, call), "modrequirements.(*Requirements).GraphIsLoaded") {
					return true
				}
				n++
				root := f.Name
				if i := strings.Index(root, "$"); i >= 0 {
					root = root[:i]
				}
				_, ok2 := allowed[root]
				c.check(rule, f.Name, call.Pos(), ok2,
					"GraphIsLoaded reports cache state (has some caller already loaded the module graph?); a package or version resolution that branches on it gives different answers for the same requirements depending on what ran before")
				return true
			})
		}
	}
	c.expect(rule, 2)
}
