package main

import (
	"fmt"
	"go/ast"
	"go/constant"
	"go/token"
	"go/types"
	"sort"
	"strings"
)

// E9: the escape alphabets of the quoting writer, the unquoting reader and the
// scanner are compared with each other (never with a frozen copy).

type escTable struct {
	simple   map[int64]int64 // letter -> rune (reader) or rune -> letter (writer)
	digits   map[int64]int64 // 'x','u','U' -> number of hex digits
	letters  map[int64]bool  // every case constant of the escape switch
	bytesOnly map[int64]bool // letters whose case rejects `"` strings
}

func constInt(info *types.Info, e ast.Expr) (int64, bool) {
	tv, ok := info.Types[e]
	if !ok || tv.Value == nil {
		return 0, false
	}
	v := constant.ToInt(tv.Value)
	if v.Kind() != constant.Int {
		return 0, false
	}
	i, ok := constant.Int64Val(v)
	return i, ok
}

// firstAssignedConst returns the constant assigned to (or appended as) the
// first statement of a case body that matches pick.
func caseBodyConst(info *types.Info, body []ast.Stmt, pick func(ast.Stmt) ast.Expr) (int64, bool) {
	for _, st := range body {
		if e := pick(st); e != nil {
			return constInt(info, e)
		}
	}
	return 0, false
}

func mentionsQuoteTest(info *types.Info, body []ast.Stmt) bool {
	found := false
	for _, st := range body {
		ast.Inspect(st, func(n ast.Node) bool {
			if be, ok := n.(*ast.BinaryExpr); ok && be.Op == token.EQL {
				if v, ok := constInt(info, be.Y); ok && v == '"' {
					found = true
				}
			}
			return true
		})
	}
	return found
}

func escapeRules(c *Ctx) {
	// ---- writer: literal.(*Form).appendEscapedRune
	w := c.fn("cue/literal", "(*Form).appendEscapedRune")
	wi := w.Info()
	wt := escTable{simple: map[int64]int64{}, digits: map[int64]int64{}, letters: map[int64]bool{}}
	appendConst := func(st ast.Stmt) ast.Expr {
		as, ok := st.(*ast.AssignStmt)
		if !ok || len(as.Rhs) != 1 {
			return nil
		}
		call, ok := ast.Unparen(as.Rhs[0]).(*ast.CallExpr)
		if !ok || calleeName(wi, call) != "append" || len(call.Args) != 2 {
			return nil
		}
		return call.Args[1]
	}
	ast.Inspect(w.Body, func(n ast.Node) bool {
		cc, ok := n.(*ast.CaseClause)
		if !ok {
			return true
		}
		// simple escapes: case '\a': buf = append(buf, 'a')
		if len(cc.List) == 1 {
			if r, ok := constInt(wi, cc.List[0]); ok {
				if l, ok := caseBodyConst(wi, cc.Body, appendConst); ok {
					wt.simple[r] = l
					wt.letters[l] = true
				}
			}
		}
		// hex forms: first append is the letter, then either N appends of
		// lowerhex[...] or a loop `for s := K; s >= 0; s -= 4`
		if l, ok := caseBodyConst(wi, cc.Body, appendConst); ok && (l == 'x' || l == 'u' || l == 'U') {
			n := int64(0)
			for _, st := range cc.Body {
				switch s := st.(type) {
				case *ast.AssignStmt:
					if e := appendConst(s); e != nil {
						if _, isIdx := ast.Unparen(e).(*ast.IndexExpr); isIdx {
							n++
						}
					}
				case *ast.ForStmt:
					if init, ok := s.Init.(*ast.AssignStmt); ok && len(init.Rhs) == 1 {
						if k, ok := constInt(wi, init.Rhs[0]); ok {
							n = k/4 + 1
						}
					}
				}
			}
			wt.digits[l] = n
			wt.letters[l] = true
		}
		return true
	})

	// ---- reader: literal.unquoteChar — the switch over the escape letter
	r := c.fn("cue/literal", "unquoteChar")
	ri := r.Info()
	rt := escTable{simple: map[int64]int64{}, digits: map[int64]int64{}, letters: map[int64]bool{}, bytesOnly: map[int64]bool{}}
	valueConst := func(st ast.Stmt) ast.Expr {
		as, ok := st.(*ast.AssignStmt)
		if !ok || len(as.Lhs) != 1 || len(as.Rhs) != 1 {
			return nil
		}
		if id, ok := as.Lhs[0].(*ast.Ident); ok && id.Name == "value" {
			return as.Rhs[0]
		}
		return nil
	}
	ast.Inspect(r.Body, func(n ast.Node) bool {
		sw, ok := n.(*ast.SwitchStmt)
		if !ok || sw.Tag == nil {
			return true
		}
		// the escape switch is the tagged switch with a case 'n'
		isEsc := false
		for _, cl := range sw.Body.List {
			for _, e := range cl.(*ast.CaseClause).List {
				if v, ok := constInt(ri, e); ok && v == 'n' {
					isEsc = true
				}
			}
		}
		if !isEsc {
			// nested digit-count switch: case 'x': n = 2
			for _, cl := range sw.Body.List {
				cc := cl.(*ast.CaseClause)
				if len(cc.List) != 1 {
					continue
				}
				l, ok := constInt(ri, cc.List[0])
				if !ok || (l != 'x' && l != 'u' && l != 'U') {
					continue
				}
				for _, st := range cc.Body {
					if as, ok := st.(*ast.AssignStmt); ok && len(as.Rhs) == 1 {
						if id, ok := as.Lhs[0].(*ast.Ident); ok && id.Name == "n" {
							if k, ok := constInt(ri, as.Rhs[0]); ok {
								rt.digits[l] = k
							}
						}
					}
				}
			}
			return true
		}
		for _, cl := range sw.Body.List {
			cc := cl.(*ast.CaseClause)
			for _, e := range cc.List {
				l, ok := constInt(ri, e)
				if !ok {
					continue
				}
				rt.letters[l] = true
				if mentionsQuoteTest(ri, cc.Body) {
					rt.bytesOnly[l] = true
				}
				if len(cc.List) == 1 {
					if v, ok := caseBodyConst(ri, cc.Body, valueConst); ok {
						rt.simple[l] = v
					}
				}
			}
		}
		return true
	})

	// ---- scanner: scanner.(*Scanner).scanEscape
	s := c.fn("cue/scanner", "(*Scanner).scanEscape")
	si := s.Info()
	st := escTable{simple: map[int64]int64{}, digits: map[int64]int64{}, letters: map[int64]bool{}, bytesOnly: map[int64]bool{}}
	ast.Inspect(s.Body, func(n ast.Node) bool {
		sw, ok := n.(*ast.SwitchStmt)
		if !ok || sw.Tag == nil {
			return true
		}
		for _, cl := range sw.Body.List {
			cc := cl.(*ast.CaseClause)
			for _, e := range cc.List {
				l, ok := constInt(si, e)
				if !ok {
					continue
				}
				st.letters[l] = true
				if mentionsQuoteTest(si, cc.Body) {
					st.bytesOnly[l] = true
				}
				// n, base, max = 2, 16, 255
				for _, b := range cc.Body {
					if as, ok := b.(*ast.AssignStmt); ok && len(as.Lhs) == 3 && len(as.Rhs) == 3 {
						if id, ok := as.Lhs[0].(*ast.Ident); ok && id.Name == "n" {
							if k, ok := constInt(si, as.Rhs[0]); ok {
								st.digits[l] = k
							}
						}
					}
				}
			}
		}
		return true
	})

	ch := func(v int64) string { return fmt.Sprintf("%q", rune(v)) }
	// 1. writer -> reader is the inverse mapping
	if len(wt.simple) < 5 || len(rt.simple) < 5 || len(st.letters) < 8 {
		c.broken("anchor: escape tables could not be extracted (writer %d, reader %d, scanner %d entries)", len(wt.simple), len(rt.simple), len(st.letters))
	}
	var runes []int64
	for r := range wt.simple {
		runes = append(runes, r)
	}
	sort.Slice(runes, func(i, j int) bool { return runes[i] < runes[j] })
	for _, rn := range runes {
		l := wt.simple[rn]
		back, ok := rt.simple[l]
		c.check("escape.writer-reader-inverse", "rune"+ch(rn), w.Decl.Pos(), ok && back == rn,
			fmt.Sprintf("Form.appendEscapedRune writes %s as \\%s; unquoteChar must read \\%s back as %s (reads: %v %s)", ch(rn), ch(l), ch(l), ch(rn), ok, ch(back)))
		c.check("escape.scanner-accepts-written", "rune"+ch(rn), s.Decl.Pos(), st.letters[l],
			fmt.Sprintf("the scanner must accept the escape \\%s that the quoting writer emits", ch(l)))
	}
	// 2. hex digit counts agree in all three
	for _, l := range []int64{'x', 'u', 'U'} {
		okD := wt.digits[l] > 0 && wt.digits[l] == rt.digits[l] && rt.digits[l] == st.digits[l]
		c.check("escape.hex-digit-count", "\\"+string(rune(l)), w.Decl.Pos(), okD,
			fmt.Sprintf("\\%c: writer emits %d hex digits, unquoteChar reads %d, scanner scans %d — they must agree", rune(l), wt.digits[l], rt.digits[l], st.digits[l]))
	}
	// 3. reader and scanner accept the same alphabet (quote characters are
	// `quote.char` in the scanner and the two literal quotes in the reader)
	var diff []string
	for l := range rt.letters {
		if l == '\'' || l == '"' || l == '\r' || l == '\n' {
			continue // quote char is dynamic in the scanner; escaped newlines are handled by the multiline scanner
		}
		if !st.letters[l] {
			diff = append(diff, "reader-only "+ch(l))
		}
	}
	for l := range st.letters {
		if !rt.letters[l] {
			diff = append(diff, "scanner-only "+ch(l))
		}
	}
	sort.Strings(diff)
	c.check("escape.reader-scanner-same-alphabet", "cue/literal.unquoteChar~cue/scanner.scanEscape", r.Decl.Pos(), len(diff) == 0,
		"unquoteChar and scanEscape must accept the same escape letters; differences: "+strings.Join(diff, ", "))
	// 4. \x and octal are restricted to bytes literals on both sides
	for _, l := range []int64{'x', '0'} {
		c.check("escape.bytes-only-agree", "\\"+string(rune(l)), r.Decl.Pos(), rt.bytesOnly[l] && st.bytesOnly[l],
			fmt.Sprintf("\\%c escapes are only valid in bytes literals: both unquoteChar (%v) and scanEscape (%v) must reject them in \"-strings", rune(l), rt.bytesOnly[l], st.bytesOnly[l]))
	}
	c.expect("escape.writer-reader-inverse", 7)
}
