package main

import (
	"fmt"
	"go/ast"
	"go/token"
	"go/types"
	"strings"
)

// Copy-on-write discipline of structures that finalized (shared) vertices
// point to (C19).
//
// (1) adt.Environment: a conjunct of a finalized vertex carries a pointer to
// its Environment. Code that needs a variant (the dynamic label of a pattern
// match) copies the struct and writes the copy. Every assignment to one of the
// immutable fields must therefore have a local struct *value* as its base —
// never a pointer, a selector chain, or a parameter.
//
// (2) shallow copies of *Vertex (`x := *v`): the copy shares the backing arrays
// of v's slices. Re-slicing such a field (`x.F = x.F[:n]`) and appending, or
// appending to the un-replaced field, writes the shared array. A slice field of
// a shallow copy may only be replaced (make / literal / nil / another slice),
// never re-sliced in place.
func checkC19CopyOnWrite(c *Ctx) {
	p := c.pkg(adtP)
	envFields := map[string]bool{"Up": true, "Vertex": true, "DynamicLabel": true, "CompID": true}
	n := 0
	envOrd := map[string]int{}
	for _, f := range c.funcs(p) {
		info := f.Info()
		ast.Inspect(f.Body, func(x ast.Node) bool {
			var lhs []ast.Expr
			switch s := x.(type) {
			case *ast.AssignStmt:
				lhs = s.Lhs
			case *ast.IncDecStmt:
				lhs = []ast.Expr{s.X}
			}
			for _, l := range lhs {
				sel, ok := ast.Unparen(l).(*ast.SelectorExpr)
				if !ok || !envFields[sel.Sel.Name] {
					continue
				}
				fv, ok := info.Uses[sel.Sel].(*types.Var)
				if !ok || !fv.IsField() {
					continue
				}
				bt := info.TypeOf(sel.X)
				if bt == nil {
					continue
				}
				isPtr := false
				if pt, ok := bt.(*types.Pointer); ok {
					bt, isPtr = pt.Elem(), true
				}
				nt, ok := bt.(*types.Named)
				if !ok || nt.Obj().Name() != "Environment" || nt.Obj().Pkg() == nil || !strings.HasSuffix(nt.Obj().Pkg().Path(), adtP) {
					continue
				}
				n++
				envOrd[f.Name+sel.Sel.Name]++
				okw := false
				det := "base is " + exprString(sel.X)
				if id, isID := ast.Unparen(sel.X).(*ast.Ident); isID && !isPtr {
					if v, isVar := info.Uses[id].(*types.Var); isVar && !v.IsField() && v.Parent() != v.Pkg().Scope() && !isParamOf(f, v) {
						okw = true
					}
				}
				if id, isID := ast.Unparen(sel.X).(*ast.Ident); isID && isPtr {
					// a pointer that was just produced by a constructor of fresh Environments
					if def := singleDef(f, info.Uses[id]); def != nil {
						if call, isCall := ast.Unparen(def).(*ast.CallExpr); isCall && c19FreshEnvCtor(c, calleeName(info, call), 0) {
							okw = true
							det = "base is the fresh Environment returned by " + calleeName(info, call)
						}
					}
				}
				c.check("cow.environment-written-on-copy", fmt.Sprintf("%s#%s%d", f.Name, sel.Sel.Name, envOrd[f.Name+sel.Sel.Name]), l.Pos(), okw,
					"adt.Environment."+sel.Sel.Name+" may be assigned only on a local value copy of the Environment (`e := *env; e."+sel.Sel.Name+" = …; c.Env = &e`): the Environment a conjunct points to is shared with finalized vertices that other goroutines read; "+det)
			}
			return true
		})
	}
	c.expect("cow.environment-written-on-copy", 4)

	// (2) shallow copies of Vertex
	m := 0
	ord := map[string]int{}
	next := func(fn, fld, kind string) int { ord[fn+"/"+fld+"/"+kind]++; return ord[fn+"/"+fld+"/"+kind] }
	for _, pk := range []string{adtP, "cue", "internal/core/export", "internal/value"} {
		pp := c.pkgOpt(pk)
		if pp == nil {
			continue
		}
		for _, f := range c.funcs(pp) {
			info := f.Info()
			// locals defined by dereferencing a *Vertex
			copies := map[types.Object]bool{}
			ptrTo := map[types.Object]types.Object{} // w := &x
			ast.Inspect(f.Body, func(x ast.Node) bool {
				as, ok := x.(*ast.AssignStmt)
				if !ok || len(as.Lhs) != len(as.Rhs) {
					return true
				}
				for i, r := range as.Rhs {
					lo := identObj(info, as.Lhs[i])
					if lo == nil {
						continue
					}
					switch y := ast.Unparen(r).(type) {
					case *ast.StarExpr:
						if t := info.TypeOf(y); t != nil {
							// any struct of the evaluator's data model (Vertex, Disjunction, Conjunction, ...)
							if nt, ok := t.(*types.Named); ok && nt.Obj().Pkg() != nil && strings.HasSuffix(nt.Obj().Pkg().Path(), adtP) {
								if _, isStruct := nt.Underlying().(*types.Struct); isStruct {
									copies[lo] = true
								}
							}
						}
					case *ast.UnaryExpr:
						if y.Op == token.AND {
							if o := identObj(info, y.X); o != nil && copies[o] {
								ptrTo[lo] = o
							}
						}
					}
				}
				return true
			})
			if len(copies) == 0 {
				continue
			}
			isCopy := func(e ast.Expr) bool {
				o := identObj(info, e)
				return o != nil && (copies[o] || ptrTo[o] != nil)
			}
			// element writes through a slice field of the copy: the field must
			// have been replaced by a fresh slice, not by an alias of the
			// original's backing array (v.F, v.F[:n], slices.Clip(v.F))
			srcOf := map[types.Object]bool{} // the *Vertex variables that were dereferenced
			ast.Inspect(f.Body, func(x ast.Node) bool {
				if as, ok := x.(*ast.AssignStmt); ok && len(as.Lhs) == len(as.Rhs) {
					for i, r := range as.Rhs {
						if st, ok := ast.Unparen(r).(*ast.StarExpr); ok {
							if lo := identObj(info, as.Lhs[i]); lo != nil && copies[lo] {
								if so := identObj(info, st.X); so != nil {
									srcOf[so] = true
								}
							}
						}
					}
				}
				return true
			})
			aliasLocals := map[string]map[types.Object]bool{}
			// slice field names that occur on the source or a copy in this function
			var sliceFields []string
			{
				seenF := map[string]bool{}
				ast.Inspect(f.Body, func(z ast.Node) bool {
					if s2, ok := z.(*ast.SelectorExpr); ok {
						if o := identObj(info, s2.X); o != nil && (srcOf[o] || copies[o] || ptrTo[o] != nil) {
							if t := info.TypeOf(s2); t != nil {
								if _, isSlice := t.Underlying().(*types.Slice); isSlice && !seenF[s2.Sel.Name] {
									seenF[s2.Sel.Name] = true
									sliceFields = append(sliceFields, s2.Sel.Name)
								}
							}
						}
					}
					return true
				})
			}
			var isFresh func(e ast.Expr, fld string) bool
			isFresh = func(e ast.Expr, fld string) bool {
				e = ast.Unparen(e)
				if isNilIdent(e) {
					return true
				}
				switch y := e.(type) {
				case *ast.CompositeLit:
					return true
				case *ast.CallExpr:
					switch exprString(y.Fun) {
					case "make", "slices.Clone":
						return true
					case "append":
						if len(y.Args) > 0 {
							first := ast.Unparen(y.Args[0])
							if cl, ok := first.(*ast.CompositeLit); ok && len(cl.Elts) == 0 {
								return true
							}
							if cv, ok := first.(*ast.CallExpr); ok && len(cv.Args) == 1 && isNilIdent(cv.Args[0]) {
								return true
							}
						}
					}
				}
				// anything that mentions the same field of the source or of a copy
				// (directly or through a local that was assigned from it) aliases it
				alias := false
				ast.Inspect(e, func(z ast.Node) bool {
					switch s2 := z.(type) {
					case *ast.SelectorExpr:
						if s2.Sel.Name == fld {
							if o := identObj(info, s2.X); o != nil && (srcOf[o] || copies[o] || ptrTo[o] != nil) {
								alias = true
							}
						}
					case *ast.Ident:
						if o := info.Uses[s2]; o != nil && aliasLocals[fld][o] {
							alias = true
						}
					}
					return true
				})
				return !alias
			}
			// locals that alias a slice field of the source: v := x.F; v = v[:n]
			for round := 0; round < 3; round++ {
				ast.Inspect(f.Body, func(x ast.Node) bool {
					as, ok := x.(*ast.AssignStmt)
					if !ok || len(as.Lhs) != len(as.Rhs) {
						return true
					}
					for i, l := range as.Lhs {
						id, isID := l.(*ast.Ident)
						if !isID {
							continue
						}
						lo := identObj(info, id)
						if lo == nil {
							continue
						}
						if _, isSlice := info.TypeOf(as.Rhs[i]).Underlying().(*types.Slice); !isSlice {
							continue
						}
						for _, fld := range sliceFields {
							if !isFresh(as.Rhs[i], fld) {
								if aliasLocals[fld] == nil {
									aliasLocals[fld] = map[types.Object]bool{}
								}
								aliasLocals[fld][lo] = true
							}
						}
					}
					return true
				})
			}
			fieldFresh := map[string]bool{}
			fieldAssigned := map[string]bool{}
			ast.Inspect(f.Body, func(x ast.Node) bool {
				as, ok := x.(*ast.AssignStmt)
				if !ok || len(as.Lhs) != len(as.Rhs) {
					return true
				}
				for i, l := range as.Lhs {
					if sel, ok := ast.Unparen(l).(*ast.SelectorExpr); ok && isCopy(sel.X) {
						if _, isSlice := info.TypeOf(sel).Underlying().(*types.Slice); isSlice {
							fresh := isFresh(as.Rhs[i], sel.Sel.Name)
							if !fieldAssigned[sel.Sel.Name] {
								fieldFresh[sel.Sel.Name] = fresh
							} else {
								fieldFresh[sel.Sel.Name] = fieldFresh[sel.Sel.Name] && fresh
							}
							fieldAssigned[sel.Sel.Name] = true
						}
					}
				}
				return true
			})
			ast.Inspect(f.Body, func(x ast.Node) bool {
				as, ok := x.(*ast.AssignStmt)
				if !ok {
					return true
				}
				for _, l := range as.Lhs {
					// w.F[i] = ... or w.F[i].g = ...
					var ix *ast.IndexExpr
					for e := ast.Unparen(l); ; {
						if i2, ok := e.(*ast.IndexExpr); ok {
							ix = i2
							break
						}
						if s2, ok := e.(*ast.SelectorExpr); ok {
							e = ast.Unparen(s2.X)
							continue
						}
						break
					}
					if ix == nil {
						continue
					}
					sel, ok := ast.Unparen(ix.X).(*ast.SelectorExpr)
					if !ok || !isCopy(sel.X) {
						continue
					}
					if _, isSlice := info.TypeOf(sel).Underlying().(*types.Slice); !isSlice {
						continue
					}
					m++
					okw := fieldAssigned[sel.Sel.Name] && fieldFresh[sel.Sel.Name]
					c.check("cow.vertex-copy-elements-written-on-own-array", fmt.Sprintf("%s#%s%d", f.Name, sel.Sel.Name, next(f.Name, sel.Sel.Name, "w")), l.Pos(), okw,
						"an element of a slice field of a shallow copy of an adt struct is written: the field must first be replaced by a fresh slice (make / slices.Clone / append to an empty slice); `slices.Clip(v."+sel.Sel.Name+")`, `v."+sel.Sel.Name+"[:n]` or the inherited field share the original's backing array, so the write modifies the shared (possibly finalized) vertex under other goroutines' reads")
				}
				return true
			})
			ast.Inspect(f.Body, func(x ast.Node) bool {
				as, ok := x.(*ast.AssignStmt)
				if !ok || len(as.Lhs) != len(as.Rhs) {
					return true
				}
				for i, l := range as.Lhs {
					sel, ok := ast.Unparen(l).(*ast.SelectorExpr)
					if !ok || !isCopy(sel.X) {
						continue
					}
					if _, isSlice := info.TypeOf(sel).Underlying().(*types.Slice); !isSlice {
						continue
					}
					m++
					// right-hand side must not re-slice the same field
					bad := false
					ast.Inspect(as.Rhs[i], func(y ast.Node) bool {
						if se, ok := y.(*ast.SliceExpr); ok {
							if s2, ok := ast.Unparen(se.X).(*ast.SelectorExpr); ok && s2.Sel.Name == sel.Sel.Name && isCopy(s2.X) {
								bad = true
							}
						}
						return true
					})
					c.check("cow.vertex-copy-slices-replaced", fmt.Sprintf("%s#%s%d", f.Name, sel.Sel.Name, next(f.Name, sel.Sel.Name, "r")), l.Pos(), !bad,
						"a shallow copy of an adt struct (`x := *v`) shares v's slice backing arrays: its slice fields may be replaced but not re-sliced in place (`x."+sel.Sel.Name+" = x."+sel.Sel.Name+"[:0]` followed by append overwrites the shared vertex's elements)")
				}
				return true
			})
		}
	}
	c.expect("cow.vertex-copy-slices-replaced", 1)
}

// c19FreshEnvCtor: every return of the function is `&Environment{...}` or a
// call of such a function.
func c19FreshEnvCtor(c *Ctx, callee string, depth int) bool {
	if depth > 3 || !strings.HasPrefix(callee, adtP+".") {
		return false
	}
	f := c.fnOpt(adtP, strings.TrimPrefix(callee, adtP+"."))
	if f == nil {
		return false
	}
	ok, n := true, 0
	ast.Inspect(f.Body, func(x ast.Node) bool {
		if _, isLit := x.(*ast.FuncLit); isLit {
			return false
		}
		rs, isRet := x.(*ast.ReturnStmt)
		if !isRet {
			return true
		}
		n++
		if len(rs.Results) != 1 {
			ok = false
			return true
		}
		switch y := ast.Unparen(rs.Results[0]).(type) {
		case *ast.UnaryExpr:
			cl, isCL := y.X.(*ast.CompositeLit)
			if y.Op != token.AND || !isCL || !strings.HasSuffix(exprString(cl.Type), "Environment") {
				ok = false
			}
		case *ast.CallExpr:
			if !c19FreshEnvCtor(c, calleeName(f.Info(), y), depth+1) {
				ok = false
			}
		default:
			ok = false
		}
		return true
	})
	return ok && n > 0
}

// checkC19ValueAppend: API value types of package cue (Path, Value, Selector,
// ...) are passed by value and may be shared freely. A method or function
// that builds a new value by `append(x.f, ...)`, where x is a parameter or a
// value receiver, writes into x's backing array whenever it has spare
// capacity: two results derived from the same x then overwrite each other
// (and race when derived concurrently). The slice must be clipped or cloned
// first (`slices.Clip(x.f)`, `x.f[:n:n]`, `slices.Clone`, append to a fresh
// slice) unless the result is stored back into x.f itself through a pointer
// receiver.
func checkC19ValueAppend(c *Ctx) {
	p := c.pkg("cue")
	n := 0
	for _, f := range c.funcs(p) {
		if f.Lit != nil {
			continue
		}
		info := f.Info()
		ast.Inspect(f.Body, func(x ast.Node) bool {
			call, ok := x.(*ast.CallExpr)
			if !ok || exprString(call.Fun) != "append" || len(call.Args) < 2 {
				return true
			}
			if _, isBuiltin := info.Uses[identOf(call.Fun)].(*types.Builtin); !isBuiltin {
				return true
			}
			first := ast.Unparen(call.Args[0])
			protected := false
			switch y := first.(type) {
			case *ast.CallExpr: // slices.Clip(x.f) / slices.Clone(x.f)
				if fn := exprString(y.Fun); (fn == "slices.Clip" || fn == "slices.Clone") && len(y.Args) == 1 {
					first, protected = ast.Unparen(y.Args[0]), true
				}
			case *ast.SliceExpr: // x.f[:n:n]
				if y.Slice3 {
					first, protected = ast.Unparen(y.X), true
				}
			}
			sel, ok := first.(*ast.SelectorExpr)
			if !ok {
				return true
			}
			base := identObj(info, sel.X)
			v, isVar := base.(*types.Var)
			if !isVar || !isParamOrRecv(f, v) {
				return true
			}
			// value (non-pointer) parameter or receiver of a struct type declared in package cue
			nt, ok := v.Type().(*types.Named)
			if !ok || nt.Obj().Pkg() == nil || nt.Obj().Pkg().Path() != p.PkgPath {
				return true
			}
			n++
			c.check("values.no-append-to-shared-backing", fmt.Sprintf("%s#append%d", f.Name, n), call.Pos(), protected,
				"append("+exprString(call.Args[0])+", …) on a by-value "+nt.Obj().Name()+": if the slice has spare capacity the new value shares and overwrites the backing array of every other value derived from the same "+nt.Obj().Name()+" (p.Append(x) changes after p.Append(y)); clip or clone the slice first")
			return true
		})
	}
	// the pattern must keep matching (Path.Append, clipped): a rule that matches nothing passes vacuously
	c.expect("values.no-append-to-shared-backing", 1)
}

func isParamOrRecv(f *Fn, v *types.Var) bool {
	if isParamOf(f, v) {
		return true
	}
	if f.Decl != nil && f.Decl.Recv != nil {
		for _, fl := range f.Decl.Recv.List {
			for _, nm := range fl.Names {
				if f.Info().Defs[nm] == types.Object(v) {
					return true
				}
			}
		}
	}
	return false
}

// checkC19LazyFinalize: the finalization of a struct does not finalize the
// vertices of its pattern constraints (PatternConstraint.Constraint); they stay
// unevaluated inside the shared, finalized parent. An API read method that
// calls Finalize on such a vertex evaluates it *in place*: two goroutines
// iterating the same value race in the evaluator (getBareState / unify).
func checkC19LazyFinalize(c *Ctx) {
	p := c.pkg("cue")
	n := 0
	for _, f := range c.funcs(p) {
		info := f.Info()
		k := 0
		ast.Inspect(f.Body, func(x ast.Node) bool {
			call, ok := x.(*ast.CallExpr)
			if !ok || calleeName(info, call) != adtP+".(*Vertex).Finalize" {
				return true
			}
			fun, ok := ast.Unparen(call.Fun).(*ast.SelectorExpr)
			if !ok {
				return true
			}
			recv, ok := ast.Unparen(fun.X).(*ast.SelectorExpr)
			if !ok || recv.Sel.Name != "Constraint" {
				return true
			}
			fv, ok := info.Uses[recv.Sel].(*types.Var)
			if !ok || !fv.IsField() {
				return true
			}
			t := info.TypeOf(recv.X)
			if pt, isPtr := t.(*types.Pointer); isPtr {
				t = pt.Elem()
			}
			nt, ok := t.(*types.Named)
			if !ok || nt.Obj().Name() != "PatternConstraint" {
				return true
			}
			n++
			k++
			c.check("finalize.no-lazy-finalize-of-pattern-constraints", fmt.Sprintf("%s#%d", f.Name, k), call.Pos(), false,
				"the vertex of a pattern constraint belongs to the shared parent value and is not finalized with it; finalizing it here, in an API read path, evaluates shared state in place (data race between goroutines that iterate the same value with cue.Patterns(true))")
			return true
		})
	}
	c.note("finalize.no-lazy-finalize-of-pattern-constraints: %d sites", n)
}

// checkC19AssertedVertexNotWritten: Go values are converted into CUE by
// internal/core/convert; a cue.Value nested in the Go data arrives there as an
// adt.Value interface holding the *adt.Vertex of that value — a vertex the
// caller still shares with every other goroutine using the value. Such a
// vertex may be copied (`a := *arc`) but not written: a field assignment or a
// mutating method call through a variable bound by a type assertion (or type
// switch) to *adt.Vertex is an in-place write to shared structure.
func checkC19AssertedVertexNotWritten(c *Ctx) {
	const rule = "cow.asserted-vertex-not-written"
	mutators := map[string]bool{"AddConjunct": true, "SetValue": true, "ForceDone": true, "InsertConjunct": true, "AddStruct": true,
		"UpdateStatus": true, "Finalize": true, "CompleteArcs": true, "AddErr": true, "SetRealArc": true, "MatchAndInsert": true}
	nBound := 0
	for _, pr := range []string{"internal/core/convert"} {
		p := c.pkg(pr)
		for _, f := range c.funcs(p) {
			info := f.Info()
			isVertexPtr := func(t types.Type) bool {
				pt, ok := t.(*types.Pointer)
				if !ok {
					return false
				}
				n, ok := types.Unalias(pt.Elem()).(*types.Named)
				return ok && n.Obj().Name() == "Vertex" && n.Obj().Pkg() != nil && strings.HasSuffix(n.Obj().Pkg().Path(), adtP)
			}
			bound := map[types.Object]token.Pos{}
			ast.Inspect(f.Body, func(x ast.Node) bool {
				switch s := x.(type) {
				case *ast.AssignStmt:
					if len(s.Rhs) == 1 {
						if ta, ok := ast.Unparen(s.Rhs[0]).(*ast.TypeAssertExpr); ok && ta.Type != nil && isVertexPtr(info.TypeOf(ta.Type)) {
							if o := identObj(info, s.Lhs[0]); o != nil {
								bound[o] = s.Pos()
							}
						}
					}
				case *ast.TypeSwitchStmt:
					for _, cl := range s.Body.List {
						cc := cl.(*ast.CaseClause)
						if o := info.Implicits[cc]; o != nil && isVertexPtr(o.Type()) {
							bound[o] = cc.Pos()
						}
					}
				}
				return true
			})
			if len(bound) == 0 {
				continue
			}
			nBound += len(bound)
			rootObj := func(e ast.Expr) types.Object {
				for {
					switch x := ast.Unparen(e).(type) {
					case *ast.SelectorExpr:
						e = x.X
					case *ast.IndexExpr:
						e = x.X
					case *ast.StarExpr:
						e = x.X
					case *ast.Ident:
						return info.ObjectOf(x)
					default:
						return nil
					}
				}
			}
			var bad []string
			var pos token.Pos
			ast.Inspect(f.Body, func(x ast.Node) bool {
				switch s := x.(type) {
				case *ast.AssignStmt:
					for _, l := range s.Lhs {
						if _, isIdent := ast.Unparen(l).(*ast.Ident); isIdent {
							continue
						}
						if o := rootObj(l); o != nil {
							if _, ok := bound[o]; ok {
								bad = append(bad, exprString(l)+" is assigned")
								pos = s.Pos()
							}
						}
					}
				case *ast.IncDecStmt:
					if o := rootObj(s.X); o != nil {
						if _, ok := bound[o]; ok {
							bad = append(bad, exprString(s.X)+" is modified")
							pos = s.Pos()
						}
					}
				case *ast.CallExpr:
					if sel, ok := s.Fun.(*ast.SelectorExpr); ok && mutators[sel.Sel.Name] {
						if id, ok := ast.Unparen(sel.X).(*ast.Ident); ok {
							if _, isB := bound[info.ObjectOf(id)]; isB {
								bad = append(bad, exprString(s.Fun)+" is called")
								pos = s.Pos()
							}
						}
					}
				}
				return true
			})
			if pos == token.NoPos {
				for _, bp := range bound {
					pos = bp
				}
			}
			c.check(rule, f.Name, pos, len(bad) == 0,
				fmt.Sprintf("a *adt.Vertex obtained by type assertion from an incoming adt.Value is the vertex of a cue.Value the caller still shares; it may be copied but not written in place (%s)", strings.Join(bad, "; ")))
		}
	}
	c.check(rule, "scan-coverage", token.NoPos, nBound >= 2,
		fmt.Sprintf("the scan found %d variables bound to an incoming *adt.Vertex in internal/core/convert (expected at least 2)", nBound))
}
