package main

import (
	"fmt"
	"go/ast"
	"go/constant"
	"go/token"
	"go/types"
	"sort"
	"strings"
)

func init() {
	register(&propCheck{
		id:   "C15",
		pkgs: []string{"mod/modzip", "mod/module"},
		run:  checkC15,
		about: "C15 (module archives round-trip and never write outside their directory): decides that (a) every file-system mutation of modzip.Unzip lies behind the success of CheckZip and cf.Err and writes filepath.Join(dir, <name of an entry CheckZip iterated>); " +
			"(b) in CheckZip and checkFiles every archive entry reaches the Valid list only past each gating check (clean path, CheckFilePath, local-module, collision, cue.mod placement/case, size limits), whose rejecting edge skips the entry; " +
			"(c) the only file-creating calls of package modzip are os.MkdirAll and os.OpenFile with O_CREATE|O_EXCL and no O_TRUNC/O_APPEND; (d) declared sizes are enforced by a LimitedReader(N=size+1) whose exhaustion test stands before every success; " +
			"(e) the sibling checkers carry the same obligations and CheckedFiles.Err consults every recorded error; (f) the CheckFilePath -> checkPath -> checkElem chain rejects on each of its tests.",
		trust: []string{"archive/zip, io.LimitedReader, os.OpenFile(O_EXCL) semantics", "which characters fileNameOK admits is value-level and left to tests"},
	})
}

const mz = "mod/modzip."

func checkC15(c *Ctx) {
	c15FoldFixpoint(c)
	// errcheck-style baseline: a newly discarded error in the package is a dropped protocol/validation step
	c.checkErrorDiscipline("errors.no-new-dropped-error", "mod/modzip", map[string]string{
		"Unzip|os.ReadDir": "a directory that cannot be listed is treated as empty; creation then fails with O_EXCL if it is not",
		"Unzip|os.(*File).Close": "closing on an error path (the error already being returned)",
		"Unzip|io.Closer.Close": "closing the zip entry reader after the copy (read side)",
	})
	c15Unzip(c)
	c15Checker(c, c.fn("mod/modzip", "CheckZip"), true)
	c15Checker(c, c.fn("mod/modzip", "checkFiles"), false)
	c15Creation(c)
	c15Sizes(c)
	c15Err(c)
	c15Create(c)
	c15PathChain(c)
	c15SpecialNamesFolded(c)
	c15ZipDirEntries(c)
	c15SubmoduleMarking(c)
	c.expect("unzip.mutation-gated", 3)
	c.expect("checker.gate", 12)
	c.expect("creation.open-flags", 1)
	c.expect("size.limited-reader", 2)
	c.expect("pathchain.gate", 6)
}

func c15Unzip(c *Ctx) {
	f := c.fn("mod/modzip", "Unzip")
	g := c.graph(f)
	info := f.Info()
	checkZip := g.callNodes(mz + "CheckZip")
	cfErr := g.callNodes(mz + "CheckedFiles.Err")
	muts := g.callNodes("os.MkdirAll", "os.OpenFile", "os.Create", "os.WriteFile", "os.Mkdir")
	if len(muts) == 0 {
		c.broken("anchor: Unzip performs no file-system mutation any more")
	}
	// CheckZip itself may already return cf.Err() as its error, in which case a
	// second cf.Err() test in Unzip is redundant (either suffices).
	zipReturnsErr := c15CheckZipReturnsErr(c)
	ids := keys(muts)
	for i, id := range ids {
		name := fmt.Sprintf("%s#%s%d", f.Name, strings.TrimPrefix(calleeName(info, muts[id]), "os."), i+1)
		b1, s1 := g.onlyAfterSuccess(checkZip, []int{id})
		b2, s2 := g.onlyAfterSuccess(cfErr, []int{id})
		okErr := zipReturnsErr || (len(cfErr) > 0 && len(b2) == 0)
		c.check("unzip.mutation-gated", name, g.pos(id), len(checkZip) > 0 && len(b1) == 0 && okErr,
			fmt.Sprintf("every mutation in Unzip must follow a successful CheckZip [%s] whose error includes cf.Err() (CheckZip returns cf.Err(): %v) or a nil cf.Err() in Unzip [%s]", maskStr(s1), zipReturnsErr, maskStr(s2)))
	}
	// the CheckedFiles whose Err() is consulted is the one CheckZip returned,
	// and the reader whose File list is extracted is the one CheckZip returned.
	var zVar, cfVar types.Object
	for id, call := range checkZip {
		if as, ok := g.Nodes[id].N.(*ast.AssignStmt); ok && len(as.Lhs) == 4 && ast.Unparen(as.Rhs[0]) == call {
			zVar = identObj(info, as.Lhs[0])
			cfVar = identObj(info, as.Lhs[2])
		}
	}
	okCf := false
	for _, call := range cfErr {
		if sel, ok := ast.Unparen(call.Fun).(*ast.SelectorExpr); ok && cfVar != nil && identObj(info, sel.X) == cfVar {
			okCf = true
		}
	}
	c.check("unzip.err-of-checked-files", f.Name, f.Body.Pos(), okCf || (zipReturnsErr && len(cfErr) == 0), "cf.Err() must be called on the CheckedFiles returned by CheckZip")

	// What CheckZip treats as a directory entry (skipping the size limits and
	// the Valid list) must be what Unzip skips: otherwise an entry is
	// extracted without having been size-checked.
	c15DirPredicateAgrees(c, f, zVar)

	// destination = filepath.Join(dir, name) where name comes from ranging z.File
	head, _, rs := g.rangeLoop(func(rs *ast.RangeStmt) bool {
		sel, ok := ast.Unparen(rs.X).(*ast.SelectorExpr)
		return ok && sel.Sel.Name == "File" && zVar != nil && identObj(info, sel.X) == zVar
	})
	if !c.check("unzip.extracts-checked-entries", f.Name, f.Body.Pos(), head >= 0, "Unzip must iterate the File list of the zip.Reader returned by CheckZip") {
		return
	}
	zf := identObj(info, rs.Value)
	dirParam := info.Defs[f.Type.Params.List[0].Names[0]]
	for id, call := range muts {
		nm := calleeName(info, call)
		if nm != "os.OpenFile" && nm != "os.Create" && nm != "os.WriteFile" {
			continue
		}
		ok := c15DstIsJoin(c, f, call.Args[0], dirParam, zf)
		c.check("unzip.destination-under-dir", fmt.Sprintf("%s#%s", f.Name, nm), g.pos(id), ok,
			"the file created must be filepath.Join(dir, <entry>.Name) for the entry being extracted (a checked name under the target directory)")
	}
}

// c15DirPredicateAgrees compares the definition of CheckZip's isDir (the
// value handed to collisions.check and tested before the size accounting)
// with the condition under which Unzip skips an entry.
func c15DirPredicateAgrees(c *Ctx, unzip *Fn, zVar types.Object) {
	cz := c.fn("mod/modzip", "CheckZip")
	ci := cz.Info()
	// canonical form with the loop variable's Name field as the only free term
	var canon func(f *Fn, e ast.Expr, d int) string
	canon = func(f *Fn, e ast.Expr, d int) string {
		info := f.Info()
		e = ast.Unparen(e)
		if tv, ok := info.Types[e]; ok && tv.Value != nil {
			return tv.Value.ExactString()
		}
		switch x := e.(type) {
		case *ast.Ident:
			o := identObj(info, x)
			var def ast.Expr
			n := 0
			ast.Inspect(f.Body, func(nd ast.Node) bool {
				if as, ok := nd.(*ast.AssignStmt); ok && as.Tok.String() == ":=" {
					for i, l := range as.Lhs {
						if identObj(info, l) == o && len(as.Rhs) == len(as.Lhs) {
							def = as.Rhs[i]
							n++
						}
					}
				}
				return true
			})
			if n == 1 && d < 5 {
				return canon(f, def, d+1)
			}
			return x.Name
		case *ast.SelectorExpr:
			if t := info.TypeOf(x.X); t != nil && strings.HasSuffix(typeKey(t), "archive/zip.File") {
				return "ENTRY." + x.Sel.Name
			}
			return canon(f, x.X, d+1) + "." + x.Sel.Name
		case *ast.CallExpr:
			var args []string
			for _, a := range x.Args {
				args = append(args, canon(f, a, d+1))
			}
			nm := calleeName(info, x)
			if nm == "" {
				nm = canon(f, x.Fun, d+1)
			}
			if sel, ok := ast.Unparen(x.Fun).(*ast.SelectorExpr); ok {
				if s := info.Selections[sel]; s != nil {
					args = append([]string{canon(f, sel.X, d+1)}, args...)
				}
			}
			return nm + "(" + strings.Join(args, ",") + ")"
		}
		return exprString(e)
	}
	var isDirDef string
	ast.Inspect(cz.Body, func(n ast.Node) bool {
		call, ok := n.(*ast.CallExpr)
		if ok && calleeName(ci, call) == mz+"collisionChecker.check" && len(call.Args) == 2 {
			isDirDef = canon(cz, call.Args[1], 0)
		}
		return true
	})
	// Unzip: the condition of the `continue` at the top of the extraction loop
	var skip []string
	ui := unzip.Info()
	ast.Inspect(unzip.Body, func(n ast.Node) bool {
		rs, ok := n.(*ast.RangeStmt)
		if !ok {
			return true
		}
		sel, ok := ast.Unparen(rs.X).(*ast.SelectorExpr)
		if !ok || sel.Sel.Name != "File" || identObj(ui, sel.X) != zVar {
			return true
		}
		for _, st := range rs.Body.List {
			ifs, ok := st.(*ast.IfStmt)
			if !ok || len(ifs.Body.List) != 1 {
				continue
			}
			if br, ok := ifs.Body.List[0].(*ast.BranchStmt); !ok || br.Tok.String() != "continue" {
				continue
			}
			var split func(e ast.Expr)
			split = func(e ast.Expr) {
				e = ast.Unparen(e)
				if be, ok := e.(*ast.BinaryExpr); ok && be.Op.String() == "||" {
					split(be.X)
					split(be.Y)
					return
				}
				skip = append(skip, canon(unzip, e, 0))
			}
			split(ifs.Cond)
		}
		return true
	})
	ok := isDirDef != "" && len(skip) > 0
	found := false
	for _, sk := range skip {
		if sk == isDirDef {
			found = true
		}
	}
	c.check("unzip.dir-predicate-agrees", unzip.Name, unzip.Body.Pos(), ok && found,
		fmt.Sprintf("CheckZip classifies an entry as a directory by %s (no size limits, not in Valid); Unzip must skip exactly such entries, it skips on %v", isDirDef, skip))
}

// c15CheckZipReturnsErr: every return of CheckZip after its validation loop
// returns cf.Err() in the error position.
func c15CheckZipReturnsErr(c *Ctx) bool {
	f := c.fn("mod/modzip", "CheckZip")
	g := c.graph(f)
	head := -1
	for _, n := range g.Nodes {
		if n.Kind.String() == "RangeLoop" {
			head = n.ID
		}
	}
	if head < 0 {
		return false
	}
	after := g.reachableFrom(head)
	n := 0
	for _, r := range g.returns() {
		if !after[r] {
			continue
		}
		ret := g.Nodes[r].N.(*ast.ReturnStmt)
		if len(ret.Results) == 0 {
			return false
		}
		call, ok := ast.Unparen(ret.Results[len(ret.Results)-1]).(*ast.CallExpr)
		if !ok || calleeName(f.Info(), call) != mz+"CheckedFiles.Err" {
			return false
		}
		n++
	}
	return n > 0
}

// c15DstIsJoin: e (through local variables) is filepath.Join(dirParam, X) where X derives from zf.Name.
func c15DstIsJoin(c *Ctx, f *Fn, e ast.Expr, dir types.Object, zf types.Object) bool {
	info := f.Info()
	var resolve func(e ast.Expr, d int) ast.Expr
	resolve = func(e ast.Expr, d int) ast.Expr {
		e = ast.Unparen(e)
		id, ok := e.(*ast.Ident)
		if !ok || d > 4 {
			return e
		}
		o := identObj(info, id)
		var rhs ast.Expr
		n := 0
		ast.Inspect(f.Body, func(nd ast.Node) bool {
			if as, ok := nd.(*ast.AssignStmt); ok {
				for i, l := range as.Lhs {
					if identObj(info, l) == o && len(as.Rhs) == len(as.Lhs) {
						rhs = as.Rhs[i]
						n++
					}
				}
			}
			return true
		})
		if n == 1 {
			return resolve(rhs, d+1)
		}
		return e
	}
	call, ok := resolve(e, 0).(*ast.CallExpr)
	if !ok || calleeName(info, call) != "path/filepath.Join" || len(call.Args) != 2 {
		return false
	}
	if identObj(info, call.Args[0]) != dir {
		return false
	}
	nameE := resolve(call.Args[1], 0)
	sel, ok := ast.Unparen(nameE).(*ast.SelectorExpr)
	return ok && sel.Sel.Name == "Name" && identObj(info, sel.X) == zf
}

// c15Checker: gating obligations of the two sibling validation loops.
func c15Checker(c *Ctx, f *Fn, isZip bool) {
	g := c.graph(f)
	info := f.Info()
	// accept = append to cf.Valid
	accept := setOf(g.find(func(n ast.Node) bool {
		as, ok := n.(*ast.AssignStmt)
		if !ok || len(as.Lhs) != 1 {
			return false
		}
		sel, ok := ast.Unparen(as.Lhs[0]).(*ast.SelectorExpr)
		return ok && sel.Sel.Name == "Valid"
	}))
	// the validation loop is the range loop that contains the accept node
	var head, body int = -1, -1
	for _, n := range g.Nodes {
		rs, ok := n.Stmt.(*ast.RangeStmt)
		if !ok || n.Kind.String() != "RangeLoop" {
			continue
		}
		for a := range accept {
			p := g.pos(a)
			if rs.Body.Pos() <= p && p <= rs.Body.End() {
				head = n.ID
				_, body, _ = g.rangeLoop(func(x *ast.RangeStmt) bool { return x == rs })
			}
		}
	}
	if !c.check("checker.shape", f.Name, f.Body.Pos(), len(accept) == 1 && head >= 0 && body >= 0,
		"the checker must have one validation loop that appends accepted names to cf.Valid") {
		return
	}
	barrier := map[int]bool{head: true}
	type gateSpec struct {
		name     string
		m        atomMatcher
		mustEval bool // the guard must be evaluated on every path to accept (unconditional guard)
		why      string
	}
	limit := func(name string) func(ast.Expr) bool {
		return func(e ast.Expr) bool { return mentionsObj(info, e, mz+name) }
	}
	// error variables of the gating calls
	errVarOf := func(callee string) types.Object {
		for id, call := range g.callNodes(callee) {
			v, _ := errVarOfCall(info, g.Nodes[id].N, call)
			return v
		}
		return nil
	}
	gates := []gateSpec{
		{"clean-path", atomEqCallIn(f, info, "path.Clean"), true, "a name that is not path.Clean'ed (.., ./, //) must be rejected"},
		{"check-file-path", atomErrVar(info, errVarOf("mod/module.CheckFilePath")), true, "module.CheckFilePath must accept the name"},
		{"local-module", atomEqOrFoldConst(info, "cue.mod/local-module.cue"), true, "cue.mod/local-module.cue is never part of a module"},
		{"collision", atomErrVar(info, errVarOf(mz+"collisionChecker.check")), true, "case-fold / file-vs-directory collisions must be rejected"},
		{"module-cue-case", c15ModuleCueCase(info), false, "a case variant of cue.mod/module.cue must be rejected"},
		{"max-cue-mod", atomOverLimit(info, limit("MaxCUEMod")), false, "cue.mod/module.cue above MaxCUEMod must be rejected"},
		{"max-license", atomOverLimit(info, limit("MaxLICENSE")), false, "LICENSE above MaxLICENSE must be rejected"},
	}
	if isZip {
		gates = append(gates,
			gateSpec{"cue-mod-root", c15PrefixNonEmpty(info), false, "a cue.mod directory outside the module root must be rejected"},
		)
	} else {
		gates = append(gates,
			gateSpec{"cue-mod-case", c15NeqConst(info, "cue.mod"), false, "a case variant of the cue.mod directory must be rejected"},
			gateSpec{"lstat", atomErrVar(info, c15LstatErr(g)), true, "an entry that cannot be stat'ed must be rejected"},
			gateSpec{"absolute", atomBoolCall(info, "path.IsAbs", true), true, "absolute paths must be rejected"},
			gateSpec{"regular-file", atomBoolCall(info, "io/fs.FileMode.IsRegular", false), true, "only regular files may enter the archive (symlinks, devices, pipes are omitted)"},
		)
	}
	for _, gs := range gates {
		// guards that apply to particular names only (size limits, cue.mod
		// placement) may be qualified by those name tests: conditional reading
		r := g.gateMode(gs.m, accept, barrier, body, !gs.mustEval)
		ok := r.found && !r.leak && (!gs.mustEval || !r.bypass)
		det := gs.why
		switch {
		case !r.found:
			det += ": guard not found in the validation loop"
		case r.leak:
			det += fmt.Sprintf(": the rejecting edge of the guard at %s still reaches the append to cf.Valid in the same iteration", c.pos(r.leakPos))
		case gs.mustEval && r.bypass:
			det += ": some path reaches the append to cf.Valid without evaluating the guard"
		}
		c.check("checker.gate", f.Name+"/"+gs.name, g.pos(head), ok, det)
	}
	// recording obligations
	sizeErr := g.find(func(n ast.Node) bool {
		as, ok := n.(*ast.AssignStmt)
		if !ok || len(as.Lhs) != 1 {
			return false
		}
		sel, ok := ast.Unparen(as.Lhs[0]).(*ast.SelectorExpr)
		return ok && sel.Sel.Name == "SizeError" && !isNilIdent(as.Rhs[0])
	})
	inLoop := false
	for _, id := range sizeErr {
		if g.reachableFrom(head)[id] && g.reachableFrom(id)[head] {
			inLoop = true
		}
	}
	// the running total is compared against MaxZipFile (directly or through a variable initialised from it)
	mentionsMax := false
	ast.Inspect(f.Body, func(n ast.Node) bool {
		if id, ok := n.(*ast.Ident); ok {
			if o := info.Uses[id]; o != nil && objName(o) == mz+"MaxZipFile" {
				mentionsMax = true
			}
		}
		return true
	})
	c.check("checker.records-total-size", f.Name, f.Body.Pos(), inLoop && mentionsMax,
		"the running total of uncompressed sizes must be compared against MaxZipFile inside the loop and recorded in cf.SizeError")
	// every non-skipped file entry updates the total before it is accepted:
	// accept is dominated by the size accounting condition
	acct := c15SizeAccounting(info)
	r := g.gate(acct, accept, barrier, body)
	passAll := r.found
	for a := range accept {
		// every path of one iteration from the loop body to the append
		// crosses the accounting condition
		rr := g.reach([]int{body}, func(id int) bool { return setOf(r.condNodes)[id] || id == head }, nil)
		if rr[a] {
			passAll = false
		}
	}
	c.check("checker.total-size-on-every-entry", f.Name, g.pos(head), passAll,
		"every accepted entry must pass through the total-size accounting")
	noMod := g.find(func(n ast.Node) bool {
		as, ok := n.(*ast.AssignStmt)
		if !ok || len(as.Lhs) != 1 {
			return false
		}
		sel, ok := ast.Unparen(as.Lhs[0]).(*ast.SelectorExpr)
		return ok && sel.Sel.Name == "NoModError" && !isNilIdent(as.Rhs[0])
	})
	okNoMod := len(noMod) > 0
	for _, id := range noMod {
		// after the loop: not inside it
		if g.reachableFrom(id)[head] {
			okNoMod = false
		}
	}
	// every return passes the "module.cue seen?" test
	if okNoMod {
		via := map[int]bool{}
		for _, id := range noMod {
			for _, p := range g.Nodes[id].Preds {
				via[p] = true
			}
		}
		for _, ret := range g.returns() {
			if g.reachableFrom(head)[ret] && !g.mustPassNode(ret, via) {
				okNoMod = false
			}
		}
	}
	c.check("checker.records-missing-module-cue", f.Name, f.Body.Pos(), okNoMod,
		"after the loop, every return must pass the test that records cf.NoModError when no cue.mod/module.cue was seen")
}

func c15LstatErr(g *Graph) types.Object {
	info := g.F.Info()
	for id, call := range g.callNodes(mz + "FileIO.Lstat") {
		v, _ := errVarOfCall(info, g.Nodes[id].N, call)
		return v
	}
	return nil
}

// c15ModuleCueCase: `rest != "module.cue"` / `rest != "cue.mod/module.cue"` is the rejecting outcome.
func c15ModuleCueCase(info *types.Info) atomMatcher {
	return func(e ast.Expr) (bool, bool) {
		be, ok := e.(*ast.BinaryExpr)
		if !ok || be.Op != token.NEQ {
			if u, isNot := e.(*ast.UnaryExpr); isNot && u.Op == token.NOT {
				if in, ok := ast.Unparen(u.X).(*ast.BinaryExpr); ok && in.Op == token.EQL {
					for _, s := range []ast.Expr{in.X, in.Y} {
						if v, ok := constString(info, s); ok && strings.HasSuffix(v, "module.cue") && !strings.Contains(v, "local") {
							return true, true
						}
					}
				}
			}
			return false, false
		}
		for _, s := range []ast.Expr{be.X, be.Y} {
			if v, ok := constString(info, s); ok && strings.HasSuffix(v, "module.cue") && !strings.Contains(v, "local") {
				return true, true
			}
		}
		return false, false
	}
}

func c15NeqConst(info *types.Info, val string) atomMatcher {
	return func(e ast.Expr) (bool, bool) {
		be, ok := e.(*ast.BinaryExpr)
		if !ok || be.Op != token.NEQ {
			return false, false
		}
		for _, s := range []ast.Expr{be.X, be.Y} {
			if v, ok := constString(info, s); ok && v == val {
				return true, true
			}
		}
		return false, false
	}
}

// c15PrefixNonEmpty: `prefix != ""` where prefix is the first result of splitCUEMod.
func c15PrefixNonEmpty(info *types.Info) atomMatcher {
	return func(e ast.Expr) (bool, bool) {
		be, ok := e.(*ast.BinaryExpr)
		if !ok || (be.Op != token.NEQ && be.Op != token.EQL) {
			return false, false
		}
		var x ast.Expr
		if v, ok := constString(info, be.Y); ok && v == "" {
			x = be.X
		} else if v, ok := constString(info, be.X); ok && v == "" {
			x = be.Y
		}
		id, ok := ast.Unparen(x).(*ast.Ident)
		if x == nil || !ok || id.Name != "prefix" {
			return false, false
		}
		return true, be.Op == token.NEQ
	}
}

// c15SizeAccounting matches the condition that adds an entry's size to the
// running total (`size >= 0 && size <= maxSize`, `sz >= 0 && MaxZipFile-size >= sz`).
func c15SizeAccounting(info *types.Info) atomMatcher {
	return func(e ast.Expr) (bool, bool) {
		be, ok := e.(*ast.BinaryExpr)
		if !ok {
			return false, false
		}
		switch be.Op {
		case token.LEQ, token.GEQ, token.LSS, token.GTR:
		default:
			return false, false
		}
		s := exprString(be)
		if strings.Contains(s, "maxSize") || strings.Contains(s, "MaxZipFile") {
			return true, false
		}
		return false, false
	}
}

// c15Creation: how package modzip creates files.
func c15Creation(c *Ctx) {
	p := c.pkg("mod/modzip")
	osPkg := c.Pkgs["os"]
	if osPkg == nil {
		c.broken("package os not loaded")
	}
	flag := func(name string) int64 {
		o := osPkg.Types.Scope().Lookup(name)
		k, ok := o.(*types.Const)
		if !ok {
			c.broken("os.%s not a constant", name)
		}
		v, _ := constant.Int64Val(k.Val())
		return v
	}
	oCreate, oExcl, oTrunc, oAppend := flag("O_CREATE"), flag("O_EXCL"), flag("O_TRUNC"), flag("O_APPEND")
	forbidden := map[string]bool{"os.Symlink": true, "os.Link": true, "os.Chmod": true, "os.Rename": true, "os.WriteFile": true,
		"os.Create": true, "os.Chown": true, "os.Lchown": true, "os.Truncate": true, "os.CreateTemp": true, "os.Mkdir": false,
		"os.Remove": true, "os.RemoveAll": true, "os.Chtimes": true, "os.NewFile": true, "os.OpenRoot": false,
		"syscall.Open": true, "syscall.Symlink": true, "io/ioutil.WriteFile": true}
	nOpen := 0
	var bad []string
	for _, f := range c.funcs(p) {
		ast.Inspect(f.Body, func(n ast.Node) bool {
			call, ok := n.(*ast.CallExpr)
			if !ok {
				// function values: os.Symlink passed around
				if sel, ok := n.(*ast.SelectorExpr); ok {
					if o, ok := f.Info().Uses[sel.Sel].(*types.Func); ok && forbidden[objName(o)] {
						bad = append(bad, fmt.Sprintf("%s refers to %s at %s", f.Name, objName(o), c.pos(sel.Pos())))
					}
				}
				return true
			}
			name := calleeName(f.Info(), call)
			if name == "os.OpenFile" {
				nOpen++
				tv := f.Info().Types[call.Args[1]]
				ok := false
				det := "flag argument of os.OpenFile is not a constant"
				if tv.Value != nil {
					v, _ := constant.Int64Val(tv.Value)
					ok = v&oCreate != 0 && v&oExcl != 0 && v&oTrunc == 0 && v&oAppend == 0
					det = fmt.Sprintf("flags=%#x: files must be created with O_CREATE|O_EXCL and without O_TRUNC/O_APPEND (never follow or overwrite an existing entry)", v)
				}
				c.check("creation.open-flags", fmt.Sprintf("%s#OpenFile%d", f.Name, nOpen), call.Pos(), ok, det)
			}
			return true
		})
	}
	sort.Strings(bad)
	c.check("creation.no-loose-api", "mod/modzip", token.NoPos, len(bad) == 0,
		"package modzip must not create links, rename, chmod or overwrite files: "+strings.Join(uniq(bad), "; "))
}

// c15Sizes: LimitedReader pairing.
func c15Sizes(c *Ctx) {
	for _, spec := range []struct{ fn, lit string }{{"Unzip", ""}, {"Create", "addFile"}} {
		f := c.fn("mod/modzip", spec.fn)
		fns := []*Fn{f}
		fns = append(fns, c.lits(f)...)
		n := 0
		for _, fn := range fns {
			g := c.graph(fn)
			info := fn.Info()
			// lr := &io.LimitedReader{R: r, N: X + 1}
			for _, id := range g.find(func(nd ast.Node) bool {
				as, ok := nd.(*ast.AssignStmt)
				if !ok || len(as.Rhs) != 1 {
					return false
				}
				return c15LimitedLit(info, as.Rhs[0]) != nil
			}) {
				n++
				as := g.Nodes[id].N.(*ast.AssignStmt)
				lit := c15LimitedLit(info, as.Rhs[0])
				lr := identObj(info, as.Lhs[0])
				okN := false
				for _, el := range lit.Elts {
					kv, ok := el.(*ast.KeyValueExpr)
					if !ok {
						continue
					}
					if k, ok := kv.Key.(*ast.Ident); ok && k.Name == "N" {
						if be, ok := ast.Unparen(kv.Value).(*ast.BinaryExpr); ok && be.Op == token.ADD {
							if tv := info.Types[be.Y]; tv.Value != nil && tv.Value.ExactString() == "1" {
								okN = true
							}
						}
					}
				}
				name := fmt.Sprintf("%s#LimitedReader%d", fn.Name, n)
				c.check("size.limited-reader", name+"/N", g.pos(id), okN, "the reader must be limited to the declared size + 1 (one extra byte detects an oversized entry)")
				// exhaustion test
				m := func(e ast.Expr) (bool, bool) {
					be, ok := e.(*ast.BinaryExpr)
					if !ok {
						return false, false
					}
					sel, ok := ast.Unparen(be.X).(*ast.SelectorExpr)
					if !ok || sel.Sel.Name != "N" || identObj(info, sel.X) != lr {
						return false, false
					}
					switch be.Op {
					case token.LEQ, token.LSS, token.EQL:
						return true, true
					case token.GTR, token.GEQ, token.NEQ:
						return true, false
					}
					return false, false
				}
				// accept = success returns and the next iteration
				accept := setOf(g.successReturns())
				for _, nd := range g.Nodes {
					if nd.Kind.String() == "RangeLoop" {
						if rs, ok := nd.Stmt.(*ast.RangeStmt); ok && rs.Body.Pos() <= as.Pos() && as.End() <= rs.Body.End() {
							accept[nd.ID] = true
						}
					}
				}
				r := g.gate(m, accept, nil, id)
				c.check("size.limited-reader", name+"/exhaustion-test", g.pos(id), r.found && !r.leak && !r.bypass,
					fmt.Sprintf("after copying, `lr.N <= 0` must be tested before the entry is considered written (found=%v leak=%v bypass=%v)", r.found, r.leak, r.bypass))
				// the limited reader is what is copied
				copyOK := false
				for _, call := range g.callNodes("io.Copy") {
					if len(call.Args) == 2 && identObj(info, call.Args[1]) == lr {
						copyOK = true
					}
				}
				c.check("size.limited-reader", name+"/copied-through", g.pos(id), copyOK, "io.Copy must read from the LimitedReader, not from the underlying reader")
			}
		}
		c.check("size.present", f.Name, f.Body.Pos(), n > 0, "content must be copied through an io.LimitedReader")
	}
}

func c15LimitedLit(info *types.Info, e ast.Expr) *ast.CompositeLit {
	e = ast.Unparen(e)
	if u, ok := e.(*ast.UnaryExpr); ok && u.Op == token.AND {
		e = u.X
	}
	lit, ok := e.(*ast.CompositeLit)
	if !ok {
		return nil
	}
	t := info.TypeOf(lit)
	if t == nil || t.String() != "io.LimitedReader" {
		return nil
	}
	return lit
}

func c15Err(c *Ctx) {
	f := c.fn("mod/modzip", "CheckedFiles.Err")
	g := c.graph(f)
	info := f.Info()
	accept := map[int]bool{}
	for _, r := range g.returns() {
		ret := g.Nodes[r].N.(*ast.ReturnStmt)
		if len(ret.Results) == 1 && isNilIdent(ret.Results[0]) {
			accept[r] = true
		}
	}
	if len(accept) == 0 {
		c.broken("anchor: CheckedFiles.Err has no `return nil`")
	}
	for _, fld := range []string{"SizeError", "NoModError"} {
		r := g.gate(atomSelNil(info, fld), accept, nil, g.Entry)
		c.check("err.consults", f.Name+"/"+fld, f.Body.Pos(), r.found && !r.leak && !r.bypass, "CheckedFiles.Err must return non-nil when "+fld+" is set")
	}
	inv := func(e ast.Expr) (bool, bool) {
		be, ok := e.(*ast.BinaryExpr)
		if !ok {
			return false, false
		}
		call, ok := ast.Unparen(be.X).(*ast.CallExpr)
		if !ok || calleeName(info, call) != "len" {
			return false, false
		}
		sel, ok := ast.Unparen(call.Args[0]).(*ast.SelectorExpr)
		if !ok || sel.Sel.Name != "Invalid" {
			return false, false
		}
		switch be.Op {
		case token.GTR, token.NEQ, token.GEQ:
			return true, true
		case token.EQL, token.LEQ:
			return true, false
		}
		return false, false
	}
	r := g.gate(inv, accept, nil, g.Entry)
	c.check("err.consults", f.Name+"/Invalid", f.Body.Pos(), r.found && !r.leak && !r.bypass, "CheckedFiles.Err must return non-nil when any entry is Invalid (Unzip extracts z.File, relying on Invalid being empty)")
}

func c15Create(c *Ctx) {
	f := c.fn("mod/modzip", "Create")
	g := c.graph(f)
	info := f.Info()
	cf := g.callNodes(mz + "checkFiles")
	cfErr := g.callNodes(mz + "CheckedFiles.Err")
	writes := g.callNodes("archive/zip.NewWriter", "archive/zip.(*Writer).Create", "archive/zip.(*Writer).Close")
	// calls of the addFile closure count as writes too
	for _, id := range g.find(func(n ast.Node) bool {
		for _, call := range callsIn(n, false) {
			if v, ok := identObj(info, call.Fun).(*types.Var); ok && v.Name() == "addFile" {
				return true
			}
		}
		return false
	}) {
		writes[id] = nil
	}
	b1, s1 := g.onlyAfterSuccess(cfErr, keys(writes))
	c.check("create.writes-after-check", f.Name, f.Body.Pos(), len(cf) > 0 && len(cfErr) > 0 && len(writes) > 0 && len(b1) == 0,
		"Create must write the archive only after checkFiles(...).Err() returned nil: "+maskStr(s1))
	// the files written are the validFiles returned by checkFiles
	okValid := false
	ast.Inspect(f.Body, func(n ast.Node) bool {
		rs, ok := n.(*ast.RangeStmt)
		if !ok {
			return true
		}
		if c.roots(f, rs.X, 0)["call:"+mz+"checkFiles"] || exprString(rs.X) == "validFiles" {
			okValid = true
		}
		return true
	})
	c.check("create.writes-valid-files-only", f.Name, f.Body.Pos(), okValid, "Create must add exactly the valid files returned by checkFiles")
	// CheckFiles and CheckDir delegate to checkFiles (one implementation)
	for _, d := range []struct{ fn, callee string }{{"CheckFiles", mz + "checkFiles"}, {"CheckDir", mz + "CheckFiles"}, {"CheckZipFile", mz + "CheckZip"}, {"CreateFromDir", mz + "Create"}} {
		df := c.fn("mod/modzip", d.fn)
		found := false
		ast.Inspect(df.Body, func(n ast.Node) bool {
			if call, ok := n.(*ast.CallExpr); ok && calleeName(df.Info(), call) == d.callee {
				found = true
			}
			return true
		})
		c.check("siblings.delegate", df.Name, df.Decl.Pos(), found, d.fn+" must delegate to "+d.callee+" (a second implementation could diverge)")
	}
}

func c15PathChain(c *Ctx) {
	// CheckFilePath -> checkPath(path, filePath)
	f := c.fn("mod/module", "CheckFilePath")
	g := c.graph(f)
	info := f.Info()
	cp := g.callNodesWhere(func(call *ast.CallExpr) bool {
		if len(call.Args) != 2 {
			return false
		}
		k, ok := identObj(info, call.Args[1]).(*types.Const)
		return ok && k.Name() == "filePath"
	}, "mod/module.checkPath")
	okc := len(cp) > 0
	if okc {
		in := g.run(g.successAutomaton(cp))
		for _, r := range g.successReturns() {
			if in[r]&^(1<<stOK) != 0 {
				okc = false
			}
		}
	}
	c.check("pathchain.check-file-path", f.Name, f.Body.Pos(), okc, "CheckFilePath must return nil only when checkPath(path, filePath) returned nil")

	// checkPath
	p := c.fn("mod/module", "checkPath")
	gp := c.graph(p)
	pi := p.Info()
	acceptP := setOf(gp.successReturns())
	type gs struct {
		name string
		m    atomMatcher
	}
	for _, s := range []gs{
		{"valid-utf8", atomBoolCall(pi, "unicode/utf8.ValidString", false)},
		{"non-empty", atomEqConst(pi, "", true)},
		{"no-double-slash", func(e ast.Expr) (bool, bool) {
			call, ok := e.(*ast.CallExpr)
			if !ok || calleeName(pi, call) != "strings.Contains" || len(call.Args) != 2 {
				return false, false
			}
			v, ok := constString(pi, call.Args[1])
			return ok && v == "//", true
		}},
		{"no-trailing-slash", func(e ast.Expr) (bool, bool) {
			be, ok := e.(*ast.BinaryExpr)
			if !ok || (be.Op != token.EQL && be.Op != token.NEQ) {
				return false, false
			}
			if tv := pi.Types[be.Y]; tv.Value != nil && tv.Value.ExactString() == "47" {
				if ix, ok := ast.Unparen(be.X).(*ast.IndexExpr); ok && strings.Contains(exprString(ix.Index), "len(") {
					return true, be.Op == token.EQL
				}
			}
			return false, false
		}},
	} {
		r := gp.gate(s.m, acceptP, nil, gp.Entry)
		c.check("pathchain.gate", p.Name+"/"+s.name, p.Body.Pos(), r.found && !r.leak && !r.bypass,
			fmt.Sprintf("checkPath must reject on this test before any nil return (found=%v leak=%v bypass=%v)", r.found, r.leak, r.bypass))
	}
	// every element goes through checkElem, including the last one
	elems := gp.callNodes("mod/module.checkElem")
	inLoop, afterLoop := 0, 0
	var loopHead = -1
	for _, n := range gp.Nodes {
		if n.Kind.String() == "RangeLoop" {
			loopHead = n.ID
		}
	}
	for id := range elems {
		if loopHead >= 0 && gp.reachableFrom(id)[loopHead] && gp.reachableFrom(loopHead)[id] {
			inLoop++
		} else {
			afterLoop++
		}
	}
	okElems := inLoop > 0 && afterLoop > 0
	if okElems {
		// failing checkElem never reaches a nil return; the final checkElem is on every path to it
		in := gp.run(gp.successAutomaton(elems))
		for r := range acceptP {
			if in[r]&^(1<<stOK) != 0 {
				okElems = false
			}
		}
	}
	c.check("pathchain.gate", p.Name+"/every-element-checked", p.Body.Pos(), okElems,
		"checkPath must call checkElem for the elements inside the loop and for the last element, and return nil only after it succeeded")
	// in the loop, a failing checkElem returns
	if loopHead >= 0 {
		leak := false
		for id, call := range elems {
			if !(gp.reachableFrom(id)[loopHead] && gp.reachableFrom(loopHead)[id]) {
				continue
			}
			v, _ := errVarOfCall(pi, gp.Nodes[id].N, call)
			r := gp.gate(atomErrVar(pi, v), map[int]bool{loopHead: true}, nil, -1)
			if !r.found || r.leak {
				leak = true
			}
		}
		c.check("pathchain.gate", p.Name+"/element-failure-stops", p.Body.Pos(), !leak, "a failing checkElem inside the loop must return the error, not continue with the next element")
	}

	// checkElem
	e := c.fn("mod/module", "checkElem")
	ge := c.graph(e)
	ei := e.Info()
	acceptE := setOf(ge.successReturns())
	dots := func(x ast.Expr) (bool, bool) {
		be, ok := x.(*ast.BinaryExpr)
		if !ok || (be.Op != token.EQL && be.Op != token.NEQ) {
			return false, false
		}
		if containsCall(ei, be, "strings.Count") == nil {
			return false, false
		}
		return true, be.Op == token.EQL
	}
	r := ge.gate(dots, acceptE, nil, ge.Entry)
	c.check("pathchain.gate", e.Name+"/all-dots", e.Body.Pos(), r.found && !r.leak && !r.bypass,
		"checkElem must reject elements consisting only of dots ('.' and '..') before any nil return")
	r = ge.gate(atomEqConst(ei, "", true), acceptE, nil, ge.Entry)
	c.check("pathchain.gate", e.Name+"/non-empty", e.Body.Pos(), r.found && !r.leak && !r.bypass, "checkElem must reject the empty element")
	// per-rune check: fileNameOK is called for kind == filePath and `!ok` rejects
	var okVar types.Object
	fnameCase := false
	ast.Inspect(e.Body, func(n ast.Node) bool {
		cc, ok := n.(*ast.CaseClause)
		if !ok {
			return true
		}
		isFP := false
		for _, x := range cc.List {
			if k, ok := identObj(ei, x).(*types.Const); ok && k.Name() == "filePath" {
				isFP = true
			}
		}
		if !isFP {
			return true
		}
		for _, s := range cc.Body {
			if as, ok := s.(*ast.AssignStmt); ok && len(as.Rhs) == 1 {
				if call, ok := ast.Unparen(as.Rhs[0]).(*ast.CallExpr); ok && calleeName(ei, call) == "mod/module.fileNameOK" {
					okVar = identObj(ei, as.Lhs[0])
					fnameCase = true
				}
			}
		}
		return true
	})
	okAtom := func(x ast.Expr) (bool, bool) {
		if okVar != nil && identObj(ei, x) == okVar {
			return true, false
		}
		return false, false
	}
	// accept for the rune loop: the next iteration and everything after the loop
	r = ge.gate(okAtom, acceptE, nil, -1)
	r2 := ge.gate(okAtom, func() map[int]bool {
		m := map[int]bool{}
		for _, n := range ge.Nodes {
			if n.Kind.String() == "RangeLoop" {
				m[n.ID] = true
			}
		}
		return m
	}(), nil, -1)
	c.check("pathchain.gate", e.Name+"/file-name-runes", e.Body.Pos(), fnameCase && r.found && !r.leak && !r2.leak,
		"checkElem must call fileNameOK for kind filePath and reject the element when it returns false (backslash, colon, shell specials, non-letters)")
	// Windows reserved names
	bw := func(x ast.Expr) (bool, bool) {
		call, ok := x.(*ast.CallExpr)
		if !ok || calleeName(ei, call) != "strings.EqualFold" {
			return false, false
		}
		return true, true
	}
	r = ge.gate(bw, acceptE, nil, -1)
	overBad := false
	ast.Inspect(e.Body, func(n ast.Node) bool {
		if rs, ok := n.(*ast.RangeStmt); ok && mentionsObj(ei, rs.X, "mod/module.badWindowsNames") {
			overBad = true
		}
		return true
	})
	c.check("pathchain.gate", e.Name+"/windows-reserved", e.Body.Pos(), overBad && r.found && !r.leak,
		"checkElem must reject Windows reserved names (loop over badWindowsNames with EqualFold)")
}

// c15FoldFixpoint: case-insensitive collisions are detected on a canonical
// folding of the name. unicode.SimpleFold moves to the *next* rune of the fold
// orbit, so the canonical representative (the minimum) needs the fold to be
// iterated until it wraps; orbits have up to four members (K, k, KELVIN SIGN).
// A single step maps two colliding names to different keys.
func c15FoldFixpoint(c *Ctx) {
	f := c.fn("mod/modzip", "strToFold")
	g := c.graph(f)
	folds := g.callNodes("unicode.SimpleFold")
	// the per-rune loop: the range statement whose body contains the fold
	head, _, _ := g.rangeLoop(func(rs *ast.RangeStmt) bool {
		has := false
		ast.Inspect(rs.Body, func(n ast.Node) bool {
			if call, ok := n.(*ast.CallExpr); ok && calleeName(f.Info(), call) == "unicode.SimpleFold" {
				has = true
			}
			return true
		})
		return has
	})
	ok := len(folds) > 0 && head >= 0
	for id := range folds {
		// the fold lies on a cycle that does not pass the per-rune loop head: an inner loop
		onCycle := false
		for _, e := range g.Nodes[id].Succs {
			if e.To == head {
				continue
			}
			r := g.reach([]int{e.To}, func(n int) bool { return n == head }, nil)
			if e.To == id || (r[id] && e.To != id) {
				onCycle = true
			}
		}
		if !onCycle {
			ok = false
		}
	}
	// the inner loop is left only on the wrap-around test (result not greater than the argument)
	wrap := false
	ast.Inspect(f.Body, func(n ast.Node) bool {
		if be, isBin := n.(*ast.BinaryExpr); isBin {
			switch be.Op.String() {
			case "<=", ">=", "<", ">":
				if _, a := be.X.(*ast.Ident); a {
					if _, b := be.Y.(*ast.Ident); b {
						wrap = true
					}
				}
			}
		}
		return true
	})
	c.check("collision.fold-iterated-to-fixpoint", f.Name, f.Decl.Pos(), ok && wrap,
		"strToFold must iterate unicode.SimpleFold in an inner loop until it wraps around (minimum of the fold orbit); a single step gives colliding names different keys")
}

// atomEqOrFoldConst: `x == "val"` or `strings.EqualFold(x, "val")`; equality is the rejecting outcome.
func atomEqOrFoldConst(info *types.Info, val string) atomMatcher {
	eq := atomEqConst(info, val, true)
	return func(e ast.Expr) (bool, bool) {
		if ok, bad := eq(e); ok {
			return ok, bad
		}
		if call, ok := e.(*ast.CallExpr); ok && calleeName(info, call) == "strings.EqualFold" && len(call.Args) == 2 {
			for _, a := range call.Args {
				if v, ok := constString(info, a); ok && v == val {
					return true, true
				}
			}
		}
		return false, false
	}
}

// c15SpecialNamesFolded: the files with a special meaning inside cue.mod are
// recognised by name in checkFiles and CheckZip. On a case-insensitive file
// system a case variant of the name *is* that file, which is why the
// module.cue rule uses strings.EqualFold. A sibling name that is matched with
// `==` alone lets `cue.mod/Local-Module.cue` through Create, CheckZip and
// Unzip.
func c15SpecialNamesFolded(c *Ctx) {
	const rule = "names.special-cue-mod-names-folded"
	n := 0
	for _, fname := range []string{"checkFiles", "CheckZip"} {
		f := c.fn("mod/modzip", fname)
		info := f.Info()
		// constants "cue.mod/X" (or X compared against the part after cue.mod/) compared by equality
		eqs := map[string]token.Pos{}
		folds := map[string]bool{}
		ast.Inspect(f.Body, func(x ast.Node) bool {
			switch e := x.(type) {
			case *ast.BinaryExpr:
				if e.Op != token.EQL && e.Op != token.NEQ {
					return true
				}
				for _, s := range []ast.Expr{e.X, e.Y} {
					if v, ok := constString(info, s); ok && strings.HasPrefix(v, "cue.mod/") {
						if _, seen := eqs[v]; !seen {
							eqs[v] = e.Pos()
						}
					}
				}
			case *ast.CallExpr:
				if calleeName(info, e) == "strings.EqualFold" && len(e.Args) == 2 {
					for _, s := range e.Args {
						if v, ok := constString(info, s); ok {
							folds[strings.TrimPrefix(v, "cue.mod/")] = true
							if _, seen := eqs[v]; !seen && strings.HasPrefix(v, "cue.mod/") {
								eqs[v] = e.Pos()
							}
						}
					}
				}
			}
			return true
		})
		var names []string
		for v := range eqs {
			names = append(names, v)
		}
		sort.Strings(names)
		for _, v := range names {
			n++
			c.check(rule, f.Name+"/"+v, eqs[v], folds[strings.TrimPrefix(v, "cue.mod/")],
				fmt.Sprintf("%s recognises %q by `==`; the function must also test the name with strings.EqualFold (as it does for cue.mod/module.cue): on a case-insensitive file system a case variant is the same file, and the rule this name carries (never published, never extracted) is bypassed", fname, v))
		}
	}
	c.expect(rule, 3)
}

// c15ZipDirEntries: CheckZip strips the trailing slash of a directory entry
// and keeps the fact in isDir. Two conclusions drawn later from the stripped
// name need it: (1) the entry recorded as the module file (modFile = zf) must
// be a file — a directory entry `cue.mod/module.cue/` is not a module file,
// and checkFiles/CheckDir report such a tree as having none; (2) "the name has
// no slash after cue.mod" means "cue.mod is not a directory" only for a file
// entry — the directory entry `cue.mod/` is what every zip tool writes, and
// checkFiles/CheckDir accept the same tree.
func c15ZipDirEntries(c *Ctx) {
	f := c.fn("mod/modzip", "CheckZip")
	g := c.graph(f)
	info := f.Info()
	// isDir: the variable defined from strings.HasSuffix(name, "/")
	var isDir types.Object
	ast.Inspect(f.Body, func(x ast.Node) bool {
		as, ok := x.(*ast.AssignStmt)
		if !ok || as.Tok != token.DEFINE || len(as.Lhs) != 1 || len(as.Rhs) != 1 {
			return true
		}
		if call, ok := ast.Unparen(as.Rhs[0]).(*ast.CallExpr); ok && calleeName(info, call) == "strings.HasSuffix" && len(call.Args) == 2 {
			if v, ok := constString(info, call.Args[1]); ok && v == "/" {
				isDir = identObj(info, as.Lhs[0])
			}
		}
		return true
	})
	if isDir == nil {
		c.broken("anchor: CheckZip no longer derives a directory flag from strings.HasSuffix(name, \"/\")")
	}
	head, body, _ := g.rangeLoop(func(rs *ast.RangeStmt) bool { return strings.HasSuffix(exprString(rs.X), ".File") })
	if head < 0 {
		c.broken("anchor: CheckZip no longer ranges over z.File")
	}
	barrier := map[int]bool{head: true}
	dirAtom := func(e ast.Expr) (bool, bool) {
		if id, ok := e.(*ast.Ident); ok && info.ObjectOf(id) == isDir {
			return true, true
		}
		// the graph shows single-definition boolean locals by their definition
		if call, ok := e.(*ast.CallExpr); ok && calleeName(info, call) == "strings.HasSuffix" && len(call.Args) == 2 {
			if v, ok := constString(info, call.Args[1]); ok && v == "/" {
				return true, true
			}
		}
		return false, false
	}
	// (1) modFile = zf
	mod := setOf(g.find(func(n ast.Node) bool {
		as, ok := n.(*ast.AssignStmt)
		return ok && len(as.Lhs) == 1 && exprString(as.Lhs[0]) == "modFile" && as.Tok == token.ASSIGN
	}))
	if len(mod) == 0 {
		c.broken("anchor: CheckZip no longer records the module file entry (modFile = zf)")
	}
	// reachable from the start of an iteration without crossing an edge on
	// which the directory flag is known to be false
	reachNoProof := func(targets map[int]bool) bool {
		seen := map[int]bool{body: true}
		work := []int{body}
		for len(work) > 0 {
			id := work[len(work)-1]
			work = work[:len(work)-1]
			if targets[id] {
				return true
			}
			if barrier[id] && id != body {
				continue
			}
			for _, e := range g.Nodes[id].Succs {
				if e.Cond != nil {
					if p := atomOnEdge(e.Cond, e.Truth, dirAtom); p.present && p.good && !p.bad && !p.na {
						continue
					}
				}
				if !seen[e.To] {
					seen[e.To] = true
					work = append(work, e.To)
				}
			}
		}
		return false
	}
	var pos token.Pos
	for id := range mod {
		pos = g.pos(id)
	}
	c.check("checker.zip-module-file-is-a-file", f.Name, pos, !reachNoProof(mod),
		"the entry recorded as cue.mod/module.cue must not be a directory entry: on every path to `modFile = zf` the directory flag must have been tested false (a zip with the entry `cue.mod/module.cue/` would pass CheckZip and Unzip without NoModError and extract to a module with no module file, which checkFiles and CheckDir reject)")
	// (2) the "no slash after cue.mod" rejection
	var rej []int
	var ifs []*ast.IfStmt
	ast.Inspect(f.Body, func(x ast.Node) bool {
		if is, ok := x.(*ast.IfStmt); ok {
			ifs = append(ifs, is)
		}
		return true
	})
	for _, is := range ifs {
		has := false
		ast.Inspect(is.Cond, func(x ast.Node) bool {
			if call, ok := x.(*ast.CallExpr); ok && calleeName(info, call) == "strings.Contains" && len(call.Args) == 2 {
				if v, ok := constString(info, call.Args[1]); ok && v == "/" {
					has = true
				}
			}
			return true
		})
		if !has {
			continue
		}
		for _, id := range g.find(func(x ast.Node) bool {
			es, ok := x.(*ast.ExprStmt)
			if !ok || es.Pos() < is.Body.Pos() || es.End() > is.Body.End() {
				return false
			}
			call, ok := es.X.(*ast.CallExpr)
			return ok && exprString(call.Fun) == "addError"
		}) {
			rej = append(rej, id)
		}
	}
	if len(rej) == 0 {
		c.broken("anchor: CheckZip no longer rejects a cue.mod entry whose name has no slash (strings.Contains(rest, \"/\"))")
	}
	c.check("checker.zip-cue-mod-dir-entry-accepted", f.Name, g.pos(rej[0]), !reachNoProof(setOf(rej)),
		"`cue.mod is not a directory` may be concluded from the slash-stripped name only for a file entry: on every path to that rejection the directory flag must have been tested false (the directory entry `cue.mod/`, which zip tools write, is rejected otherwise, while checkFiles and CheckDir accept the same tree)")
}

// c15SubmoduleMarking: checkFiles omits every file below a directory that
// contains a cue.mod (another module). The directories are collected with
// splitCUEMod, which reports the *deepest* cue.mod element of a path; a path
// can contain several (`sub/cue.mod/pkg/x/cue.mod/module.cue`), and CheckDir
// stops at the outermost. The collection must therefore apply splitCUEMod
// repeatedly to the prefix it returns.
func c15SubmoduleMarking(c *Ctx) {
	const rule = "checker.submodule-marking-iterated"
	f := c.fn("mod/modzip", "checkFiles")
	info := f.Info()
	var mark *ast.AssignStmt
	ast.Inspect(f.Body, func(x ast.Node) bool {
		as, ok := x.(*ast.AssignStmt)
		if !ok || len(as.Lhs) != 1 {
			return true
		}
		if ix, ok := ast.Unparen(as.Lhs[0]).(*ast.IndexExpr); ok && exprString(ix.X) == "haveCUEMod" {
			mark = as
		}
		return true
	})
	if mark == nil {
		c.broken("anchor: checkFiles no longer records directories holding a cue.mod (haveCUEMod[dir] = true)")
	}
	// the innermost enclosing loop that is not the range over the file list
	ok := false
	var stack []ast.Node
	ast.Inspect(f.Body, func(x ast.Node) bool {
		if x == nil {
			stack = stack[:len(stack)-1]
			return true
		}
		stack = append(stack, x)
		if x != ast.Node(mark) {
			return true
		}
		for i := len(stack) - 1; i >= 0; i-- {
			fs, isFor := stack[i].(*ast.ForStmt)
			if !isFor {
				continue
			}
			// inside the loop: splitCUEMod is called on a variable that the loop reassigns
			var arg types.Object
			ast.Inspect(fs, func(y ast.Node) bool {
				if call, isCall := y.(*ast.CallExpr); isCall && calleeName(info, call) == "mod/modzip.splitCUEMod" && len(call.Args) == 1 {
					arg = identObj(info, call.Args[0])
				}
				return true
			})
			if arg == nil {
				continue
			}
			ast.Inspect(fs.Body, func(y ast.Node) bool {
				if as, isAs := y.(*ast.AssignStmt); isAs && as.Tok == token.ASSIGN {
					for _, l := range as.Lhs {
						if identObj(info, l) == arg {
							ok = true
						}
					}
				}
				return true
			})
			if fs.Post != nil {
				if as, isAs := fs.Post.(*ast.AssignStmt); isAs {
					for _, l := range as.Lhs {
						if identObj(info, l) == arg {
							ok = true
						}
					}
				}
			}
		}
		return true
	})
	c.check(rule, f.Name, mark.Pos(), ok,
		"splitCUEMod returns the deepest cue.mod element of a path; the collection of submodule directories must re-apply it to the returned prefix (an inner loop that reassigns its argument), or an outer directory holding only deeper cue.mod paths is not marked and its files are published by Create/CheckFiles while CheckDir/CreateFromDir omit the directory")
}
