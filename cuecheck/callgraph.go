package main

import (
	"go/ast"
	"go/types"
	"sort"
	"strings"

	"golang.org/x/tools/go/packages"
)

// E10: static call graph restricted to one package (resolved through
// go/types: direct calls, method calls on concrete receivers, method values
// and function values mentioned by name).

type pkgGraph struct {
	p     *packages.Package
	fns   map[*types.Func]*Fn
	calls map[*types.Func]map[*types.Func]bool
}

func (c *Ctx) pkgCallGraph(pkgRel string) *pkgGraph {
	p := c.pkg(pkgRel)
	pg := &pkgGraph{p: p, fns: map[*types.Func]*Fn{}, calls: map[*types.Func]map[*types.Func]bool{}}
	for _, f := range c.funcs(p) {
		if f.Obj == nil {
			continue
		}
		self := f.Obj.Origin()
		pg.fns[self] = f
		pg.calls[self] = map[*types.Func]bool{}
		info := f.Info()
		ast.Inspect(f.Body, func(n ast.Node) bool {
			if id, ok := n.(*ast.Ident); ok {
				if fn, ok := info.Uses[id].(*types.Func); ok && fn.Pkg() == p.Types {
					pg.calls[self][fn.Origin()] = true
				}
			}
			return true
		})
	}
	return pg
}

// cycles returns the strongly connected components with more than one node
// (or a self loop) of the graph after removing the given functions.
func (pg *pkgGraph) cycles(removed map[*types.Func]bool) [][]*types.Func {
	index := map[*types.Func]int{}
	low := map[*types.Func]int{}
	on := map[*types.Func]bool{}
	var stack []*types.Func
	var out [][]*types.Func
	n := 0
	var nodes []*types.Func
	for f := range pg.calls {
		if !removed[f] {
			nodes = append(nodes, f)
		}
	}
	sort.Slice(nodes, func(i, j int) bool { return nodes[i].Pos() < nodes[j].Pos() })
	var visit func(v *types.Func)
	visit = func(v *types.Func) {
		index[v] = n
		low[v] = n
		n++
		stack = append(stack, v)
		on[v] = true
		var succ []*types.Func
		for w := range pg.calls[v] {
			if !removed[w] {
				if _, ok := pg.calls[w]; ok {
					succ = append(succ, w)
				}
			}
		}
		sort.Slice(succ, func(i, j int) bool { return succ[i].Pos() < succ[j].Pos() })
		for _, w := range succ {
			if _, seen := index[w]; !seen {
				visit(w)
				if low[w] < low[v] {
					low[v] = low[w]
				}
			} else if on[w] && index[w] < low[v] {
				low[v] = index[w]
			}
		}
		if low[v] == index[v] {
			var comp []*types.Func
			for {
				w := stack[len(stack)-1]
				stack = stack[:len(stack)-1]
				on[w] = false
				comp = append(comp, w)
				if w == v {
					break
				}
			}
			if len(comp) > 1 || pg.calls[v][v] {
				sort.Slice(comp, func(i, j int) bool { return comp[i].Pos() < comp[j].Pos() })
				out = append(out, comp)
			}
		}
	}
	for _, v := range nodes {
		if _, seen := index[v]; !seen {
			visit(v)
		}
	}
	return out
}

// reachableFrom returns the functions reachable from the given roots.
func (pg *pkgGraph) reachableFrom(roots ...*types.Func) map[*types.Func]bool {
	seen := map[*types.Func]bool{}
	work := append([]*types.Func{}, roots...)
	for len(work) > 0 {
		f := work[len(work)-1]
		work = work[:len(work)-1]
		if seen[f] {
			continue
		}
		seen[f] = true
		for w := range pg.calls[f] {
			work = append(work, w)
		}
	}
	return seen
}

func fnNames(fs []*types.Func) string {
	var s []string
	for _, f := range fs {
		n := objName(f)
		s = append(s, n[strings.LastIndex(n, ".")+1:])
	}
	return strings.Join(s, ",")
}
