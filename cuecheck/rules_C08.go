package main

import (
	"fmt"
	"go/ast"
	"go/token"
	"go/types"
	"strings"
)

func init() {
	register(&propCheck{
		id:   "C08",
		pkgs: []string{"cue/ast", "cue/ast/astutil", "cue/format", "internal/pretty", "cue/parser", "cmd/cue/cmd"},
		run:  checkC08,
		about: "C08 (cue fmt is idempotent and never changes what a file means): decides, for both live formatters (cue/format v1 and internal/pretty v2), the generic walkers they rely on (ast.Walk, astutil.Apply) and the parser that builds their input: " +
			"(a) every type-switch dispatcher over ast.Node/Expr/Decl/Clause/Label covers every implementor (or the implementor is excepted with the reason it cannot reach that switch) — v2's defaults are silent, so an uncovered kind is dropped without an error; " +
			"(b) every child field and every payload field (operators, literal text, names, attribute text, comment text, constraint tokens) of every cue/ast node type is referenced by each printer, each walker and the parser — a field never referenced is a subtree that cannot be emitted/visited/built; " +
			"(c) every node type's comments reach the comment plumbing; (d) format.Source prints what it parsed, and cmd/cue fmt writes a file only after a successful parse+format and only if the bytes differ. It does not decide idempotence or that the emitted layout re-parses to the same tree.",
		trust: []string{"resolution metadata (Ident.Scope, Ident.Node, File.Unresolved) is not syntax"},
	})
}

// payload fields of cue/ast nodes that carry meaning but are not child nodes
var astPayload = map[string][]string{
	"UnaryExpr":   {"Op"},
	"BinaryExpr":  {"Op"},
	"PostfixExpr": {"Op"},
	"Field":       {"Constraint"},
	"BasicLit":    {"Value"},
	"Ident":       {"Name"},
	"Attribute":   {"Text"},
	"Comment":     {"Text"},
	"BottomLit":   {},
}

var astMeta = map[string]string{
	"File.Unresolved": "resolution metadata, recomputed by astutil.Resolve; not syntax",
	"Ident.Scope":     "resolution metadata; not syntax",
	"Ident.Node":      "resolution metadata; not syntax",
	"File.Imports":    "derived view of the ImportDecls in File.Decls",
}

func merge(ms ...map[string]string) map[string]string {
	out := map[string]string{}
	for _, m := range ms {
		for k, v := range m {
			out[k] = v
		}
	}
	return out
}

func checkC08(c *Ctx) {
	c08TrailingCommaFollowsCloser(c)
	c08NothingAfterTrailingComment(c)
	c08CommentInsideBracket(c)
	for _, p := range []string{"cue/format", "internal/pretty"} {
		c.checkCounterBalance("layout.nesting-counter-balanced", p, nil)
	}
	c.expect("layout.nesting-counter-balanced", 5)
	predecl := map[string]string{"predeclaredNode": "internal sentinel stored in Ident.Node, never part of a syntax tree"}
	funcExc := "produced only by the parser's ParseFuncs mode (wasm extern signatures), never by format.Source / cue fmt"
	fallback := "held in Comprehension.Fallback, not in Comprehension.Clauses; printed where the comprehension is printed (field coverage checks Comprehension.Fallback)"
	aliasClause := "Alias satisfies Clause only for legacy reasons; the parser never places an Alias in Comprehension.Clauses"

	disp := []dispatcher{
		{pkg: "cue/ast", fn: "Walk", iface: "cue/ast.Node", implPkg: "cue/ast", except: predecl},
		{pkg: "cue/ast/astutil", fn: "applyCursor", iface: "cue/ast.Node", implPkg: "cue/ast", except: merge(predecl, map[string]string{"Func": funcExc})},
		{pkg: "cue/format", fn: "(*formatter).decl", iface: "cue/ast.Decl", implPkg: "cue/ast"},
		{pkg: "cue/format", fn: "(*formatter).exprRaw", iface: "cue/ast.Expr", implPkg: "cue/ast", except: map[string]string{
			"Func":          funcExc,
			"Comprehension": "a Comprehension reaches exprRaw only as a list element or embedding, both of which are dispatched before (walkListElems, embedding)",
		}},
		{pkg: "cue/format", fn: "(*formatter).clause", iface: "cue/ast.Clause", implPkg: "cue/ast", except: map[string]string{"FallbackClause": fallback, "Alias": aliasClause}},
		{pkg: "cue/format", fn: "(*formatter).label", iface: "cue/ast.Label", implPkg: "cue/ast"},
		{pkg: "cue/format", fn: "(*formatter).embedding", iface: "cue/ast.Expr", implPkg: "cue/ast"},
		{pkg: "cue/format", fn: "(*formatter).walkListElems", iface: "cue/ast.Expr", implPkg: "cue/ast"},
		{pkg: "internal/pretty", fn: "(*converter).decl", iface: "cue/ast.Decl", implPkg: "cue/ast"},
		{pkg: "internal/pretty", fn: "(*converter).exprCore", iface: "cue/ast.Expr", implPkg: "cue/ast"},
		{pkg: "internal/pretty", fn: "(*converter).clause", iface: "cue/ast.Clause", implPkg: "cue/ast", except: map[string]string{"FallbackClause": fallback, "Alias": aliasClause}},
		{pkg: "internal/pretty", fn: "(*converter).label", iface: "cue/ast.Label", implPkg: "cue/ast"},
	}
	for _, d := range disp {
		c.checkDispatcher("dispatch.total", d)
	}
	c.expect("dispatch.total", 150)
	caseExc := merge(astMeta, map[string]string{})
	for _, d := range disp {
		pl := astPayload
		if d.fn == "Walk" || d.fn == "applyCursor" {
			pl = nil // walkers visit children only
		}
		c.checkCaseFieldCoverage("fields.case-covered", d, "cue/ast.Node", pl, caseExc)
	}

	// (b) field coverage
	consumers := []struct {
		label  string
		bodies []*Fn
		except map[string]string
	}{
		{"cue/format(v1)", c.pkgBodies("cue/format"), map[string]string{
			"Func.Args": funcExc, "Func.Ret": funcExc,
		}},
		{"internal/pretty(v2)", c.pkgBodies("internal/pretty"), map[string]string{}},
		{"cue/ast.Walk", c.pkgBodies("cue/ast", "walk.go"), map[string]string{
			"UnaryExpr.Op": "payload, not a child: Walk visits children only", "BinaryExpr.Op": "payload", "PostfixExpr.Op": "payload",
			"Field.Constraint": "payload", "BasicLit.Value": "payload", "Ident.Name": "payload", "Attribute.Text": "payload", "Comment.Text": "payload",
		}},
		{"astutil.Apply", c.pkgBodies("cue/ast/astutil", "apply.go"), map[string]string{
			"Func.Args": funcExc, "Func.Ret": funcExc,
			"UnaryExpr.Op": "payload, not a child", "BinaryExpr.Op": "payload", "PostfixExpr.Op": "payload",
			"Field.Constraint": "payload", "BasicLit.Value": "payload", "Ident.Name": "payload", "Attribute.Text": "payload", "Comment.Text": "payload",
		}},
		{"cue/parser", c.pkgBodies("cue/parser"), map[string]string{}},
	}
	for _, cs := range consumers {
		c.checkFieldCoverage("fields.covered", fieldCoverage{
			consumer: cs.label, bodies: cs.bodies, nodePkg: "cue/ast", nodeIface: "cue/ast.Node",
			payload: astPayload, except: merge(astMeta, cs.except),
		})
	}
	c.expect("fields.covered", 200)

	c08Comments(c)
	c08Source(c)
	c08Cmd(c)
}

// c08Comments: comment groups are carried.
func c08Comments(c *Ctx) {
	// every node type embeds `comments` (so that the parser can attach and the
	// printers can find comment groups), except the comment nodes themselves
	// and position-less helpers.
	iface := c.lookupType("cue/ast.Node").Type().Underlying().(*types.Interface)
	p := c.pkg("cue/ast")
	noComments := map[string]string{
		"Comment": "is a comment", "CommentGroup": "is a comment group", "predeclaredNode": "sentinel",
	}
	for _, tn := range implementors(p, iface) {
		has := false
		for _, f := range structFields(tn) {
			if f.Embedded() && f.Name() == "comments" {
				has = true
			}
		}
		why, exc := noComments[tn.Name()]
		det := "every syntax node must be able to carry comments (embed ast.comments)"
		if exc {
			det += ": excepted — " + why
		}
		c.check("comments.node-carries", "cue/ast."+tn.Name(), tn.Pos(), has || exc, det)
	}
	// the v1 printer emits comments for every node through visitComments /
	// before+after, the v2 printer through its comment helpers: both
	// packages must call ast.Comments / Node.Comments() and reference
	// CommentGroup.List, Comment.Text (field coverage) and the position
	// classes Doc/Line/Position.
	for _, cons := range []struct{ label, pkg string }{{"cue/format(v1)", "cue/format"}, {"internal/pretty(v2)", "internal/pretty"}} {
		bodies := c.pkgBodies(cons.pkg)
		used := fieldsUsed(bodies)
		for _, fld := range structFields(c.lookupType("cue/ast.CommentGroup")) {
			switch fld.Name() {
			case "Doc", "Line", "Position", "List":
				c.check("comments.position-class-used", cons.label+"/CommentGroup."+fld.Name(), fld.Pos(), used[fld.Origin()],
					cons.label+" must consult CommentGroup."+fld.Name()+" (comments are re-emitted by position class; ignoring one moves or drops comments)")
			}
		}
		calls := false
		for _, f := range bodies {
			ast.Inspect(f.Body, func(n ast.Node) bool {
				if call, ok := n.(*ast.CallExpr); ok {
					nm := calleeName(f.Info(), call)
					if nm == "cue/ast.Comments" || strings.HasSuffix(nm, ".Comments") && strings.HasPrefix(nm, "cue/ast.") {
						calls = true
					}
				}
				return true
			})
		}
		c.check("comments.fetched", cons.label, 0, calls, cons.label+" must fetch the comment groups attached to nodes (ast.Comments / Node.Comments)")
	}
	// the parser attaches comments only through commentState
	pb := c.pkgBodies("cue/parser")
	var writers []string
	for _, f := range pb {
		ast.Inspect(f.Body, func(n ast.Node) bool {
			call, ok := n.(*ast.CallExpr)
			if !ok {
				return true
			}
			nm := calleeName(f.Info(), call)
			if nm == "cue/ast.AddComment" || nm == "cue/ast.SetComments" {
				writers = append(writers, strings.TrimPrefix(f.Name, "cue/parser."))
			}
			return true
		})
	}
	okW := len(writers) > 0
	for _, w := range writers {
		switch w {
		case "(*parser).openComments", "(*parser).closeList", "(*commentState).closeNode":
		default:
			okW = false
		}
	}
	c.check("comments.parser-attaches-via-commentState", "cue/parser", 0, okW,
		fmt.Sprintf("the parser must attach comments only through the comment-state plumbing (openComments/closeList/closeNode); attachers: %v", uniq(writers)))
	// every openComments() is closed on every path, with the node it belongs
	// to: an unclosed state attaches the comments to a different node (or
	// trips the "unmatched comments" bailout).
	r := c.checkPairing("comments.open-close-paired", pb, pairSpec{
		acquire: "cue/parser.(*parser).openComments",
		release: []string{"cue/parser.(*commentState).closeNode", "cue/parser.(*commentState).closeExpr", "cue/parser.(*commentState).closeClause"},
	}, nil)
	c.note("parser: %d openComments sites, %d paired, %d escaped", r.sites, r.ok, r.escaped)
	c.expect("comments.open-close-paired", 20)
}

func c08Source(c *Ctx) {
	f := c.fn("cue/format", "Source")
	g := c.graph(f)
	info := f.Info()
	parse := g.callNodes("cue/parser.ParseFile")
	var fileVar interface{}
	for id, call := range parse {
		if as, ok := g.Nodes[id].N.(*ast.AssignStmt); ok && ast.Unparen(as.Rhs[0]) == call {
			fileVar = identObj(info, as.Lhs[0])
		}
	}
	prints := map[int]*ast.CallExpr{}
	for id, call := range g.callNodes("cue/format.(*config).fprint", "internal/pretty.(*Config).Node", "internal/pretty.Config.Node") {
		prints[id] = call
	}
	ok := len(parse) == 1 && len(prints) > 0
	if ok {
		bad, _ := g.onlyAfterSuccess(parse, keys(prints))
		ok = len(bad) == 0
		for _, call := range prints {
			if len(call.Args) < 1 || identObj(info, call.Args[0]) != fileVar {
				ok = false
			}
		}
		for _, r := range g.successReturns() {
			ret := g.Nodes[r].N.(*ast.ReturnStmt)
			isPrint := false
			if len(ret.Results) == 1 {
				if call, ok := ast.Unparen(ret.Results[0]).(*ast.CallExpr); ok {
					for _, pc := range prints {
						if pc == call {
							isPrint = true
						}
					}
				}
			}
			if !isPrint {
				ok = false
			}
		}
	}
	c.check("source.parse-then-print", f.Name, f.Body.Pos(), ok,
		"format.Source must parse with comments, fail on a parse error, and return the printing of exactly the parsed file")
	// ParseComments is requested
	pc := false
	ast.Inspect(f.Body, func(n ast.Node) bool {
		if sel, ok := n.(*ast.SelectorExpr); ok && sel.Sel.Name == "ParseComments" {
			pc = true
		}
		return true
	})
	c.check("source.parses-comments", f.Name, f.Body.Pos(), pc, "format.Source must parse with parser.ParseComments (otherwise every comment is dropped)")
}

func c08Cmd(c *Ctx) {
	f := c.fn("cmd/cue/cmd", "formatFile")
	g := c.graph(f)
	info := f.Info()
	parse := g.callNodes("cue/parser.ParseFile")
	node := g.callNodes("cue/format.Node")
	writes := g.callNodes("os.WriteFile", "cmd/cue/cmd.writeFileIfChanged", "os.Create", "os.OpenFile")
	if !c.check("cmd.shape", f.Name, f.Body.Pos(), len(parse) == 1 && len(node) == 1 && len(writes) >= 1, "formatFile must parse, format and write") {
		return
	}
	b1, _ := g.onlyAfterSuccess(parse, keys(writes))
	b2, _ := g.onlyAfterSuccess(node, keys(writes))
	c.check("cmd.write-after-success", f.Name, f.Body.Pos(), len(b1) == 0 && len(b2) == 0,
		"the file may be written only after both parser.ParseFile and format.Node succeeded")
	var formatted, src interface{}
	for id, call := range node {
		if as, ok := g.Nodes[id].N.(*ast.AssignStmt); ok && ast.Unparen(as.Rhs[0]) == call {
			formatted = identObj(info, as.Lhs[0])
		}
	}
	for id, call := range parse {
		_ = id
		if len(call.Args) >= 2 {
			src = identObj(info, call.Args[1])
		}
	}
	eq := func(e ast.Expr) (bool, bool) {
		call, ok := e.(*ast.CallExpr)
		if !ok || calleeName(info, call) != "bytes.Equal" || len(call.Args) != 2 {
			return false, false
		}
		a, b := identObj(info, call.Args[0]), identObj(info, call.Args[1])
		if (a == formatted && b == src) || (a == src && b == formatted) {
			return true, true // equal => must not write
		}
		return false, false
	}
	for id, call := range writes {
		nm := calleeName(info, call)
		okW := false
		if nm == "cmd/cue/cmd.writeFileIfChanged" {
			okW = true
		} else {
			r := g.gate(eq, map[int]bool{id: true}, nil, g.Entry)
			okW = r.found && !r.leak && !r.bypass
		}
		// data written is the formatter's output
		dataOK := false
		for _, a := range call.Args {
			if identObj(info, a) == formatted {
				dataOK = true
			}
		}
		c.check("cmd.write-only-if-changed", f.Name+"#"+nm, g.pos(id), okW && dataOK,
			"cue fmt must write a file only if the formatted bytes differ from the source, and must write the formatter's output")
	}
	// no other file-writing call in fmt.go
	var others []string
	for _, fn := range c.pkgBodies("cmd/cue/cmd", "fmt.go") {
		if fn.Name == f.Name {
			continue
		}
		ast.Inspect(fn.Body, func(n ast.Node) bool {
			if call, ok := n.(*ast.CallExpr); ok {
				switch calleeName(fn.Info(), call) {
				case "os.WriteFile", "os.Create", "os.OpenFile", "os.Rename", "cmd/cue/cmd.writeFileIfChanged":
					others = append(others, fn.Name)
				}
			}
			return true
		})
	}
	c.check("cmd.single-writer", "cmd/cue/cmd/fmt.go", 0, len(others) == 0, fmt.Sprintf("only formatFile may write files in the fmt command; also writing: %v", others))
}

// c08TrailingCommaFollowsCloser: in the v2 printer (internal/pretty) an
// authored bracket gets a trailing comma exactly when its closer stands on a
// line of its own. Both decisions are made in computeBracketedPolicy; if they
// key on different signals, the first pass breaks the closer without adding
// the comma and the second pass (which now sees a closer with a Newline
// position) adds it: fmt is not idempotent. The two boolean expressions are
// evaluated over every assignment of the signals they depend on and must agree
// whenever a trailing comma is permitted at all.
func c08TrailingCommaFollowsCloser(c *Ctx) {
	f := c.fn("internal/pretty", "(*converter).computeBracketedPolicy")
	cf := newCaseFn(c, f)
	info := f.Info()
	// the expression assigned to wantTrailingComma under the "allowed" guard, and the definition of forceClose
	var commaRHS, closeDef ast.Expr
	var guard ast.Expr
	ast.Inspect(f.Body, func(n ast.Node) bool {
		switch x := n.(type) {
		case *ast.IfStmt:
			for _, st := range x.Body.List {
				if as, ok := st.(*ast.AssignStmt); ok && len(as.Lhs) == 1 && exprString(as.Lhs[0]) == "wantTrailingComma" {
					commaRHS, guard = as.Rhs[0], x.Cond
				}
			}
		case *ast.AssignStmt:
			if len(x.Lhs) == 1 && exprString(x.Lhs[0]) == "forceClose" && x.Tok == token.DEFINE {
				closeDef = x.Rhs[0]
			}
		}
		return true
	})
	if commaRHS == nil || closeDef == nil {
		c.check("layout.trailing-comma-follows-closer", f.Name, f.Decl.Pos(), false, "anchor: wantTrailingComma / forceClose are no longer computed in computeBracketedPolicy")
		return
	}
	// leaf signals of the two expressions
	leaves := map[string]bool{}
	var collect func(e ast.Expr)
	collect = func(e ast.Expr) {
		e = ast.Unparen(e)
		switch x := e.(type) {
		case *ast.UnaryExpr:
			if x.Op == token.NOT {
				collect(x.X)
				return
			}
		case *ast.BinaryExpr:
			if x.Op == token.LAND || x.Op == token.LOR {
				collect(x.X)
				collect(x.Y)
				return
			}
			k, _ := cf.atomKey(x)
			leaves[k] = true
			return
		case *ast.Ident:
			if cf.isBool(x) {
				if d := singleDef(f, info.Uses[x]); d != nil {
					collect(d)
					return
				}
			}
		}
		leaves[cf.canon(e)] = true
	}
	collect(commaRHS)
	collect(closeDef)
	var keys []string
	for k := range leaves {
		keys = append(keys, k)
	}
	sortStrings(keys)
	if len(keys) > 12 {
		c.check("layout.trailing-comma-follows-closer", f.Name, f.Decl.Pos(), false, fmt.Sprintf("too many signals to enumerate (%d)", len(keys)))
		return
	}
	authoredKey := ""
	for _, k := range keys {
		if strings.Contains(k, "authored(") {
			authoredKey = k
		}
	}
	bad := ""
	badClass := ""
	n := 0
	for mask := 0; mask < 1<<len(keys); mask++ {
		truth := map[string]bool{}
		for i, k := range keys {
			truth[k] = mask&(1<<i) != 0
		}
		if authoredKey != "" && !truth[authoredKey] {
			continue // synthesised brackets: the comma is decided at run time (docSwitchMode)
		}
		a, b := cf.eval(commaRHS, truth), cf.eval(closeDef, truth)
		n++
		if a == triUnknown || b == triUnknown || a != b {
			var on []string
			for _, k := range keys {
				if truth[k] {
					on = append(on, k)
				}
			}
			bad = fmt.Sprintf("with {%s} true and the rest false: trailing comma=%v, closer on its own line=%v", strings.Join(on, ", "), a == triTrue, b == triTrue)
			badClass = fmt.Sprintf("/comma=%v,closer=%v,when=%s", a == triTrue, b == triTrue, strings.Join(on, "&"))
			break
		}
	}
	_ = guard
	c.check("layout.trailing-comma-follows-closer", f.Name+badClass, f.Decl.Pos(), bad == "" && n > 0,
		fmt.Sprintf("for an authored bracket the trailing-comma decision and the closer-on-its-own-line decision must be the same function of the layout signals (%d assignments of %d signals compared), or the second fmt pass adds the comma the first one withheld: %s", n, len(keys), bad))
}

// c08NothingAfterTrailingComment: a `// …` comment runs to the end of the
// line. In the v2 printer a field's attributes must therefore be placed before
// the field's trailing comment; appending them to a document that already ends
// in the trailing comment prints `2 // x @a(b)`, which re-parses with the
// attribute inside the comment — the attribute is silently lost.
func c08NothingAfterTrailingComment(c *Ctx) {
	n, nTrail := 0, 0
	for _, f := range c.funcs(c.pkg("internal/pretty")) {
		info := f.Info()
		k := 0
		ast.Inspect(f.Body, func(x ast.Node) bool {
			call, ok := x.(*ast.CallExpr)
			if !ok || calleeName(info, call) != "internal/pretty.appendAttrs" || len(call.Args) != 2 {
				return true
			}
			n++
			k++
			endsInComment := false
			ast.Inspect(call.Args[0], func(y ast.Node) bool {
				if inner, ok := y.(*ast.CallExpr); ok && exprString(inner.Fun) == "joinTrailing" {
					endsInComment = true
				}
				return true
			})
			if endsInComment {
				nTrail++
			}
			c.check("layout.nothing-after-trailing-comment", fmt.Sprintf("%s#appendAttrs%d", f.Name, k), call.Pos(), !endsInComment,
				"appendAttrs must not be applied to a document that already carries the field's trailing line comment (joinTrailing()): the attributes land behind `//` and are lost on re-parse; pass them ahead of the comment instead")
			return true
		})
	}
	c.check("layout.nothing-after-trailing-comment", "internal/pretty#appendAttrs-sites", 0, n >= 1,
		fmt.Sprintf("the scan saw %d appendAttrs call sites (expected at least one)", n))
}

// c08CommentInsideBracket: a comment the parser attached to a bracketed node
// ({…} or […]) either sits inside the brackets (`{ // c`) or trails them
// (`} // c`). Printing an interior comment behind the closer changes what the
// comment belongs to and, inside a list, swallows the `]` (the output no longer
// parses). Whenever source offsets are available the classification must
// compare them — for empty *and* non-empty brackets.
func c08CommentInsideBracket(c *Ctx) {
	f := c.fn("internal/pretty", "commentTrailsBracket")
	cf := newCaseFn(c, f)
	var cmp, hasA, hasB, nonEmptyList string
	for k := range cf.atoms() {
		switch {
		case strings.Contains(k, ".Offset()") && strings.Contains(k, " < "):
			cmp = k
		case strings.HasSuffix(k, "p1.HasAbsPos()"):
			hasA = k
		case strings.HasSuffix(k, ".HasAbsPos()") && !strings.HasPrefix(k, "p1."):
			hasB = k
		case strings.HasPrefix(k, "0 < len(p0.List)"):
			nonEmptyList = k
		}
	}
	if cmp == "" || hasA == "" || hasB == "" {
		c.check("comments.interior-comment-stays-inside", f.Name, f.Decl.Pos(), false, fmt.Sprintf("anchor: offset comparison not found (cmp=%q, %q, %q)", cmp, hasA, hasB))
		return
	}
	// is `cmp` "close < slash" (comment after the closer) or the reverse?
	afterMeansTrue := strings.HasPrefix(cmp, "p1.Offset() < ")
	for _, empty := range []bool{true, false} {
		for _, after := range []bool{true, false} {
			truth := map[string]bool{"p3": true, "p2": empty, hasA: true, hasB: true, cmp: after == afterMeansTrue}
			if nonEmptyList != "" {
				truth[nonEmptyList] = true
			}
			rets, _ := cf.walk(cf.g.Entry, truth)
			want := fmt.Sprint(after)
			c.check("comments.interior-comment-stays-inside", fmt.Sprintf("%s/empty=%v/comment-after-closer=%v", f.Name, empty, after), f.Decl.Pos(),
				len(rets) == 1 && rets[0] == want,
				fmt.Sprintf("with source offsets available, a comment on a bracketed node (empty=%v) that stands %s the closer must be classified trailing=%v; reachable results %v", empty, map[bool]string{true: "after", false: "before"}[after], after, rets))
		}
	}
}
