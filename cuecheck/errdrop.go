package main

import (
	"fmt"
	"go/ast"
	"go/types"
	"sort"
	"strings"
)

// droppedErrors lists, per function of the package (optionally restricted to
// files), the calls whose error result is discarded: used as a bare statement,
// assigned to blank, or deferred calls are ignored (cleanup by construction).
func (c *Ctx) droppedErrors(pkgRel string, files ...string) map[string][]string {
	out := map[string][]string{}
	for _, f := range c.pkgBodies(pkgRel, files...) {
		info := f.Info()
		returnsErr := func(call *ast.CallExpr) bool {
			tv, ok := info.Types[call]
			if !ok {
				return false
			}
			switch t := tv.Type.(type) {
			case *types.Tuple:
				return t.Len() > 0 && isErrorType(t.At(t.Len()-1).Type())
			default:
				return isErrorType(tv.Type)
			}
		}
		name := func(call *ast.CallExpr) string {
			nm := calleeName(info, call)
			if nm == "" {
				nm = exprString(call.Fun)
			}
			return nm
		}
		short := strings.TrimPrefix(f.Name, pkgRel+".")
		ast.Inspect(f.Body, func(n ast.Node) bool {
			switch s := n.(type) {
			case *ast.DeferStmt, *ast.GoStmt:
				return false
			case *ast.ExprStmt:
				if call, ok := s.X.(*ast.CallExpr); ok && returnsErr(call) {
					out[short] = append(out[short], name(call))
				}
			case *ast.AssignStmt:
				if len(s.Rhs) == 1 {
					if call, ok := ast.Unparen(s.Rhs[0]).(*ast.CallExpr); ok && returnsErr(call) {
						if id, ok := s.Lhs[len(s.Lhs)-1].(*ast.Ident); ok && id.Name == "_" {
							out[short] = append(out[short], name(call))
						}
					}
				}
			}
			return true
		})
	}
	return out
}

// checkErrorDiscipline: every discarded error in the package must be a
// reviewed best-effort site (function|callee -> reason).
func (c *Ctx) checkErrorDiscipline(rule, pkgRel string, reviewed map[string]string, files ...string) {
	got := c.droppedErrors(pkgRel, files...)
	var fns []string
	for fn := range got {
		fns = append(fns, fn)
	}
	sort.Strings(fns)
	n := 0
	var bad []string
	for _, fn := range fns {
		for _, callee := range uniq(got[fn]) {
			n++
			if _, ok := reviewed[fn+"|"+callee]; ok {
				continue
			}
			if _, ok := reviewed["*|"+callee]; ok {
				continue
			}
			if infallibleWrite(callee) {
				continue
			}
			bad = append(bad, fn+" drops the error of "+callee)
		}
	}
	c.check(rule, pkgRel, 0, len(bad) == 0,
		fmt.Sprintf("every discarded error in %s must be a reviewed best-effort site (%d discarded, %d reviewed): %s", pkgRel, n, n-len(bad), strings.Join(bad, "; ")))
}

// infallibleWrite: writes into in-memory builders/buffers never fail, and
// fmt.Fprint*/Print* are diagnostic or header output whose failure the
// commands do not treat as an error anywhere.
func infallibleWrite(callee string) bool {
	for _, p := range []string{"strings.(*Builder).", "bytes.(*Buffer).", "fmt.Fprint", "fmt.Print"} {
		if strings.HasPrefix(callee, p) {
			return true
		}
	}
	return false
}
