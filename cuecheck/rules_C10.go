package main

import (
	"fmt"
	"go/ast"
	"go/token"
	"go/types"
	"sort"
	"strings"
)

func init() {
	register(&propCheck{
		id:   "C10",
		pkgs: []string{"cue", "encoding/json", "internal/encoding/json", "pkg/encoding/json", "internal/encoding", "cue/literal", "cue/scanner"},
		run:  checkC10,
		about: "C10 (JSON in and out agrees with the standard): decides (a) on the value->JSON path strings and object keys are turned into JSON text only by internal/encoding/json.Marshal (no HTML-escaping json.Marshal of string data, no Go-syntax quoting such as strconv.Quote), and every json.Encoder that can receive CUE data has SetEscapeHTML called before Encode; " +
			"(b) Value.appendJSON handles every concrete kind and returns an error for unresolved/non-concrete values before any kind-specific bytes are produced; (c) encoding/json.extract returns an expression only if json.Valid accepted the bytes and (*Decoder).extract only after a successful Decode; " +
			"(d) objects and lists are emitted index-wise (declaration order), never by ranging over a map; (e) the JSON importer turns a quoted key into an identifier only when ast.StringLabelNeedsQuoting says no quoting is needed (the predicate the printer uses). It does not decide number spelling, string escaping correctness, or acceptance of all of RFC 8259.",
		trust: []string{"Go's encoding/json Encoder with SetEscapeHTML(false) produces standard JSON strings", "apd 'G' formatting of numbers is value-level"},
	})
}

func checkC10(c *Ctx) {
	c10KeyText(c)
	// errcheck-style baseline: a newly discarded error in the package is a dropped protocol/validation step
	c.checkErrorDiscipline("errors.no-new-dropped-error", "encoding/json", map[string]string{
	})
	// the number and string literal parser every JSON number and string goes through
	c.checkErrorDiscipline("errors.no-new-dropped-error/literal", "cue/literal", map[string]string{
		"(*NumInfo).String|cue/literal.(*NumInfo).decimal":                                  "String has no error result; it renders whatever decimal produced (diagnostic text)",
		"(*NumInfo).decimal|github.com/cockroachdb/apd/v3.(*Decimal).SetString":             "the argument is the constant \"0\"",
		"(*NumInfo).decimal|github.com/cockroachdb/apd/v3.(*Context).Mul":                   "exact context, the multiplier is a table constant and a literal with a multiplier has no exponent part: no condition can arise",
		"(*NumInfo).decimal|github.com/cockroachdb/apd/v3.(*Context).RoundToIntegralExact": "the condition (first result) is consulted; the error only repeats it",
		"init|github.com/cockroachdb/apd/v3.(*Context).Mul":                                  "builds the table of multiplier constants",
	})
	c10NumberFinite(c)
	c10ScannerRejectedRunes(c)
	// (a) string producers on the appendJSON path
	goQuoters := map[string]bool{"strconv.Quote": true, "strconv.AppendQuote": true, "strconv.QuoteToASCII": true, "strconv.AppendQuoteToASCII": true,
		"strconv.QuoteToGraphic": true, "strconv.AppendQuoteToGraphic": true, "cue/literal.Form.Quote": true, "cue/literal.Form.Append": true,
		"cue/literal.Form.AppendEscaped": true}
	nStr := 0
	for _, name := range []string{"Value.appendJSON", "(*structValue).appendJSON", "listAppendJSON", "Value.MarshalJSON", "Value.marshalJSON"} {
		f := c.fnOpt("cue", name)
		if f == nil {
			if name == "Value.marshalJSON" {
				continue
			}
			c.broken("anchor: cue.%s not found", name)
		}
		info := f.Info()
		var bad []string
		viaInternal := 0
		ast.Inspect(f.Body, func(n ast.Node) bool {
			call, ok := n.(*ast.CallExpr)
			if !ok {
				return true
			}
			nm := calleeName(info, call)
			hasStringArg := func() bool {
				for _, a := range call.Args {
					if t := info.TypeOf(a); t != nil {
						if b, ok := t.Underlying().(*types.Basic); ok && b.Info()&types.IsString != 0 {
							if tv := info.Types[a]; tv.Value == nil {
								return true
							}
						}
					}
				}
				return false
			}
			switch {
			case nm == "internal/encoding/json.Marshal":
				viaInternal++
			case goQuoters[nm]:
				bad = append(bad, fmt.Sprintf("%s at %s produces Go/CUE-syntax quoting, not JSON", nm, c.pos(call.Pos())))
			case nm == "encoding/json.Marshal" || nm == "encoding/json.MarshalIndent":
				if hasStringArg() {
					bad = append(bad, fmt.Sprintf("%s of string data at %s HTML-escapes <, >, & and U+2028/9", nm, c.pos(call.Pos())))
				}
			case nm == "fmt.Sprintf" || nm == "fmt.Appendf" || nm == "fmt.Fprintf":
				if len(call.Args) > 0 {
					if s, ok := constString(info, call.Args[0]); ok && (strings.Contains(s, "%q") || strings.Contains(s, "%s")) && strings.HasSuffix(name, "appendJSON") {
						// error messages use marshalErrf, not fmt; flag output formatting only
						bad = append(bad, fmt.Sprintf("%s with %%q/%%s at %s", nm, c.pos(call.Pos())))
					}
				}
			case nm == "append":
				// append(b, s...) with a non-constant string
				if call.Ellipsis.IsValid() && len(call.Args) == 2 {
					if t := info.TypeOf(call.Args[1]); t != nil {
						if b, ok := t.Underlying().(*types.Basic); ok && b.Info()&types.IsString != 0 {
							if tv := info.Types[call.Args[1]]; tv.Value == nil {
								bad = append(bad, fmt.Sprintf("raw string appended to the JSON buffer at %s", c.pos(call.Pos())))
							}
						}
					}
				}
			}
			return true
		})
		nStr += viaInternal
		sort.Strings(bad)
		c.check("encode.strings-via-json-marshal", f.Name, f.Decl.Pos(), len(bad) == 0,
			"string data (values and object keys) must become JSON text only through internal/encoding/json.Marshal: "+strings.Join(bad, "; "))
	}
	// the key and the string value do reach internaljson.Marshal
	sv := c.fn("cue", "(*structValue).appendJSON")
	c.check("encode.key-marshalled", sv.Name, sv.Decl.Pos(), c10FlowsTo(sv, "internal/encoding/json.Marshal", func(e ast.Expr) bool {
		t := sv.Info().TypeOf(e)
		b, ok := t.Underlying().(*types.Basic)
		return ok && b.Info()&types.IsString != 0
	}), "the object key must be passed to internal/encoding/json.Marshal")
	va := c.fn("cue", "Value.appendJSON")
	c.check("encode.string-marshalled", va.Name, va.Decl.Pos(), c10FlowsTo(va, "internal/encoding/json.Marshal", func(e ast.Expr) bool {
		sel, ok := ast.Unparen(e).(*ast.SelectorExpr)
		return ok && sel.Sel.Name == "Str"
	}), "the string value (adt.String.Str) must be passed to internal/encoding/json.Marshal")

	// every json.NewEncoder in the repo packages on this path sets EscapeHTML before Encode
	for _, spec := range []struct{ pkg, fn string }{{"internal/encoding/json", "Marshal"}, {"internal/encoding", "NewEncoder"}} {
		f := c.fn(spec.pkg, spec.fn)
		g := c.graph(f)
		info := f.Info()
		enc := g.callNodes("encoding/json.NewEncoder")
		for id, call := range enc {
			var ev types.Object
			if as, ok := g.Nodes[id].N.(*ast.AssignStmt); ok && ast.Unparen(as.Rhs[0]) == call {
				ev = identObj(info, as.Lhs[0])
			}
			set := g.callNodesWhere(func(cl *ast.CallExpr) bool {
				sel, ok := ast.Unparen(cl.Fun).(*ast.SelectorExpr)
				return ok && ev != nil && identObj(info, sel.X) == ev
			}, "encoding/json.(*Encoder).SetEscapeHTML")
			ok := len(set) > 0
			// Encode may be called in this function or in a closure defined after the setter
			var encodes []int
			for eid := range g.callNodesWhere(func(cl *ast.CallExpr) bool {
				sel, ok := ast.Unparen(cl.Fun).(*ast.SelectorExpr)
				return ok && ev != nil && identObj(info, sel.X) == ev
			}, "encoding/json.(*Encoder).Encode") {
				encodes = append(encodes, eid)
			}
			for _, e := range encodes {
				if !g.mustPassNode(e, setOf(keys(set))) {
					ok = false
				}
			}
			// closures that call Encode must be created after the setter
			for _, l := range c.lits(f) {
				usesEnc := false
				ast.Inspect(l.Body, func(n ast.Node) bool {
					if cl, ok := n.(*ast.CallExpr); ok && calleeName(info, cl) == "encoding/json.(*Encoder).Encode" {
						if sel, ok := ast.Unparen(cl.Fun).(*ast.SelectorExpr); ok && identObj(info, sel.X) == ev {
							usesEnc = true
						}
					}
					return true
				})
				if !usesEnc {
					continue
				}
				// the node creating the closure
				for _, nd := range g.Nodes {
					if nd.N != nil && nd.N.Pos() <= l.Lit.Pos() && l.Lit.End() <= nd.N.End() {
						if !g.mustPassNode(nd.ID, setOf(keys(set))) {
							ok = false
						}
					}
				}
			}
			c.check("encode.escape-html-set", f.Name, g.pos(id), ok,
				"a json.Encoder that encodes CUE data must have SetEscapeHTML called on every path before Encode (the default escapes <, >, &)")
		}
		c.check("encode.encoder-present", f.Name, f.Decl.Pos(), len(enc) > 0, "expected a json.NewEncoder here")
	}
	// internaljson.Marshal turns escaping off
	im := c.fn("internal/encoding/json", "Marshal")
	off := false
	ast.Inspect(im.Body, func(n ast.Node) bool {
		if cl, ok := n.(*ast.CallExpr); ok && calleeName(im.Info(), cl) == "encoding/json.(*Encoder).SetEscapeHTML" && len(cl.Args) == 1 {
			if tv := im.Info().Types[cl.Args[0]]; tv.Value != nil && tv.Value.ExactString() == "false" {
				off = true
			}
		}
		return true
	})
	c.check("encode.internal-marshal-no-html-escape", im.Name, im.Decl.Pos(), off, "internal/encoding/json.Marshal must call SetEscapeHTML(false)")

	// (b) kinds
	g := c.graph(va)
	info := va.Info()
	kindT := c.lookupType(adtP + ".Kind")
	wantKinds := []string{"NullKind", "BoolKind", "IntKind", "FloatKind", "StringKind", "BytesKind", "ListKind", "StructKind", "BottomKind"}
	have := map[string]bool{}
	ast.Inspect(va.Body, func(n ast.Node) bool {
		cc, ok := n.(*ast.CaseClause)
		if !ok {
			return true
		}
		for _, e := range cc.List {
			var k *types.Const
			switch y := ast.Unparen(e).(type) {
			case *ast.SelectorExpr:
				k, _ = info.Uses[y.Sel].(*types.Const)
			case *ast.Ident:
				k, _ = info.Uses[y].(*types.Const)
			}
			if k != nil && k.Type() == kindT.Type() {
				have[k.Name()] = true
			}
		}
		return true
	})
	for _, k := range wantKinds {
		c.check("encode.kind-handled", "adt."+k, va.Decl.Pos(), have[k], "Value.appendJSON must have a case for "+k)
	}
	concrete := func(e ast.Expr) (bool, bool) {
		call, ok := e.(*ast.CallExpr)
		if !ok || calleeName(info, call) != adtP+".IsConcrete" {
			return false, false
		}
		return true, false
	}
	// accept: every return that can carry bytes (non-nil first result)
	accept := map[int]bool{}
	concPos := va.Body.End()
	if ks := keys(g.callNodes(adtP + ".IsConcrete")); len(ks) > 0 {
		concPos = g.pos(ks[0])
	}
	for _, r := range g.returns() {
		ret := g.Nodes[r].N.(*ast.ReturnStmt)
		if len(ret.Results) == 2 && !isNilIdent(ret.Results[0]) {
			// the `v.v == nil` => "null" early return precedes evaluation and is excluded
			if call, ok := ast.Unparen(ret.Results[0]).(*ast.CallExpr); ok && calleeName(info, call) == "append" && len(call.Args) == 2 {
				if s, ok := constString(info, call.Args[1]); ok && s == "null" && g.pos(r) < concPos && concPos != va.Body.End() {
					continue
				}
			}
			accept[r] = true
		}
	}
	r := g.gate(concrete, accept, nil, g.Entry)
	c.check("encode.non-concrete-rejected", va.Name, va.Decl.Pos(), r.found && !r.leak && !r.bypass,
		fmt.Sprintf("every byte-producing return of Value.appendJSON must lie behind adt.IsConcrete(x) (found=%v leak=%v bypass=%v)", r.found, r.leak, r.bypass))

	// (c) decoders
	ex := c.fn("encoding/json", "extract")
	ge := c.graph(ex)
	ei := ex.Info()
	valid := func(e ast.Expr) (bool, bool) {
		call, ok := e.(*ast.CallExpr)
		if !ok || calleeName(ei, call) != "encoding/json.Valid" {
			return false, false
		}
		return true, false
	}
	acc := map[int]bool{}
	for _, rr := range ge.returns() {
		ret := ge.Nodes[rr].N.(*ast.ReturnStmt)
		if len(ret.Results) == 2 && !isNilIdent(ret.Results[0]) {
			acc[rr] = true
		}
	}
	rv := ge.gate(valid, acc, nil, ge.Entry)
	pe := ge.callNodes("cue/parser.ParseExpr")
	badP, _ := ge.onlyAfterSuccess(pe, keysOfSet(acc))
	c.check("decode.invalid-json-rejected", ex.Name, ex.Decl.Pos(), len(acc) > 0 && rv.found && !rv.leak && !rv.bypass && len(badP) == 0,
		"encoding/json.extract may return an expression only if json.Valid(b) held and the CUE parser accepted it (the CUE expression grammar is wider than JSON)")
	de := c.fn("encoding/json", "(*Decoder).extract")
	gd := c.graph(de)
	dec := gd.callNodes("encoding/json.(*Decoder).Decode")
	pe2 := gd.callNodes("cue/parser.ParseExpr")
	acc2 := map[int]bool{}
	for _, rr := range gd.returns() {
		ret := gd.Nodes[rr].N.(*ast.ReturnStmt)
		if len(ret.Results) == 2 && !isNilIdent(ret.Results[0]) {
			acc2[rr] = true
		}
	}
	b1, _ := gd.onlyAfterSuccess(dec, keysOfSet(acc2))
	b2, _ := gd.onlyAfterSuccess(pe2, keysOfSet(acc2))
	c.check("decode.stream-invalid-json-rejected", de.Name, de.Decl.Pos(), len(acc2) > 0 && len(dec) > 0 && len(b1) == 0 && len(b2) == 0,
		"(*Decoder).extract may return an expression only after json.Decoder.Decode (which validates) and parser.ParseExpr both succeeded")

	// (d) no map ranges on the output path
	for _, name := range []string{"Value.appendJSON", "(*structValue).appendJSON", "listAppendJSON"} {
		f := c.fn("cue", name)
		loops := c.scanMapLoops(f)
		c.check("encode.index-order", f.Name, f.Decl.Pos(), len(loops) == 0, "objects and lists must be emitted index-wise in declaration order; no iteration over a map on the output path")
	}

	jsonImporterKeyRule(c)
	c.expect("decode.key-unquoted-only-if-safe", 1)
	c.note("appendJSON path: %d calls of internal/encoding/json.Marshal", nStr)
}

func keysOfSet(m map[int]bool) []int {
	var out []int
	for k := range m {
		out = append(out, k)
	}
	sortInts(out)
	return out
}

// c10FlowsTo: some call of callee in f has an argument satisfying pred
// (directly, or a local variable assigned from an expression satisfying it).
func c10FlowsTo(f *Fn, callee string, pred func(ast.Expr) bool) bool {
	info := f.Info()
	found := false
	ast.Inspect(f.Body, func(n ast.Node) bool {
		call, ok := n.(*ast.CallExpr)
		if !ok || calleeName(info, call) != callee {
			return true
		}
		for _, a := range call.Args {
			if pred(a) {
				found = true
			}
		}
		return true
	})
	return found
}

// jsonImporterKeyRule (shared by C10 and C12): identifier labels only when
// quoting is not needed.
func jsonImporterKeyRule(c *Ctx) {
	// (e) importer: identifier labels only when quoting is not needed
	pf := c.fn("internal/encoding/json", "PatchExpr")
	for _, l := range append([]*Fn{pf}, c.lits(pf)...) {
		gl := c.graph(l)
		li := l.Info()
		setLabel := setOf(gl.find(func(n ast.Node) bool {
			as, ok := n.(*ast.AssignStmt)
			if !ok || len(as.Lhs) != 1 {
				return false
			}
			sel, ok := ast.Unparen(as.Lhs[0]).(*ast.SelectorExpr)
			if !ok || sel.Sel.Name != "Label" {
				return false
			}
			call, ok := ast.Unparen(as.Rhs[0]).(*ast.CallExpr)
			return ok && calleeName(li, call) == "cue/ast.NewIdent"
		}))
		if len(setLabel) == 0 {
			continue
		}
		needs := func(e ast.Expr) (bool, bool) {
			call, ok := e.(*ast.CallExpr)
			if !ok || calleeName(li, call) != "cue/ast.StringLabelNeedsQuoting" {
				return false, false
			}
			return true, true
		}
		rr := gl.gate(needs, setLabel, nil, -1)
		// must-evaluate from the Unquote call
		byp := false
		for id := range gl.callNodes("cue/literal.Unquote") {
			r2 := gl.gate(needs, setLabel, nil, id)
			if r2.bypass {
				byp = true
			}
		}
		c.check("decode.key-unquoted-only-if-safe", l.Name, l.Body.Pos(), rr.found && !rr.leak && !byp,
			"a JSON key may be turned into an identifier label only when ast.StringLabelNeedsQuoting(key) is false — the same predicate the CUE printer uses; otherwise keys such as \"#a\", \"_x\" or \"a-b\" change meaning")
		c.analysed[l.Name] = true
	}
}

// c10KeyText: object member names are produced from labels through
// Runtime.LabelStr -> Feature.IdentString. For a regular (string or
// identifier) label the text must be returned unmodified: the "\x00" cut
// belongs to hidden and let labels only, whose index string carries a
// package qualifier. A key such as "a\u0000b" is legal JSON and a legal CUE
// label.
func c10KeyText(c *Ctx) {
	f := c.fn(adtP, "Feature.IdentString")
	cf := newCaseFn(c, f)
	hid, let := "recv.IsHidden()", "recv.IsLet()"
	retText := func(truth map[string]bool) (string, bool) {
		path, ok := cf.trace(cf.g.Entry, truth)
		if !ok || len(path) == 0 {
			return "", false
		}
		rs, isRet := cf.g.Nodes[path[len(path)-1]].N.(*ast.ReturnStmt)
		if !isRet || len(rs.Results) != 1 {
			return "", false
		}
		if id, isID := rs.Results[0].(*ast.Ident); isID {
			if v := cf.lastAssigned(path, id.Name); v != "" {
				return v, true
			}
		}
		return cf.canon(rs.Results[0]), true
	}
	missing := cf.missingAtoms(map[string]bool{hid: true, let: true})
	plain, ok1 := retText(map[string]bool{hid: false, let: false})
	okPlain := ok1 && len(missing) == 0 && strings.HasSuffix(plain, ".IndexToString(recv.safeIndex())") && !strings.Contains(plain, "Cut") && !strings.Contains(plain, "[")
	c.check("encode.key-text-untruncated", f.Name+"/regular-label", f.Decl.Pos(), okPlain,
		"for a label that is neither hidden nor let, IdentString must return the indexed string unmodified (member names containing U+0000 must not be cut); found "+plain+fmt.Sprintf(" (missing tests: %v)", missing))
}


// c10NumberFinite: a CUE number can be an infinity or a NaN (math.Log(0),
// math.Sqrt(-1), strconv.ParseFloat("inf", 64)); apd prints those as
// `Infinity` / `NaN`, which is not JSON. The number case of Value.appendJSON
// must therefore test the decimal's Form before it appends the text.
func c10NumberFinite(c *Ctx) {
	f := c.fn("cue", "Value.appendJSON")
	g := c.graph(f)
	info := f.Info()
	app := g.callNodes("github.com/cockroachdb/apd/v3.(*Decimal).Append", "github.com/cockroachdb/apd/v3.(*Decimal).MarshalText", "github.com/cockroachdb/apd/v3.(*Decimal).String", "github.com/cockroachdb/apd/v3.(*Decimal).Text")
	if len(app) == 0 {
		c.broken("anchor: Value.appendJSON no longer formats numbers through apd (Append/MarshalText/String/Text)")
	}
	formAtom := func(e ast.Expr) (bool, bool) {
		be, ok := e.(*ast.BinaryExpr)
		if !ok || (be.Op != token.EQL && be.Op != token.NEQ) {
			return false, false
		}
		for i, s := range []ast.Expr{be.X, be.Y} {
			sel, ok := ast.Unparen(s).(*ast.SelectorExpr)
			if !ok || sel.Sel.Name != "Form" {
				continue
			}
			other := []ast.Expr{be.Y, be.X}[i]
			if tv, ok := info.Types[other]; ok && tv.Value != nil && tv.Value.String() == "0" { // apd.Finite == 0
				return true, be.Op == token.NEQ
			}
		}
		return false, false
	}
	k := 0
	for _, id := range sortedKeys(app) {
		// a call that only builds the text of the error being returned is not output
		if rs, ok := g.Nodes[id].N.(*ast.ReturnStmt); ok && len(rs.Results) == 2 && !isNilIdent(rs.Results[1]) {
			continue
		}
		k++
		// the bytes are appended only across an edge on which Form == Finite is known
		entry := g.Entry
		seen := map[int]bool{entry: true}
		work := []int{entry}
		reached := false
		for len(work) > 0 {
			n := work[len(work)-1]
			work = work[:len(work)-1]
			if n == id {
				reached = true
				break
			}
			for _, e := range g.Nodes[n].Succs {
				if e.Cond != nil {
					if p := atomOnEdge(e.Cond, e.Truth, formAtom); p.present && p.good && !p.bad && !p.na {
						continue
					}
				}
				if !seen[e.To] {
					seen[e.To] = true
					work = append(work, e.To)
				}
			}
		}
		c.check("encode.number-finite-or-error", fmt.Sprintf("%s#%d", f.Name, k), g.pos(id), !reached,
			"the text of a number may be appended to the JSON output only after its Form was tested to be apd.Finite: Infinity and NaN (math.Log(0), math.Sqrt(-1), strconv.ParseFloat(\"inf\", 64)) have no JSON spelling, and MarshalJSON would return invalid JSON with a nil error")
	}
	c.expect("encode.number-finite-or-error", 1)
}

func sortedKeys[V any](m map[int]V) []int {
	var out []int
	for k := range m {
		out = append(out, k)
	}
	sortInts(out)
	return out
}

// c10ScannerRejectedRunes: the JSON decoders hand their input to the CUE
// parser. The CUE scanner rejects two runes wherever they occur: NUL (never
// valid in JSON either: control characters must be escaped) and U+FEFF after
// the first byte — which is an ordinary character inside a JSON string. Every
// ParseExpr call of encoding/json must therefore receive its bytes through a
// helper that replaces the byte order mark by its escape.
func c10ScannerRejectedRunes(c *Ctx) {
	const rule = "decode.bom-escaped-before-cue-parser"
	// the premise, read from the scanner: next() reports an error for r == bom && offset > 0
	sf := c.fnOpt("cue/scanner", "(*Scanner).next")
	premise := false
	if sf != nil {
		ast.Inspect(sf.Body, func(x ast.Node) bool {
			if be, ok := x.(*ast.BinaryExpr); ok && be.Op == token.EQL && (exprString(be.Y) == "bom" || exprString(be.X) == "bom") {
				premise = true
			}
			return true
		})
	}
	if !premise {
		c.check(rule, "premise", token.NoPos, true, "the CUE scanner no longer singles out the byte order mark; nothing to escape")
		return
	}
	escapes := func(callee string) bool {
		if !strings.HasPrefix(callee, "encoding/json.") {
			return false
		}
		h := c.fnOpt("encoding/json", strings.TrimPrefix(callee, "encoding/json."))
		if h == nil {
			return false
		}
		raw, esc := false, false
		ast.Inspect(h.Body, func(x ast.Node) bool {
			if e, ok := x.(ast.Expr); ok {
				if v, ok := constString(h.Info(), e); ok {
					if v == "\uFEFF" {
						raw = true
					}
					if strings.EqualFold(v, `\ufeff`) {
						esc = true
					}
				}
			}
			return true
		})
		return raw && esc
	}
	n := 0
	for _, f := range c.funcs(c.pkg("encoding/json")) {
		info := f.Info()
		k := 0
		ast.Inspect(f.Body, func(x ast.Node) bool {
			call, ok := x.(*ast.CallExpr)
			if !ok || calleeName(info, call) != "cue/parser.ParseExpr" || len(call.Args) < 2 {
				return true
			}
			k++
			n++
			ok2 := false
			if arg, isCall := ast.Unparen(call.Args[1]).(*ast.CallExpr); isCall {
				ok2 = escapes(calleeName(info, arg))
			}
			c.check(rule, fmt.Sprintf("%s#%d", f.Name, k), call.Pos(), ok2,
				"the bytes handed to the CUE parser must come from a helper that replaces U+FEFF by its JSON escape: the CUE scanner rejects a byte order mark after the first byte, but inside a JSON string it is an ordinary character (valid JSON would be rejected)")
			return true
		})
	}
	c.expect(rule, 2)
}
