package main

import (
	"bytes"
	"fmt"
	"os"
	"os/exec"
	"runtime"
	"strings"
	"sync"
)

type selfTestResult struct {
	ID     string `json:"id"`
	What   string `json:"what"`
	Expect string `json:"expect"`
	Status string `json:"status"` // caught | missed | stale
	Detail string `json:"detail,omitempty"`
}

// selfTestResults runs every mutant of the property in its own subprocess
// (an in-memory overlay of one edited file) and checks that the expected rule
// reports it. Stale mutants (the text to edit is gone) are reported as such:
// they are a weakness of the self-test, not a property violation.
func selfTestResults(pc *propCheck, repo, verif string) []selfTestResult {
	ms, err := loadMutants(verif)
	if err != nil {
		return []selfTestResult{{ID: "-", Status: "missed", Detail: err.Error()}}
	}
	var mine []mutantDef
	for _, m := range ms {
		if m.Property == pc.id {
			mine = append(mine, m)
		}
	}
	out := make([]selfTestResult, len(mine))
	par := runtime.NumCPU() / 3
	if par < 1 {
		par = 1
	}
	if par > 5 {
		par = 5
	}
	sem := make(chan struct{}, par)
	var wg sync.WaitGroup
	exe, _ := os.Executable()
	for i, m := range mine {
		wg.Add(1)
		go func() {
			defer wg.Done()
			sem <- struct{}{}
			defer func() { <-sem }()
			r := selfTestResult{ID: m.ID, What: m.What, Expect: m.Expect}
			if _, _, err := mutantSource(repo, m); err != nil {
				r.Status, r.Detail = "stale", err.Error()
				out[i] = r
				return
			}
			cmd := exec.Command(exe, "-property", pc.id, "-tier", "quick", "-repo", repo, "-verif", verif, "-mutant", m.ID)
			var buf bytes.Buffer
			cmd.Stdout, cmd.Stderr = &buf, &buf
			err := cmd.Run()
			code := 0
			if ee, ok := err.(*exec.ExitError); ok {
				code = ee.ExitCode()
			} else if err != nil {
				code = -1
			}
			caught := false
			for _, line := range strings.Split(buf.String(), "\n") {
				if strings.Contains(line, m.Expect) && !strings.HasPrefix(line, "VIOLATION") && !strings.HasPrefix(line, "KNOWN-FINDING") {
					caught = true
				}
			}
			switch {
			case m.Benign && code == 0 && !strings.Contains(buf.String(), "VIOLATION"):
				r.Status = "silent"
			case m.Benign:
				r.Status = "missed"
				r.Detail = fmt.Sprintf("false alarm on a behaviour-preserving edit (exit %d): %s", code, lastLines(buf.String(), 3))
			case code == 1 && caught && strings.Contains(buf.String(), "VIOLATION property="+pc.id):
				r.Status = "caught"
			case code == 2:
				r.Status = "missed"
				r.Detail = "checker broke (exit 2): " + lastLines(buf.String(), 3)
			default:
				r.Status = "missed"
				r.Detail = fmt.Sprintf("exit %d: %s", code, lastLines(buf.String(), 3))
			}
			out[i] = r
		}()
	}
	wg.Wait()
	return out
}

func lastLines(s string, n int) string {
	lines := strings.Split(strings.TrimSpace(s), "\n")
	if len(lines) > n {
		lines = lines[len(lines)-n:]
	}
	return strings.Join(lines, " | ")
}

func runSelfTest(pc *propCheck, repo, verif, tier string) int {
	res := selfTestResults(pc, repo, verif)
	bad := 0
	for _, r := range res {
		fmt.Printf("%-7s %s  %s  %s\n", r.Status, r.ID, r.What, r.Detail)
		if r.Status != "caught" && r.Status != "silent" {
			bad++
		}
	}
	fmt.Printf("self-test %s: %d mutants, %d not caught\n", pc.id, len(res), bad)
	if bad > 0 {
		return 1
	}
	return 0
}
