package main

import (
	"fmt"
	"go/ast"
	"go/constant"
	"go/types"
	"strings"
)

func init() {
	register(&propCheck{
		id:   "C06",
		pkgs: []string{"internal/core/adt", "internal/core/compile", "internal", "cue/literal"},
		run:  checkC06,
		about: "C06 (arithmetic exact), narrow: decides (a) the decimal context of each arithmetic entry point, by constant-folding the precision of the apd context whose method is invoked: OpContext.Add/Sub/Mul must use an exact context (apd precision 0 = no rounding) whenever both operands are integers, the integer path of number literals with a multiplier must be exact, and Quo/Pow must use precision >= 34; " +
			"(b) conditions are not dropped: numOp returns a number only if the operation reported no error and no division by zero, intDivOp tests for a zero divisor before dividing, the literal's integral test consults the Inexact condition; (c) Quo always yields a float kind. " +
			"(d) comparisons: cmpTonode maps the three-way result to each ordering operator's truth table (evaluated for r = -1, 0, +1), every comparison site of BinOp passes its operator and Compare(left, right) in that order, and the order of numbers is (*apd.Decimal).Cmp alone (or a pure delegate); (e) div/mod/quo/rem agree across compile -> adt -> math/big (Euclidean pair Div/Mod, truncated pair Quo/Rem), operands in order. " +
			"It does not decide rounding correctness of / and the math builtins, the Euclidean identities themselves (math/big trusted), multiplier values, nor the print/parse round trip (value-level).",
		trust: []string{"cockroachdb/apd: precision 0 disables rounding for Add/Sub/Mul; apd.BaseContext has precision 0"},
	})
}

// ctxPrecision constant-folds the Precision of an apd context expression.
// Returns -1 if it cannot be determined.
func (c *Ctx) ctxPrecision(f *Fn, e ast.Expr, depth int) int64 {
	if depth > 6 {
		return -1
	}
	info := f.Info()
	e = ast.Unparen(e)
	if u, ok := e.(*ast.UnaryExpr); ok && (u.Op.String() == "&" || u.Op.String() == "*") {
		return c.ctxPrecision(f, u.X, depth+1)
	}
	if s, ok := e.(*ast.StarExpr); ok {
		return c.ctxPrecision(f, s.X, depth+1)
	}
	switch x := e.(type) {
	case *ast.CallExpr:
		// X.WithPrecision(const)
		if sel, ok := ast.Unparen(x.Fun).(*ast.SelectorExpr); ok && sel.Sel.Name == "WithPrecision" && len(x.Args) == 1 {
			if tv := info.Types[x.Args[0]]; tv.Value != nil {
				v, _ := constant.Int64Val(constant.ToInt(tv.Value))
				return v
			}
		}
		return -1
	case *ast.CompositeLit:
		for _, el := range x.Elts {
			v := el
			if kv, ok := el.(*ast.KeyValueExpr); ok {
				v = kv.Value
			}
			if p := c.ctxPrecision(f, v, depth+1); p >= 0 {
				return p
			}
		}
		return -1
	}
	var obj types.Object
	switch x := e.(type) {
	case *ast.Ident:
		obj = info.Uses[x]
	case *ast.SelectorExpr:
		obj = info.Uses[x.Sel]
	}
	v, ok := obj.(*types.Var)
	if !ok || v.Pkg() == nil {
		return -1
	}
	if v.Pkg().Path() == "github.com/cockroachdb/apd/v3" && v.Name() == "BaseContext" {
		return 0 // documented: "BaseContext ... Precision: 0"
	}
	if v.Parent() != v.Pkg().Scope() {
		return -1
	}
	// package-level variable of the repository: initializer, then init() assignments
	p := c.Pkgs[v.Pkg().Path()]
	if p == nil {
		return -1
	}
	prec := int64(-1)
	for _, file := range p.Syntax {
		for _, d := range file.Decls {
			switch dd := d.(type) {
			case *ast.GenDecl:
				for _, sp := range dd.Specs {
					vs, ok := sp.(*ast.ValueSpec)
					if !ok {
						continue
					}
					for i, id := range vs.Names {
						if p.TypesInfo.Defs[id] == v && i < len(vs.Values) {
							pf := &Fn{Pkg: p}
							prec = c.ctxPrecisionIn(pf, p.TypesInfo, vs.Values[i], depth+1)
						}
					}
				}
			case *ast.FuncDecl:
				if dd.Name.Name != "init" || dd.Body == nil {
					continue
				}
				ast.Inspect(dd.Body, func(n ast.Node) bool {
					as, ok := n.(*ast.AssignStmt)
					if !ok || len(as.Lhs) != 1 || len(as.Rhs) != 1 {
						return true
					}
					if sel, ok := ast.Unparen(as.Lhs[0]).(*ast.SelectorExpr); ok && sel.Sel.Name == "Precision" {
						if id, ok := ast.Unparen(sel.X).(*ast.Ident); ok && p.TypesInfo.Uses[id] == v {
							if tv := p.TypesInfo.Types[as.Rhs[0]]; tv.Value != nil {
								prec, _ = constant.Int64Val(constant.ToInt(tv.Value))
							}
						}
					}
					return true
				})
			}
		}
	}
	return prec
}

func (c *Ctx) ctxPrecisionIn(f *Fn, info *types.Info, e ast.Expr, depth int) int64 {
	tmp := &Fn{Pkg: f.Pkg}
	_ = info
	return c.ctxPrecision(tmp, e, depth)
}

func checkC06(c *Ctx) {
	checkC06Compare(c)
	checkC06DivRegistry(c)
	// (a) per-operation context
	for _, op := range []string{"Add", "Sub", "Mul"} {
		f := c.fn(adtP, "(*OpContext)."+op)
		info := f.Info()
		var recv ast.Expr
		ast.Inspect(f.Body, func(n ast.Node) bool {
			call, ok := n.(*ast.CallExpr)
			if !ok || calleeName(info, call) != adtP+".numOp" || len(call.Args) < 2 {
				return true
			}
			if sel, ok := ast.Unparen(call.Args[1]).(*ast.SelectorExpr); ok && sel.Sel.Name == op {
				recv = sel.X
			}
			return true
		})
		ok := false
		det := "no numOp call with a context method value found"
		if recv != nil {
			if call, isCall := ast.Unparen(recv).(*ast.CallExpr); isCall {
				// a selector function: it must return an exact context for two integers
				if fn, isFn := calleeObj(info, call).(*types.Func); isFn {
					if d := c.declOf(fn); d != nil {
						ok, det = c.c06SelectsExactForInts(d)
					}
				}
			} else {
				p := c.ctxPrecision(f, recv, 0)
				ok = p == 0
				det = fmt.Sprintf("uses the context %s with precision %d unconditionally: integer results with more digits are rounded (e.g. a 50-digit int + 1)", exprString(recv), p)
			}
		}
		c.check("context.exact-for-integers", f.Name, f.Decl.Pos(), ok,
			"integer "+op+" must be computed in an exact decimal context (apd precision 0): "+det)
	}
	for _, op := range []string{"Quo", "Pow"} {
		f := c.fn(adtP, "(*OpContext)."+op)
		info := f.Info()
		p := int64(-1)
		ast.Inspect(f.Body, func(n ast.Node) bool {
			call, ok := n.(*ast.CallExpr)
			if !ok || calleeName(info, call) != adtP+".numOp" || len(call.Args) < 2 {
				return true
			}
			if sel, ok := ast.Unparen(call.Args[1]).(*ast.SelectorExpr); ok {
				p = c.ctxPrecision(f, sel.X, 0)
			}
			return true
		})
		c.check("context.division-precision", f.Name, f.Decl.Pos(), p >= 34,
			fmt.Sprintf("%s must round to the documented precision (>= 34 digits); context precision is %d", op, p))
	}
	// literals with a multiplier
	lf := c.fn("cue/literal", "(*NumInfo).decimal")
	li := lf.Info()
	n := 0
	ast.Inspect(lf.Body, func(x ast.Node) bool {
		call, ok := x.(*ast.CallExpr)
		if !ok {
			return true
		}
		nm := calleeName(li, call)
		if !strings.HasSuffix(nm, "apd/v3.(*Context).Mul") && !strings.HasSuffix(nm, "apd/v3.(*Context).RoundToIntegralExact") {
			return true
		}
		n++
		sel := ast.Unparen(call.Fun).(*ast.SelectorExpr)
		p := c.ctxPrecision(lf, sel.X, 0)
		c.check("context.literal-multiplier-exact", fmt.Sprintf("%s#%s", lf.Name, sel.Sel.Name), call.Pos(), p == 0,
			fmt.Sprintf("applying an SI/IEC multiplier to a number literal must be exact; %s runs in a context of precision %d", sel.Sel.Name, p))
		return true
	})
	c.expect("context.literal-multiplier-exact", 2)

	// (b) conditions
	no := c.fn(adtP, "numOp")
	g := c.graph(no)
	ni := no.Info()
	accept := setOf(g.find(func(x ast.Node) bool {
		r, ok := x.(*ast.ReturnStmt)
		if !ok || len(r.Results) != 1 {
			return false
		}
		call, ok := ast.Unparen(r.Results[0]).(*ast.CallExpr)
		return ok && calleeName(ni, call) == adtP+".(*OpContext).newNum"
	}))
	var errV types.Object
	for _, nd := range g.Nodes {
		if as, ok := nd.N.(*ast.AssignStmt); ok && len(as.Lhs) == 2 && len(as.Rhs) == 1 {
			if _, isCall := ast.Unparen(as.Rhs[0]).(*ast.CallExpr); isCall && exprString(as.Lhs[0]) == "cond" {
				errV = identObj(ni, as.Lhs[1])
			}
		}
	}
	r1 := g.gate(atomErrVar(ni, errV), accept, nil, g.Entry)
	dz := func(e ast.Expr) (bool, bool) {
		call, ok := e.(*ast.CallExpr)
		if !ok || !strings.HasSuffix(calleeName(ni, call), "apd/v3.Condition.DivisionByZero") {
			return false, false
		}
		return true, true
	}
	r2 := g.gate(dz, accept, nil, g.Entry)
	c.check("conditions.numop-checks-error-and-divzero", no.Name, no.Decl.Pos(),
		len(accept) > 0 && r1.found && !r1.leak && !r1.bypass && r2.found && !r2.leak && !r2.bypass,
		"numOp may return a number only if the operation returned no error and did not flag division by zero")
	id := c.fn(adtP, "intDivOp")
	gi := c.graph(id)
	ii := id.Info()
	calls := setOf(gi.find(func(x ast.Node) bool {
		for _, call := range callsIn(x, false) {
			if v, ok := identObj(ii, call.Fun).(*types.Var); ok && v.Name() == "fn" {
				return true
			}
		}
		return false
	}))
	zero := func(e ast.Expr) (bool, bool) {
		call, ok := e.(*ast.CallExpr)
		if !ok || !strings.HasSuffix(calleeName(ii, call), "apd/v3.(*Decimal).IsZero") {
			return false, false
		}
		return true, true
	}
	rz := gi.gate(zero, calls, nil, gi.Entry)
	c.check("conditions.intdiv-zero-divisor", id.Name, id.Decl.Pos(), len(calls) > 0 && rz.found && !rz.leak && !rz.bypass,
		"div/mod/quo/rem must test for a zero divisor before dividing")
	// literal: Inexact consulted
	gl := c.graph(lf)
	inexact := func(e ast.Expr) (bool, bool) {
		call, ok := e.(*ast.CallExpr)
		if !ok || !strings.HasSuffix(calleeName(li, call), "apd/v3.Condition.Inexact") {
			return false, false
		}
		return true, true
	}
	var mulNode = -1
	for idn, call := range gl.callNodes("github.com/cockroachdb/apd/v3.(*Context).RoundToIntegralExact") {
		_ = call
		mulNode = idn
	}
	accL := map[int]bool{}
	for _, r := range gl.successReturns() {
		if mulNode >= 0 && gl.reachableFrom(mulNode)[r] {
			accL[r] = true
		}
	}
	rl := gl.gate(inexact, accL, nil, mulNode)
	c.check("conditions.literal-integral-test", lf.Name, lf.Decl.Pos(), mulNode >= 0 && rl.found && !rl.leak && !rl.bypass,
		"after applying a multiplier the literal must be rejected if the result is not integral (Inexact condition consulted)")

	// (b2) arithmetic helpers never mutate their operands: a Num is shared by
	// every expression that refers to it. apd.Decimal holds its coefficient in
	// a big.Int whose backing store is shared by a plain struct copy, so an
	// in-place operation on a shallow copy of an operand changes the operand.
	c06OperandsImmutable(c)

	// (c) Quo yields a float
	q := c.fn(adtP, "(*OpContext).Quo")
	setsFloat := false
	ast.Inspect(q.Body, func(x ast.Node) bool {
		as, ok := x.(*ast.AssignStmt)
		if !ok || len(as.Lhs) != 1 {
			return true
		}
		if sel, ok := ast.Unparen(as.Lhs[0]).(*ast.SelectorExpr); ok && sel.Sel.Name == "K" {
			if k, ok := identObj(q.Info(), as.Rhs[0]).(*types.Const); ok && k.Name() == "FloatKind" {
				setsFloat = true
			}
		}
		return true
	})
	c.check("kind.quo-is-float", q.Name, q.Decl.Pos(), setsFloat, "the result of / is a float, also for two integers")
}

// c06SelectsExactForInts: the selector function returns a context of
// precision 0 on the branch where both operands are integers.
func (c *Ctx) c06SelectsExactForInts(d *Fn) (bool, string) {
	g := c.graph(d)
	info := d.Info()
	intTest := func(e ast.Expr) (bool, bool) {
		be, ok := e.(*ast.BinaryExpr)
		if !ok || (be.Op.String() != "!=" && be.Op.String() != "==") {
			return false, false
		}
		if !mentionsObj(info, be.X, adtP+".IntKind") && !mentionsObj(info, be.Y, adtP+".IntKind") {
			return false, false
		}
		// `a.K&b.K&IntKind != 0` true means both ints
		return true, be.Op.String() == "!="
	}
	okAll := false
	var det string
	for _, n := range g.Nodes {
		for _, e := range n.Succs {
			if e.Cond == nil {
				continue
			}
			p := atomOnEdge(e.Cond, e.Truth, intTest)
			if !p.present || !p.bad {
				continue
			}
			// on the both-integers edge every reachable return is exact
			reach := g.reach([]int{e.To}, nil, nil)
			reach[e.To] = true
			allExact := true
			nret := 0
			for _, r := range g.returns() {
				if !reach[r] {
					continue
				}
				nret++
				ret := g.Nodes[r].N.(*ast.ReturnStmt)
				if len(ret.Results) != 1 || c.ctxPrecision(d, ret.Results[0], 0) != 0 {
					allExact = false
					det = fmt.Sprintf("%s returns %s (precision %d) for two integers", d.Name, exprString(ret.Results[0]), c.ctxPrecision(d, ret.Results[0], 0))
				}
			}
			if nret > 0 && allExact {
				okAll = true
				det = d.Name + " returns an exact context when both operands are integers"
			}
		}
	}
	if det == "" {
		det = d.Name + " has no branch on both operands being IntKind"
	}
	return okAll, det
}

var bigIntReadOnly = map[string]bool{"Sign": true, "Cmp": true, "CmpAbs": true, "IsInt64": true, "Int64": true, "IsUint64": true, "Uint64": true,
	"String": true, "Text": true, "Append": true, "BitLen": true, "Bit": true, "Bits": true, "Bytes": true, "TrailingZeroBits": true, "ProbablyPrime": true,
	"MathBigInt": true, "FillBytes": true, "Format": true, "MarshalText": true, "MarshalJSON": true, "GobEncode": true, "Size": true, "IsZero": true}

func c06OperandsImmutable(c *Ctx) {
	n := 0
	for _, f := range c.pkgBodies(adtP, "decimal.go", "binop.go") {
		info := f.Info()
		// parameters of type *Num
		params := map[types.Object]bool{}
		if f.Type.Params != nil {
			for _, fl := range f.Type.Params.List {
				for _, id := range fl.Names {
					if o := info.Defs[id]; o != nil && strings.HasSuffix(typeKey(o.Type()), "adt.Num") {
						params[o] = true
					}
				}
			}
		}
		if len(params) == 0 {
			continue
		}
		rootedAtParam := func(e ast.Expr) bool {
			id := rootIdent(e)
			return id != nil && params[info.Uses[id]]
		}
		// shallow copies: x := a.X  /  x = a.X  / x, y := a.X, b.X  (value of type apd.Decimal)
		tainted := map[types.Object]string{}
		ast.Inspect(f.Body, func(x ast.Node) bool {
			as, ok := x.(*ast.AssignStmt)
			if !ok || len(as.Lhs) != len(as.Rhs) {
				return true
			}
			for i, r := range as.Rhs {
				t := info.TypeOf(r)
				if t == nil || !strings.HasSuffix(typeKey(t), "apd/v3.Decimal") {
					continue
				}
				if _, isPtr := t.(*types.Pointer); isPtr {
					continue
				}
				r0 := ast.Unparen(r)
				if st, ok := r0.(*ast.StarExpr); ok {
					r0 = st.X
				}
				if rootedAtParam(r0) {
					if o := identObj(info, as.Lhs[i]); o != nil {
						tainted[o] = exprString(r)
					}
				}
			}
			return true
		})
		var bad []string
		ast.Inspect(f.Body, func(x ast.Node) bool {
			call, ok := x.(*ast.CallExpr)
			if !ok {
				return true
			}
			sel, ok := ast.Unparen(call.Fun).(*ast.SelectorExpr)
			if !ok {
				return true
			}
			s := info.Selections[sel]
			if s == nil || s.Kind() != types.MethodVal {
				return true
			}
			rk := typeKey(s.Recv())
			if !strings.HasSuffix(rk, "apd/v3.BigInt") && !strings.HasSuffix(rk, "apd/v3.Decimal") && rk != "math/big.Int" {
				return true
			}
			if bigIntReadOnly[sel.Sel.Name] {
				return true
			}
			// destination = receiver
			id := rootIdent(sel.X)
			if id == nil {
				return true
			}
			o := info.Uses[id]
			if params[o] {
				bad = append(bad, fmt.Sprintf("%s.%s mutates the operand itself at %s", exprString(sel.X), sel.Sel.Name, c.pos(call.Pos())))
			} else if src, ok := tainted[o]; ok {
				bad = append(bad, fmt.Sprintf("%s.%s mutates a shallow copy of %s (shared coefficient) at %s", exprString(sel.X), sel.Sel.Name, src, c.pos(call.Pos())))
			}
			return true
		})
		n++
		c.check("operands.not-mutated", f.Name, f.Decl.Pos(), len(bad) == 0,
			"an arithmetic helper must not change its *Num operands, directly or through a shallow copy of their apd.Decimal: "+strings.Join(bad, "; "))
	}
	if n < 5 {
		c.broken("anchor: fewer than 5 arithmetic helpers with *Num parameters found (%d)", n)
	}
}
