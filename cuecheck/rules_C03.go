package main

import (
	"fmt"
	"go/ast"
	"strings"
)

func init() {
	register(&propCheck{
		id:   "C03",
		pkgs: []string{"internal/core/adt"},
		run:  checkC03,
		about: "C03 (unifying scalars, types and bounds is exact intersection), narrow: decides one structural necessary condition named among the property's own mechanisms — 'bounds are kept as lowerBound/upperBound/checks and re-validated against the final scalar': " +
			"(a) no bound or validator conjunct is dropped on insertion: every path through the *BoundValue and Validator cases of nodeContext.insertValueConjunct records the constraint (stores it as the lower/upper bound, appends or replaces it in n.checks, re-inserts its simplification) or leaves through the explicit 'an existing check already implies it' edge; " +
			"(b) every recorded constraint is consulted at the end: validateValue validates a concrete value against both bounds and unify validates it against every entry of n.checks, and for non-concrete results getValidators carries lowerBound, upperBound and every check (except the documented out-of-range `!=`) into the value; (c) the disjunct clone copies the checks. " +
			"(d) the decision table of adt.SimplifyBounds, by finite case analysis over its control-flow graph: on every class of bound pairs that SimplifyBounds itself distinguishes (operator pair; hi<lo, hi-lo in {0,1,2} or larger; integer or float; outcome of the comparison of the two limits; string/bytes order) the set of reachable results is exactly the one the property prescribes — an error only for an empty pair (hi<lo; hi==lo with a strict side; integers with both sides strict and hi-lo==1), one of the two bounds only when it implies the other, otherwise both kept — plus opInfo's comparison/direction table and the inward/outward rounding of fractional limits for integers. " +
			"It does not decide the arithmetic and comparisons the table is keyed on (apd Sub/Ceil/Floor/Int64, BinOpBool), nor kind adjustment outside SimplifyBounds.",
		trust: []string{"SimplifyBounds' decision table is value-level and not decided"},
	})
}

func checkC03(c *Ctx) {
	checkC03Table(c)
	checkC03Destinations(c)
	checkC03Kinds(c)
	checkC06Compare(c) // equality of atoms is the scalar case of unification (shared with C06)
	f := c.fn(adtP, "(*nodeContext).insertValueConjunct")
	g := c.graph(f)
	info := f.Info()
	// locate the two cases of the second switch
	for _, want := range []string{"*BoundValue", "Validator"} {
		var cc *ast.CaseClause
		ast.Inspect(f.Body, func(n ast.Node) bool {
			cl, ok := n.(*ast.CaseClause)
			if !ok || len(cl.List) != 1 || exprString(cl.List[0]) != want {
				return true
			}
			// the type-switch case (not the inner op switch)
			if _, isType := info.Types[cl.List[0]]; isType && info.Types[cl.List[0]].IsType() {
				cc = cl
			}
			return true
		})
		if cc == nil {
			c.broken("anchor: insertValueConjunct has no case %s", want)
		}
		entry := -1
		for _, nd := range g.Nodes {
			if nd.Stmt == ast.Stmt(cc) && nd.Kind.String() == "SwitchCaseBody" && (entry < 0 || nd.ID < entry) {
				entry = nd.ID
			}
		}
		records := func(id int) bool {
			nd := g.Nodes[id].N
			if nd == nil {
				return false
			}
			rec := false
			if as, ok := nd.(*ast.AssignStmt); ok {
				for i, l := range as.Lhs {
					ls := exprString(l)
					// *bound = x   (not *bound = nil)
					if strings.HasPrefix(ls, "*bound") && i < len(as.Rhs) && !isNilIdent(as.Rhs[i]) {
						rec = true
					}
					// n.checks[i] = b
					if strings.HasPrefix(ls, "n.checks[") {
						rec = true
					}
					// n.checks = append(n.checks, …)
					if ls == "n.checks" && i < len(as.Rhs) {
						if call, ok := ast.Unparen(as.Rhs[i]).(*ast.CallExpr); ok && calleeName(info, call) == "append" {
							rec = true
						}
					}
				}
			}
			for _, call := range callsIn(nd, false) {
				if calleeName(info, call) == adtP+".(*nodeContext).insertValueConjunct" {
					rec = true // the simplified constraint is inserted instead
				}
			}
			return rec
		}
		// the only permitted non-recording exit: `if !match` false edge (an existing check implies x)
		implied := func(from int, e GEdge) bool {
			if e.Cond == nil {
				return false
			}
			m := func(x ast.Expr) (bool, bool) {
				if id, ok := x.(*ast.Ident); ok && id.Name == "match" {
					return true, false
				}
				return false, false
			}
			p := atomOnEdge(e.Cond, e.Truth, m)
			if p.present && p.good && !p.bad {
				return true
			}
			// documented: the simplification finalised the node and cleared
			// n.checks; nothing is left to replace
			if be, ok := ast.Unparen(e.Cond).(*ast.BinaryExpr); ok && !e.Truth && exprString(be) == "len(n.checks) > 0" {
				return true
			}
			return false
		}
		// the operator switch of a bound covers all eight bound operators:
		// its "no case matched" exit is infeasible
		boundOps := map[string]bool{}
		var opSwitch *ast.SwitchStmt
		ast.Inspect(cc, func(n ast.Node) bool {
			if sw, ok := n.(*ast.SwitchStmt); ok && sw.Tag != nil && exprString(sw.Tag) == "x.Op" && opSwitch == nil {
				opSwitch = sw
				for _, cl := range sw.Body.List {
					for _, e := range cl.(*ast.CaseClause).List {
						boundOps[exprString(e)] = true
					}
				}
			}
			return true
		})
		allOps := true
		for _, op := range []string{"LessThanOp", "LessEqualOp", "GreaterThanOp", "GreaterEqualOp", "EqualOp", "NotEqualOp", "MatchOp", "NotMatchOp"} {
			if !boundOps[op] {
				allOps = false
			}
		}
		caseExprs := map[ast.Node]bool{}
		if opSwitch != nil {
			for _, cl := range opSwitch.Body.List {
				for _, e := range cl.(*ast.CaseClause).List {
					caseExprs[e] = true
				}
			}
		}
		implied0 := implied
		implied = func(from int, e GEdge) bool {
			if implied0(from, e) {
				return true
			}
			if allOps && opSwitch != nil && e.SwitchTag == opSwitch.Tag && !e.Truth && !caseExprs[g.Nodes[e.To].N] {
				return true
			}
			return false
		}
		leak := ""
		r := g.reach([]int{entry}, func(id int) bool { return records(id) }, implied)
		for id := range r {
			if records(id) {
				continue
			}
			p := g.pos(id)
			inCase := cc.Pos() <= p && p <= cc.End()
			if id == g.Exit || !inCase {
				leak = "a path leaves the case without recording the constraint"
			}
			if _, isRet := g.Nodes[id].N.(*ast.ReturnStmt); isRet && inCase {
				leak = "the return at " + c.pos(p) + " is reached without recording the constraint"
			}
		}
		c.check("bounds.recorded-on-insertion", "insertValueConjunct/"+want, cc.Pos(), entry >= 0 && leak == "",
			"every "+want+" conjunct must be stored (lower/upper bound, n.checks) or replaced by its simplification on every path; a dropped constraint makes the node accept values outside the intersection: "+leak)
	}

	// (b) consulted at the end
	uses := func(fn string, what ...string) (bool, string) {
		ff := c.fn(adtP, fn)
		src := map[string]bool{}
		ast.Inspect(ff.Body, func(n ast.Node) bool {
			if sel, ok := n.(*ast.SelectorExpr); ok {
				src[sel.Sel.Name] = true
			}
			return true
		})
		var miss []string
		for _, w := range what {
			if !src[w] {
				miss = append(miss, w)
			}
		}
		return len(miss) == 0, strings.Join(miss, ",")
	}
	ok, miss := uses("(*nodeContext).validateValue", "lowerBound", "upperBound")
	vv := c.fn(adtP, "(*nodeContext).validateValue")
	// and they are validated: ctx.Validate is called in the loop over the bounds
	val := false
	ast.Inspect(vv.Body, func(n ast.Node) bool {
		if rs, ok := n.(*ast.RangeStmt); ok && mentionsSel(rs.X, "lowerBound") && mentionsSel(rs.X, "upperBound") {
			ast.Inspect(rs.Body, func(x ast.Node) bool {
				if call, ok := x.(*ast.CallExpr); ok && calleeName(vv.Info(), call) == adtP+".(*OpContext).Validate" {
					val = true
				}
				return true
			})
		}
		return true
	})
	c.check("bounds.validated-against-scalar", vv.Name, vv.Decl.Pos(), ok && val,
		"validateValue must validate a concrete value against both the lower and the upper bound (missing: "+miss+")")
	// checks validated in unify
	var un *Fn
	for _, f2 := range c.funcs(c.pkg(adtP)) {
		found := false
		ast.Inspect(f2.Body, func(n ast.Node) bool {
			if as, ok := n.(*ast.AssignStmt); ok && len(as.Lhs) == 1 && exprString(as.Lhs[0]) == "checks" && len(as.Rhs) == 1 && exprString(as.Rhs[0]) == "n.checks" {
				found = true
			}
			return true
		})
		if found {
			un = f2
		}
	}
	okChecks := false
	if un != nil {
		c.analysed[un.Name] = true
		ast.Inspect(un.Body, func(n ast.Node) bool {
			if rs, ok := n.(*ast.RangeStmt); ok && exprString(rs.X) == "checks" {
				ast.Inspect(rs.Body, func(x ast.Node) bool {
					if call, ok := x.(*ast.CallExpr); ok && calleeName(un.Info(), call) == adtP+".(*OpContext).Validate" {
						okChecks = true
					}
					return true
				})
			}
			return true
		})
	}
	name := adtP + ".(unify)"
	if un != nil {
		name = un.Name
	}
	c.check("bounds.checks-validated", name, 0, okChecks,
		"the function that takes the pending n.checks must validate the concrete value against every one of them (c.Validate in the loop)")
	// getValidators carries everything
	gv := c.fn(adtP, "(*nodeContext).getValidators")
	gg := c.graph(gv)
	okGV, missGV := uses("(*nodeContext).getValidators", "lowerBound", "upperBound", "checks")
	// in the loop over n.checks every iteration appends to a, except behind the NotEqualOp drop condition
	head, body, rs := gg.rangeLoop(func(rs *ast.RangeStmt) bool { return exprString(rs.X) == "n.checks" })
	okLoop := head >= 0
	if okLoop {
		app := setOf(gg.find(func(n ast.Node) bool {
			as, ok := n.(*ast.AssignStmt)
			if !ok || len(as.Lhs) != 1 || exprString(as.Lhs[0]) != "a" {
				return false
			}
			call, ok := ast.Unparen(as.Rhs[0]).(*ast.CallExpr)
			return ok && calleeName(gv.Info(), call) == "append" && as.Pos() >= rs.Body.Pos() && as.End() <= rs.Body.End()
		}))
		neq := func(from int, e GEdge) bool {
			if e.Cond == nil {
				return false
			}
			m := func(x ast.Expr) (bool, bool) {
				be, ok := x.(*ast.BinaryExpr)
				if ok && be.Op.String() == "==" && strings.HasSuffix(exprString(be.Y), "NotEqualOp") {
					return true, false
				}
				return false, false
			}
			p := atomOnEdge(e.Cond, e.Truth, m)
			return p.present && p.good && !p.bad && !p.na
		}
		// from the loop body, the next iteration must not be reachable without an append, unless the != condition held
		r := gg.reach([]int{body}, func(id int) bool { return app[id] }, neq)
		okLoop = len(app) > 0 && !r[head]
	}
	c.check("bounds.carried-into-result", gv.Name, gv.Decl.Pos(), okGV && okLoop,
		fmt.Sprintf("for a non-concrete result getValidators must carry lowerBound, upperBound and every check into the value; only a `!=` that another bound already excludes may be skipped (missing fields: %s, loop ok: %v)", missGV, okLoop))
	// (c) disjunct clones keep the checks
	cn := c.fn(adtP, "(*overlayContext).cloneNodeContext")
	okClone := false
	ast.Inspect(cn.Body, func(n ast.Node) bool {
		if as, ok := n.(*ast.AssignStmt); ok && len(as.Lhs) == 1 && strings.HasSuffix(exprString(as.Lhs[0]), ".checks") {
			if call, ok := ast.Unparen(as.Rhs[0]).(*ast.CallExpr); ok && calleeName(cn.Info(), call) == "append" && strings.Contains(exprString(call), "n.checks") {
				okClone = true
			}
		}
		return true
	})
	// bounds are part of nodeContextState, copied wholesale
	stateCopied := false
	ast.Inspect(cn.Body, func(n ast.Node) bool {
		if as, ok := n.(*ast.AssignStmt); ok && len(as.Lhs) == 1 && strings.HasSuffix(exprString(as.Lhs[0]), ".nodeContextState") {
			stateCopied = true
		}
		return true
	})
	c.check("bounds.cloned-for-disjuncts", cn.Name, cn.Decl.Pos(), okClone && stateCopied,
		"cloning a node for a disjunct must copy the pending checks and the node state holding the bounds (otherwise a disjunct forgets constraints)")
}

func mentionsSel(e ast.Node, name string) bool {
	found := false
	ast.Inspect(e, func(n ast.Node) bool {
		if sel, ok := n.(*ast.SelectorExpr); ok && sel.Sel.Name == name {
			found = true
		}
		return !found
	})
	return found
}
