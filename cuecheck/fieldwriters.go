package main

import (
	"fmt"
	"go/ast"
	"go/types"
	"sort"
	"strings"
)

// fieldWriters returns, for the named struct type, field -> set of functions
// (declaration names, literals attributed to their declaration) of package
// pkgRel that assign the field (directly, through an index/selector chain,
// ++/--, append-assign, delete/clear) or set it in a composite literal
// ("<literal>" marks construction).
func (c *Ctx) fieldWriters(pkgRel, typeName string, pkgs ...string) map[string]map[string]bool {
	out := map[string]map[string]bool{}
	add := func(field, fn string) {
		if out[field] == nil {
			out[field] = map[string]bool{}
		}
		out[field][fn] = true
	}
	scan := append([]string{pkgRel}, pkgs...)
	for _, pr := range scan {
		for _, f := range c.funcs(c.pkg(pr)) {
			info := f.Info()
			short := strings.TrimPrefix(f.Name, pkgRel+".")
			ast.Inspect(f.Body, func(n ast.Node) bool {
				var lhs []ast.Expr
				switch s := n.(type) {
				case *ast.AssignStmt:
					lhs = s.Lhs
				case *ast.IncDecStmt:
					lhs = []ast.Expr{s.X}
				case *ast.CallExpr:
					if nm := calleeName(info, s); (nm == "delete" || nm == "clear") && len(s.Args) > 0 {
						lhs = []ast.Expr{s.Args[0]}
					}
				case *ast.CompositeLit:
					if t := info.TypeOf(s); t != nil && strings.HasSuffix(typeKey(t), pkgRel+"."+typeName) {
						for _, el := range s.Elts {
							if kv, ok := el.(*ast.KeyValueExpr); ok {
								if id, ok := kv.Key.(*ast.Ident); ok {
									add(id.Name, short+"<literal>")
								}
							}
						}
					}
				}
				for _, l := range lhs {
					e := ast.Unparen(l)
					// walk down to the outermost selection of a field of the type
					for {
						switch x := e.(type) {
						case *ast.IndexExpr:
							e = ast.Unparen(x.X)
							continue
						case *ast.StarExpr:
							e = ast.Unparen(x.X)
							continue
						}
						break
					}
					for {
						sel, ok := e.(*ast.SelectorExpr)
						if !ok {
							break
						}
						if s := info.Selections[sel]; s != nil && s.Kind() == types.FieldVal && strings.HasSuffix(typeKey(s.Recv()), pkgRel+"."+typeName) {
							add(sel.Sel.Name, short)
						}
						e = ast.Unparen(sel.X)
						for {
							if ix, ok := e.(*ast.IndexExpr); ok {
								e = ast.Unparen(ix.X)
								continue
							}
							break
						}
					}
				}
				return true
			})
		}
	}
	return out
}

// checkFieldWriters: the set of functions writing each listed field must be a
// subset of the reviewed owners.
func (c *Ctx) checkFieldWriters(rule, pkgRel, typeName string, owners map[string][]string, pkgs ...string) {
	got := c.fieldWriters(pkgRel, typeName, pkgs...)
	var fields []string
	for f := range owners {
		fields = append(fields, f)
	}
	sort.Strings(fields)
	for _, fld := range fields {
		allowed := map[string]bool{}
		for _, o := range owners[fld] {
			allowed[o] = true
		}
		var extra []string
		for w := range got[fld] {
			if !allowed[w] && !allowed[strings.TrimSuffix(w, "<literal>")] {
				extra = append(extra, w)
			}
		}
		sort.Strings(extra)
		c.check(rule, pkgRel+"."+typeName+"."+fld, 0, len(extra) == 0,
			fmt.Sprintf("%s.%s may be written only by %v (ownership of protocol state); also written by %v", typeName, fld, owners[fld], extra))
	}
}
