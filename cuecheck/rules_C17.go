package main

import (
	"fmt"
	"go/ast"
	"go/token"
	"go/types"
	"sort"
	"strings"
)

func init() {
	register(&propCheck{
		id:   "C17",
		pkgs: []string{"internal/mod/modload", "internal/mod/modpkgload", "internal/mod/modrequirements", "mod/modfile", "internal/mod/modimports", "internal/mod/modfiledata", "cmd/cue/cmd"},
		run:  checkC17,
		about: "C17 (cue mod tidy reaches a correct fixpoint; module files round-trip): decides (a) capture discipline of every closure that modload/modpkgload/modrequirements hand to par.Queue.Add / go: a captured variable written by such a closure is accessed under one mutex, is an atomic/sync type, a per-iteration variable, or a slice element indexed per iteration; " +
			"(b) order independence of what is iterated: every range over a map in tidy.go, query.go, update.go, modpkgload, modrequirements and modfile either has no order-sensitive sink or sorts the collected slice before use (reviewed exceptions carry their reason); " +
			"(c) unknown or malformed module-file fields are rejected, not dropped: in modfile.parse every v.Decode lies behind a successful v.Validate on the value unified with the selected schema's #File, the schema selected is the maximum by semver.Compare (a commutative selection), and Format returns only data that its own parse+InitNonStrict accepted; " +
			"(d) the tidy check is 'recompute and compare': CheckTidy and Tidy share one implementation (tidy -> tidyOnce, compared with equalRequirements). It does not decide that the fixpoint lists exactly the needed modules.",
		trust: []string{"MVS results (C14)", "registry responses"},
	})
}

func checkC17(c *Ctx) {
	c.checkLockPairing("locks.paired", "internal/mod/modload", "internal/mod/modpkgload")
	c.checkErrorDiscipline("errors.no-new-dropped-error/modfile", "mod/modfile", map[string]string{
	})
	c.checkErrorDiscipline("errors.no-new-dropped-error/modpkgload", "internal/mod/modpkgload", map[string]string{
	})
	c.checkErrorDiscipline("errors.no-new-dropped-error/modrequirements", "internal/mod/modrequirements", map[string]string{
		"(*Requirements).readModGraph|internal/mod/modrequirements.loadOne": "the load error is recorded in hasError under the mutex and reported by findError",
	})
	c.checkErrorDiscipline("errors.no-new-dropped-error/modload", "internal/mod/modload", map[string]string{
		"(*loader).updateRoots|internal/mod/modrequirements.(*Requirements).Graph": "the graph was already loaded successfully (readAll branch): the cached result is returned and cannot fail again",
	})
	// (a) capture discipline
	total := 0
	for _, spec := range []struct{ pkg, fn string }{
		{"internal/mod/modload", "(*loader).resolveDependencies"},
		{"internal/mod/modload", "(*loader).spotCheckRoots"},
		{"internal/mod/modload", "(*loader).queryLatestModules"},
		{"internal/mod/modload", "resolveUpdateVersions"},
		{"internal/mod/modpkgload", "(*Packages).load"},
		{"internal/mod/modpkgload", "LoadPackages"},
		{"internal/mod/modrequirements", "(*Requirements).readModGraph"},
	} {
		f := c.fnOpt(spec.pkg, spec.fn)
		if f == nil {
			continue
		}
		total += c.checkCaptureDiscipline("capture.discipline", f, c17CaptureExempt)
	}
	// any other function of these packages that spawns closures is covered too
	for _, pr := range []string{"internal/mod/modload", "internal/mod/modpkgload", "internal/mod/modrequirements"} {
		for _, f := range c.funcs(c.pkg(pr)) {
			if len(c.concurrentClosures(f, defaultSpawners)) == 0 {
				continue
			}
			c.analysed[f.Name] = true
			already := false
			for _, o := range c.Obls {
				if strings.Contains(o.Key, f.Name+"/var:") {
					already = true
				}
			}
			if !already {
				total += c.checkCaptureDiscipline("capture.discipline", f, c17CaptureExempt)
			}
		}
	}
	c.check("capture.sites", "modload+modpkgload+modrequirements", token.NoPos, total >= 3,
		fmt.Sprintf("expected the concurrent loaders to share written state (found %d shared written variables)", total))

	// (b) map order
	n := c.checkMapOrder("order.map-iteration", []string{"internal/mod/modload", "internal/mod/modpkgload", "internal/mod/modrequirements", "mod/modfile", "internal/mod/modimports"}, c17MapExceptions)
	c.note("%d map iterations classified", n)

	// (c) modfile.parse
	p := c.fn("mod/modfile", "parse")
	bodies := append([]*Fn{p}, c.lits(p)...)
	nDecode := 0
	for _, b := range bodies {
		g := c.graph(b)
		info := b.Info()
		dec := g.callNodes("cue.Value.Decode")
		val := g.callNodes("cue.Value.Validate")
		for id, call := range dec {
			nDecode++
			bad, st := g.onlyAfterSuccess(val, []int{id})
			// when decoding into the full File struct the value must have been unified with #File first
			okU := true
			if len(call.Args) == 1 {
				ts := exprString(call.Args[0])
				if ts == "&mf" || ts == "&f" {
					uni := g.callNodesWhere(func(cl *ast.CallExpr) bool {
						return len(cl.Args) == 1 && strings.Contains(exprString(cl.Args[0]), "#File")
					}, "cue.Value.Unify")
					okU = len(uni) > 0
					for u := range uni {
						if !g.reachableFrom(u)[id] {
							okU = false
						}
					}
					// and a Validate lies between the Unify and the Decode
					for u := range uni {
						r := g.reach([]int{u}, func(x int) bool { _, ok := val[x]; return ok }, nil)
						if r[id] {
							okU = false
						}
					}
				}
			}
			_ = info
			c.check("modfile.validate-before-decode", fmt.Sprintf("%s#Decode%d", b.Name, nDecode), g.pos(id), len(bad) == 0 && len(val) > 0 && okU,
				"every v.Decode in modfile.parse must lie behind a successful v.Validate (and, for the full file, behind unification with the schema's #File followed by Validate): unknown or malformed fields are rejected rather than silently dropped by Decode — "+maskStr(st))
		}
	}
	c.expect("modfile.validate-before-decode", 3)
	// schema selection: max by semver.Compare
	okSel := false
	for _, b := range bodies {
		info := b.Info()
		ast.Inspect(b.Body, func(n ast.Node) bool {
			rs, ok := n.(*ast.RangeStmt)
			if !ok || !isMapType(info.TypeOf(rs.X)) {
				return true
			}
			cmpGT, assign := false, false
			ast.Inspect(rs.Body, func(x ast.Node) bool {
				if be, ok := x.(*ast.BinaryExpr); ok && be.Op == token.GTR {
					if call, ok := ast.Unparen(be.X).(*ast.CallExpr); ok && strings.HasSuffix(calleeName(info, call), "semver.Compare") && len(call.Args) == 2 &&
						exprString(call.Args[1]) == "latest" {
						cmpGT = true
					}
				}
				if as, ok := x.(*ast.AssignStmt); ok && len(as.Lhs) == 1 && exprString(as.Lhs[0]) == "latest" {
					assign = true
				}
				return true
			})
			if cmpGT && assign {
				okSel = true
			}
			return true
		})
	}
	c.check("modfile.schema-selection-is-max", p.Name, p.Decl.Pos(), okSel,
		"the schema is chosen while ranging over a map: the choice must be the maximum by semver.Compare (`latest == \"\" || semver.Compare(vers, latest) > 0`), which does not depend on iteration order")

	// Format re-parses its own output
	for _, name := range []string{"Format"} {
		f := c.fn("mod/modfile", name)
		g := c.graph(f)
		parse := g.callNodes("mod/modfile.parse")
		initN := g.callNodes("internal/mod/modfiledata.(*File).InitNonStrict", "internal/mod/modfiledata.(*File).Init")
		ok := len(parse) > 0 && len(initN) > 0
		if ok {
			in := g.run(g.successAutomaton(parse))
			for _, r := range g.successReturns() {
				ret := g.Nodes[r].N.(*ast.ReturnStmt)
				if len(ret.Results) == 2 && !isNilIdent(ret.Results[0]) && in[r]&(1<<stNone) != 0 {
					ok = false
				}
			}
		}
		// the data returned is the data that was parsed
		same := false
		for _, call := range parse {
			for _, r := range g.returns() {
				ret := g.Nodes[r].N.(*ast.ReturnStmt)
				if len(ret.Results) == 2 && identObj(f.Info(), ret.Results[0]) != nil && identObj(f.Info(), ret.Results[0]) == identObj(f.Info(), call.Args[0]) {
					same = true
				}
			}
		}
		c.check("modfile.format-reparses", f.Name, f.Decl.Pos(), ok && same,
			"Format must return only bytes that its own parse (and Init) accepted: what it writes is guaranteed to read back")
	}

	// (d) CheckTidy shares the implementation
	ct := c.fn("internal/mod/modload", "CheckTidy")
	td := c.fn("internal/mod/modload", "Tidy")
	ti := c.fn("internal/mod/modload", "tidy")
	calls := func(f *Fn, callee string) bool {
		found := false
		ast.Inspect(f.Body, func(n ast.Node) bool {
			if call, ok := n.(*ast.CallExpr); ok && calleeName(f.Info(), call) == callee {
				found = true
			}
			return true
		})
		return found
	}
	c.check("tidy.check-is-recompute-and-compare", ct.Name, ct.Decl.Pos(),
		calls(ct, "internal/mod/modload.tidy") && calls(td, "internal/mod/modload.tidy") &&
			calls(ti, "internal/mod/modload.(*loader).tidyOnce") && calls(ti, "internal/mod/modload.equalRequirements"),
		"CheckTidy and Tidy must both go through tidy(), which recomputes with tidyOnce and compares with equalRequirements (a second implementation of the check could accept what Tidy would change)")
	// the comparison guards the checkTidy error
	g := c.graph(ti)
	eq := func(e ast.Expr) (bool, bool) {
		call, ok := e.(*ast.CallExpr)
		if !ok || calleeName(ti.Info(), call) != "internal/mod/modload.equalRequirements" {
			return false, false
		}
		return true, false
	}
	// after a failed comparison under checkTidy, no success return
	acc := setOf(g.successReturns())
	r := g.gate(eq, acc, nil, -1)
	_ = r
	c17RootsFixpoint(c)
	c17StableExitReconcilesRoots(c)
	c17SchemaStructAgreement(c)
	c17NestedModuleDecidedFirst(c)
	c17ResolutionIgnoresCacheState(c)
	c17FileFilter(c)
	c17ClosurePrivateState(c)
}

// c17FileFilter: the per-package file filter of the loader and the root import
// scan of tidy must agree that a file marked @ignore() never contributes
// imports, in the main module as anywhere else; tool and test files count only
// in the main module.
func c17FileFilter(c *Ctx) {
	f := c.fn("internal/mod/modload", "(*loader).shouldIncludePkgFile")
	cf := newCaseFn(c, f)
	var ign, main string
	var suffix []string
	for k := range cf.atoms() {
		switch {
		case strings.HasPrefix(k, "buildattr.ShouldIgnoreFile("):
			ign = k
		case strings.Contains(k, "mainModule.Path()") && strings.Contains(k, " == "):
			main = k
		case strings.HasPrefix(k, "strings.HasSuffix(") && (strings.Contains(k, "_tool.cue") || strings.Contains(k, "_test.cue")):
			suffix = append(suffix, k)
		}
	}
	sort.Strings(suffix)
	if ign == "" || main == "" || len(suffix) != 2 {
		c.check("filter.ignored-files-never-count", f.Name, f.Decl.Pos(), false,
			fmt.Sprintf("anchor: shouldIncludePkgFile must test buildattr.ShouldIgnoreFile, the main module path and the _tool/_test suffixes (found %q, %q, %v)", ign, main, suffix))
		return
	}
	cf.checkTable("filter.ignored-files-never-count", []caseRow{
		{name: "ignored/main-module", truth: map[string]bool{ign: true, main: true}, want: []string{"false"}},
		{name: "ignored/dependency", truth: map[string]bool{ign: true, main: false}, want: []string{"false"}},
	}, "a file marked @ignore() must be excluded whichever module it is in (tidy's root import scan drops it too; the two sites must agree or `cue mod tidy` adds an unused dependency that CheckTidy then demands)")
	cf.checkTable("filter.main-module-and-tool-files", []caseRow{
		{name: "main-module", truth: map[string]bool{ign: false, main: true}, want: []string{"true"}},
		{name: "dependency/tool-or-test-file-1", truth: map[string]bool{ign: false, main: false, suffix[0]: true, suffix[1]: false}, want: []string{"false"}},
		{name: "dependency/tool-or-test-file-2", truth: map[string]bool{ign: false, main: false, suffix[0]: false, suffix[1]: true}, want: []string{"false"}},
	}, "every non-ignored file of the main module counts; tool and test files of dependencies do not")
	// the root scan applies the same predicate
	ti := c.fn("internal/mod/modload", "tidy")
	n := 0
	for _, fn := range c.funcs(c.pkg("internal/mod/modload")) {
		ast.Inspect(fn.Body, func(x ast.Node) bool {
			if call, ok := x.(*ast.CallExpr); ok && calleeName(fn.Info(), call) == "internal/buildattr.ShouldIgnoreFile" {
				n++
			}
			return true
		})
	}
	_ = ti
	c.check("filter.both-sites-consult-ignore", "internal/mod/modload", f.Decl.Pos(), n >= 2,
		fmt.Sprintf("both the per-package filter and the root import scan must consult buildattr.ShouldIgnoreFile (found %d call sites)", n))
}

// c17RootsFixpoint: updateRoots iterates "each root is at the selected version
// of its path" to a fixpoint. The loop may stop only when no retained root
// changed: in the scan of rs.RootModules(), a root whose selected version v
// differs from the recorded m.Version() — in either direction — must set
// rootsUpgraded before the next root, and the outer loop may be left only when
// rootsUpgraded is false.
func c17RootsFixpoint(c *Ctx) {
	f := c.fn("internal/mod/modload", "(*loader).updateRoots")
	cf := newCaseFn(c, f)
	g := cf.g
	info := f.Info()
	// the scan inside the fixpoint loop: a range over rs.RootModules() nested in a `for {}`
	var scan *ast.RangeStmt
	var outer *ast.ForStmt
	ast.Inspect(f.Body, func(n ast.Node) bool {
		fs, ok := n.(*ast.ForStmt)
		if !ok || fs.Cond != nil {
			return true
		}
		ast.Inspect(fs.Body, func(m ast.Node) bool {
			if rs, ok := m.(*ast.RangeStmt); ok && strings.HasSuffix(exprString(rs.X), ".RootModules()") {
				scan, outer = rs, fs
			}
			return true
		})
		return true
	})
	if scan == nil {
		c.broken("anchor: updateRoots no longer scans rs.RootModules() inside its fixpoint loop")
	}
	head, _, _ := g.rangeLoop(func(rs *ast.RangeStmt) bool { return rs == scan })
	var flagObj types.Object
	sets := setOf(g.find(func(n ast.Node) bool {
		as, ok := n.(*ast.AssignStmt)
		if !ok || len(as.Lhs) != 1 || exprString(as.Lhs[0]) != "rootsUpgraded" || exprString(as.Rhs[0]) != "true" {
			return false
		}
		if as.Pos() < scan.Pos() || as.End() > scan.End() {
			return false
		}
		flagObj = identObj(info, as.Lhs[0])
		return true
	}))
	// the node that retains the root: roots = append(roots, mv)
	retain := g.find(func(n ast.Node) bool {
		as, ok := n.(*ast.AssignStmt)
		return ok && as.Pos() > scan.Pos() && as.End() < scan.End() && len(as.Lhs) == 1 && exprString(as.Lhs[0]) == "roots" && strings.HasPrefix(exprString(as.Rhs[0]), "append(roots")
	})
	ok := head >= 0 && len(sets) > 0 && len(retain) == 1
	det := ""
	if ok {
		key := ""
		for k := range cf.atoms() {
			if strings.Contains(k, "m.Version()") && strings.Contains(k, " == ") {
				key = k
			}
		}
		if key == "" {
			ok = false
			det = "; no (in)equality test between the selected version and m.Version() in the scan (a one-sided comparison misses downgrades)"
		} else {
			_, vis := cf.walkBlocked(retain[0], map[string]bool{key: false}, sets)
			if vis[head] {
				ok = false
				det = "; with " + key + " false the next root is reached without rootsUpgraded = true"
			}
		}
	}
	c.check("tidy.roots-fixpoint-detects-any-change", f.Name, scan.Pos(), ok,
		"in updateRoots' fixpoint loop a retained root whose selected version differs from its recorded version must set rootsUpgraded (any difference, not only an upgrade: removing a redundant root can lower a selection)"+det)
	// the loop is left only when nothing changed
	okBreak := false
	ast.Inspect(outer.Body, func(n ast.Node) bool {
		is, isIf := n.(*ast.IfStmt)
		if !isIf {
			return true
		}
		if u, isNot := ast.Unparen(is.Cond).(*ast.UnaryExpr); isNot && u.Op == token.NOT && identObj(info, u.X) == flagObj && flagObj != nil {
			for _, st := range is.Body.List {
				if b, isBr := st.(*ast.BranchStmt); isBr && b.Tok == token.BREAK {
					okBreak = true
				}
			}
		}
		return true
	})
	nBreak := 0
	ast.Inspect(outer.Body, func(n ast.Node) bool {
		switch x := n.(type) {
		case *ast.ForStmt, *ast.RangeStmt, *ast.SwitchStmt, *ast.SelectStmt, *ast.TypeSwitchStmt, *ast.FuncLit:
			return false
		case *ast.BranchStmt:
			if x.Tok == token.BREAK {
				nBreak++
			}
		}
		return true
	})
	c.check("tidy.roots-fixpoint-exit", f.Name, outer.Pos(), okBreak && nBreak == 1,
		"updateRoots' fixpoint loop may be left (break) only under `!rootsUpgraded`")
}

var c17CaptureExempt = map[string]string{}

var c17MapExceptions = map[string]string{}

// c17ClosurePrivateState: a variable that is declared in the enclosing
// function but used *only* inside one function literal, and assigned there, is
// state that survives from one call of the literal to the next. For the
// callbacks of the module loaders (called once per candidate module prefix,
// per package, per root) that is a sequential leak: the answer for one argument
// depends on the arguments seen before.
func c17ClosurePrivateState(c *Ctx) {
	n, nCaptured := 0, 0
	for _, rel := range []string{"internal/mod/modpkgload", "internal/mod/modload", "internal/mod/modrequirements", "internal/mod/modimports", "internal/mod/modresolve"} {
		p := c.pkgOpt(rel)
		if p == nil {
			continue
		}
		for _, f := range c.funcs(p) {
			if f.Lit != nil {
				continue
			}
			info := f.Info()
			var lits []*ast.FuncLit
			ast.Inspect(f.Body, func(x ast.Node) bool {
				if l, ok := x.(*ast.FuncLit); ok {
					lits = append(lits, l)
				}
				return true
			})
			if len(lits) == 0 {
				continue
			}
			inLit := func(pos token.Pos) *ast.FuncLit {
				var best *ast.FuncLit
				for _, l := range lits {
					if l.Pos() <= pos && pos < l.End() && (best == nil || l.Pos() > best.Pos()) {
						best = l
					}
				}
				return best
			}
			// outermost literal containing pos
			outerLit := func(pos token.Pos) *ast.FuncLit {
				var best *ast.FuncLit
				for _, l := range lits {
					if l.Pos() <= pos && pos < l.End() && (best == nil || l.Pos() < best.Pos()) {
						best = l
					}
				}
				return best
			}
			_ = inLit
			type useInfo struct {
				outside   int
				lits      map[*ast.FuncLit]bool
				assignedIn map[*ast.FuncLit]bool
			}
			uses := map[types.Object]*useInfo{}
			get := func(o types.Object) *useInfo {
				u := uses[o]
				if u == nil {
					u = &useInfo{lits: map[*ast.FuncLit]bool{}, assignedIn: map[*ast.FuncLit]bool{}}
					uses[o] = u
				}
				return u
			}
			local := func(o types.Object) bool {
				v, ok := o.(*types.Var)
				return ok && !v.IsField() && v.Pkg() != nil && v.Parent() != v.Pkg().Scope() && !isParamOf(f, v) &&
					f.Body.Pos() <= v.Pos() && v.Pos() < f.Body.End() && outerLit(v.Pos()) == nil
			}
			ast.Inspect(f.Body, func(x ast.Node) bool {
				switch y := x.(type) {
				case *ast.Ident:
					o := info.Uses[y]
					if o == nil || !local(o) {
						return true
					}
					if l := outerLit(y.Pos()); l != nil {
						get(o).lits[l] = true
					} else {
						get(o).outside++
					}
				case *ast.AssignStmt:
					for _, lh := range y.Lhs {
						if o := identObj(info, lh); o != nil && local(o) {
							if l := outerLit(lh.Pos()); l != nil && info.Defs[identOf(lh)] == nil {
								get(o).assignedIn[l] = true
							}
						}
					}
				case *ast.IncDecStmt:
					if o := identObj(info, y.X); o != nil && local(o) {
						if l := outerLit(y.X.Pos()); l != nil {
							get(o).assignedIn[l] = true
						}
					}
				}
				return true
			})
			for o, u := range uses {
				if len(u.lits) > 0 {
					nCaptured++
				}
				if u.outside > 0 || len(u.lits) != 1 || len(u.assignedIn) == 0 {
					continue
				}
				n++
				key := f.Name + "/" + o.Name()
				reason, exc := c17ClosureStateExceptions[key]
				c.check("capture.no-private-state-outside-closure", key, o.Pos(), exc,
					"variable "+o.Name()+" is declared in "+f.Name+" but read and assigned only inside one function literal: its value survives from one call of that literal to the next (declare it inside the literal, or list it as reviewed carried state) "+reason)
			}
		}
	}
	// non-vacuity: the scan must have seen the loaders' closures and what they capture
	c.check("capture.no-private-state-outside-closure", "scan-coverage", 0, nCaptured >= 20,
		fmt.Sprintf("the scan considered %d captured local variables in the loader packages (expected at least 20; %d of them are closure-private carried state)", nCaptured, n))
}

var c17ClosureStateExceptions = map[string]string{}
