package main

import (
	"fmt"
	"go/ast"
	"go/token"
	"go/types"
	"sort"
	"strings"
)

func init() {
	register(&propCheck{
		id:   "C19",
		pkgs: []string{"cue", "cue/cuecontext", "encoding/json", "encoding/yaml", "internal/core/convert"},
		run:  checkC19,
		about: "C19 (values are immutable under concurrent use): decides (a) guarded-by for the state shared by a runtime: runtime.labelMap/labels under runtime.mutex, index.imports/importsByBuild/nextUniqueID and Runtime.loaded under index.lock (reads may hold the read lock), and that an insertion made under the write lock after an optimistic read re-checks under that lock (double-checked interning); " +
			"(b) in the import closure of cue, cue/cuecontext, encoding/json and encoding/yaml every package-level variable written outside init is a sync/atomic type, guarded per (a), or a reviewed exception; (c) the caches are concurrency-safe types, the long-lived shared structs hold no *adt.OpContext or sync.Pool, and values published through the sync.Map caches are written only by their constructors; " +
			"(d) in package cue an OpContext is created only by newContext (fresh per API call); " +
			"(e) copy-on-write: the immutable fields of adt.Environment are assigned only on a local value copy or on a freshly constructed Environment; a slice field of a shallow Vertex copy (`x := *v`) is replaced, never re-sliced in place, and its elements are written only after the field was replaced by a fresh slice (not slices.Clip / a sub-slice of the original); by-value API types of package cue never append into their own backing array unprotected; " +
			"(f) no API read path finalizes a pattern-constraint vertex of a shared value in place (one known finding). " +
			"It does not decide the lazy finalisation of other shared *adt.Vertex under concurrent readers nor sequential equivalence of results (value-level generation/status protocol).",
		trust: []string{"vertex finalisation protocol (status/generation) is out of reach without alias analysis"},
	})
}

const rtP = "internal/core/runtime"

func checkC19(c *Ctx) {
	checkC19CopyOnWrite(c)
	checkC19ValueAppend(c)
	checkC19LazyFinalize(c)
	checkC19AssertedVertexNotWritten(c)
	c.checkLockPairing("locks.paired", rtP, adtP)
	c.checkFieldWriters("ownership.field-writers", rtP, "index", map[string][]string{
		"imports": {"(*Runtime).AddInst", "(*Runtime).LoadBuiltin", "newIndex"}, "importsByBuild": {"(*Runtime).AddInst", "(*Runtime).LoadBuiltin", "newIndex"},
		"nextUniqueID": {"(*index).getNextUniqueID"}, "builtins": {"(*Runtime).Init"},
	})
	c.checkFieldWriters("ownership.field-writers", rtP, "Runtime", map[string][]string{
		"loaded": {"(*Runtime).Init", "(*Runtime).SetBuildData"}, "index": {"(*Runtime).Init"},
	})
	// (a) guarded-by
	c19GuardedVars(c, rtP, []string{"labelMap", "labels"}, "mutex")
	c19GuardedFields(c, rtP, "index", []string{"imports", "importsByBuild", "nextUniqueID"}, func(recv string) string { return recv + ".lock" })
	c19GuardedFields(c, rtP, "Runtime", []string{"loaded"}, func(recv string) string { return recv + ".index.lock" })
	c19GuardedVars(c, adtP, []string{"counts"}, "countsMu")
	c.expect("guarded-by", 9)
	c19Recheck(c, rtP, "getKey", []string{"labelMap", "labels"}, "mutex")
	c19Recheck(c, rtP, "(*Runtime).LoadBuiltin", []string{"importsByBuild", "imports"}, "lock")

	c19AtomicRMW(c)
	c19Globals(c)
	c19Caches(c)
	c19FreshContext(c)
}

// aliasOf resolves a local identifier with a single := definition to the text
// of its defining expression (x := r.index  =>  "r.index").
func aliasOf(f *Fn, e ast.Expr) string {
	info := f.Info()
	id, ok := ast.Unparen(e).(*ast.Ident)
	if !ok {
		return exprString(e)
	}
	o := info.Uses[id]
	if o == nil {
		return id.Name
	}
	var defs []ast.Expr
	ast.Inspect(f.Body, func(n ast.Node) bool {
		if as, ok := n.(*ast.AssignStmt); ok && len(as.Lhs) == len(as.Rhs) {
			for i, l := range as.Lhs {
				if identObj(info, l) == o {
					defs = append(defs, as.Rhs[i])
				}
			}
		}
		return true
	})
	if len(defs) == 1 {
		if _, isCall := ast.Unparen(defs[0]).(*ast.CallExpr); !isCall {
			return exprString(defs[0])
		}
	}
	return id.Name
}

// lockStates is locksets with lock keys normalised through aliasOf.
func (c *Ctx) heldKeys(f *Fn, li *lockInfo, node int) map[string]bool {
	out := map[string]bool{}
	for _, k := range li.allHeld(node) {
		out[k] = true
		// normalise "x.lock" -> "r.index.lock"
		if i := strings.Index(k, "."); i > 0 {
			root := k[:i]
			var expr ast.Expr = &ast.Ident{Name: root}
			_ = expr
		}
	}
	return out
}

func c19GuardedVars(c *Ctx, pkgRel string, vars []string, mu string) {
	p := c.pkg(pkgRel)
	objs := map[types.Object]string{}
	for _, v := range vars {
		o := p.Types.Scope().Lookup(v)
		if o == nil {
			c.broken("anchor: %s.%s not found", pkgRel, v)
		}
		objs[o] = v
	}
	if p.Types.Scope().Lookup(mu) == nil {
		c.broken("anchor: mutex %s.%s not found", pkgRel, mu)
	}
	for _, f := range c.funcs(p) {
		bodies := append([]*Fn{f}, c.lits(f)...)
		for _, b := range bodies {
			info := b.Info()
			g := c.graph(b)
			var li *lockInfo
			var bad []string
			n := 0
			for _, nd := range g.Nodes {
				if nd.N == nil {
					continue
				}
				writes := map[*ast.Ident]bool{}
				if as, ok := nd.N.(*ast.AssignStmt); ok {
					for _, l := range as.Lhs {
						if id := rootIdent(l); id != nil {
							writes[id] = true
						}
					}
				}
				if s, ok := nd.N.(*ast.IncDecStmt); ok {
					if id := rootIdent(s.X); id != nil {
						writes[id] = true
					}
				}
				inspectShallow(nd.N, func(x ast.Node) bool {
					id, ok := x.(*ast.Ident)
					if !ok {
						return true
					}
					name, ok := objs[info.Uses[id]]
					if !ok {
						return true
					}
					n++
					if li == nil {
						li = c.locksets(b)
					}
					w := writes[id]
					if !li.held(nd.ID, mu, !w) {
						kind := "read"
						if w {
							kind = "write"
						}
						bad = append(bad, fmt.Sprintf("%s of %s at %s without %s", kind, name, c.pos(id.Pos()), mu))
					}
					return true
				})
			}
			if n == 0 {
				continue
			}
			c.check("guarded-by", b.Name+"/"+strings.Join(vars, "+"), b.Body.Pos(), len(bad) == 0,
				fmt.Sprintf("package-level state %v is shared by every Context and must be accessed under %s (write lock for writes): %s", vars, mu, strings.Join(bad, "; ")))
		}
	}
}

func c19GuardedFields(c *Ctx, pkgRel, typeName string, fields []string, mutexOf func(recv string) string) {
	p := c.pkg(pkgRel)
	fset := map[string]bool{}
	for _, f := range fields {
		fset[f] = true
	}
	for _, f := range c.funcs(p) {
		bodies := append([]*Fn{f}, c.lits(f)...)
		for _, b := range bodies {
			info := b.Info()
			g := c.graph(b)
			var li *lockInfo
			var bad []string
			n := 0
			for _, nd := range g.Nodes {
				if nd.N == nil {
					continue
				}
				writes := map[ast.Expr]bool{}
				switch s := nd.N.(type) {
				case *ast.AssignStmt:
					for _, l := range s.Lhs {
						e := ast.Unparen(l)
						for {
							if ix, ok := e.(*ast.IndexExpr); ok {
								e = ast.Unparen(ix.X)
								continue
							}
							break
						}
						writes[e] = true
					}
				case *ast.IncDecStmt:
					writes[ast.Unparen(s.X)] = true
				}
				inspectShallow(nd.N, func(x ast.Node) bool {
					sel, ok := x.(*ast.SelectorExpr)
					if !ok || !fset[sel.Sel.Name] {
						return true
					}
					s := info.Selections[sel]
					if s == nil || s.Kind() != types.FieldVal || !strings.HasSuffix(typeKey(s.Recv()), pkgRel+"."+typeName) {
						return true
					}
					if isConcurrencySafe(s.Obj().Type()) {
						return true // an atomic/sync field synchronises itself (see atomic.no-split-rmw)
					}
					n++
					if li == nil {
						li = c.locksets(b)
					}
					w := writes[sel]
					recv := aliasOf(b, sel.X)
					mkey := mutexOf(recv)
					held := li.held(nd.ID, mkey, !w)
					if !held {
						// the lock may have been taken through an alias
						for _, k := range li.locks {
							k = strings.TrimSuffix(k, "#r")
							i := strings.Index(k, ".")
							root := k
							rest := ""
							if i > 0 {
								root, rest = k[:i], k[i:]
							}
							if aliasOf(b, &ast.Ident{Name: root})+rest == mkey {
								_ = root
							}
						}
						// normalise every held lock through aliasOf on its root identifier
						for _, k := range li.allHeld(nd.ID) {
							if c19NormLock(b, k) == mkey && (w == false || li.held(nd.ID, k, false)) {
								held = true
							}
						}
					}
					if !held {
						kind := "read"
						if w {
							kind = "write"
						}
						bad = append(bad, fmt.Sprintf("%s of %s.%s at %s without %s", kind, recv, sel.Sel.Name, c.pos(sel.Pos()), mkey))
					}
					return true
				})
			}
			if n == 0 {
				continue
			}
			if strings.HasSuffix(b.Name, "(*Runtime).Init") || strings.HasSuffix(b.Name, ".newIndex") {
				continue // constructors: the object is not shared yet
			}
			c.check("guarded-by", b.Name+"/"+typeName+"."+strings.Join(fields, "+"), b.Body.Pos(), len(bad) == 0,
				fmt.Sprintf("fields %v of %s.%s are shared by all users of a Context and must be accessed under the index lock: %s", fields, pkgRel, typeName, strings.Join(bad, "; ")))
		}
	}
}

// c19NormLock rewrites a lock key such as "x.lock" to "r.index.lock" when x := r.index.
func c19NormLock(f *Fn, key string) string {
	i := strings.Index(key, ".")
	if i < 0 {
		return key
	}
	root, rest := key[:i], key[i:]
	info := f.Info()
	var obj types.Object
	ast.Inspect(f.Body, func(n ast.Node) bool {
		if id, ok := n.(*ast.Ident); ok && id.Name == root && obj == nil {
			obj = info.Uses[id]
			if obj == nil {
				obj = info.Defs[id]
			}
		}
		return obj == nil
	})
	if obj == nil {
		return key
	}
	var defs []ast.Expr
	ast.Inspect(f.Body, func(n ast.Node) bool {
		if as, ok := n.(*ast.AssignStmt); ok && len(as.Lhs) == len(as.Rhs) {
			for j, l := range as.Lhs {
				if identObj(info, l) == obj {
					defs = append(defs, as.Rhs[j])
				}
			}
		}
		return true
	})
	if len(defs) == 1 {
		if _, isCall := ast.Unparen(defs[0]).(*ast.CallExpr); !isCall {
			return exprString(defs[0]) + rest
		}
	}
	return key
}

// c19Recheck: double-checked insertion.
func c19Recheck(c *Ctx, pkgRel, fn string, state []string, mu string) {
	f := c.fn(pkgRel, fn)
	g := c.graph(f)
	info := f.Info()
	isState := func(n ast.Node) (read, write bool) {
		names := map[string]bool{}
		for _, s := range state {
			names[s] = true
		}
		wr := map[ast.Node]bool{}
		if as, ok := n.(*ast.AssignStmt); ok {
			for _, l := range as.Lhs {
				e := ast.Unparen(l)
				for {
					if ix, ok := e.(*ast.IndexExpr); ok {
						e = ast.Unparen(ix.X)
						continue
					}
					break
				}
				wr[e] = true
			}
		}
		inspectShallow(n, func(x ast.Node) bool {
			var name string
			switch e := x.(type) {
			case *ast.Ident:
				if o, ok := info.Uses[e].(*types.Var); ok && !o.IsField() && o.Parent() == o.Pkg().Scope() {
					name = e.Name
				}
			case *ast.SelectorExpr:
				if s := info.Selections[e]; s != nil && s.Kind() == types.FieldVal {
					name = e.Sel.Name
				}
			}
			if name == "" || !names[name] {
				return true
			}
			if wr[x] {
				write = true
			} else {
				read = true
			}
			return true
		})
		return
	}
	// the write-lock acquisition
	var lockNodes []int
	for _, n := range g.Nodes {
		if n.N == nil {
			continue
		}
		if _, isDefer := n.N.(*ast.DeferStmt); isDefer {
			continue
		}
		for _, call := range callsIn(n.N, false) {
			nm := calleeName(info, call)
			if (nm == "sync.(*RWMutex).Lock" || nm == "sync.(*Mutex).Lock") && strings.HasSuffix(lockKey(call), mu) {
				lockNodes = append(lockNodes, n.ID)
			}
		}
	}
	ok := len(lockNodes) > 0
	nw := 0
	for _, ln := range lockNodes {
		after := g.reachableFrom(ln)
		for id := range after {
			nd := g.Nodes[id].N
			if nd == nil {
				continue
			}
			_, w := isState(nd)
			if !w {
				continue
			}
			nw++
			// every path from the Lock to this write passes a read of the state
			r := g.reach([]int{ln}, func(x int) bool {
				if x == ln || g.Nodes[x].N == nil {
					return false
				}
				// the re-check is a lookup in the primary container (state[0])
				return c19LooksUp(info, g.Nodes[x].N, state[0])
			}, nil)
			if r[id] {
				ok = false
			}
		}
	}
	c.check("recheck-under-write-lock", f.Name, f.Decl.Pos(), ok && nw > 0,
		fmt.Sprintf("an insertion into %v made under the write lock %s after an optimistic (read-locked) miss must re-check under that lock: two goroutines that both missed would otherwise insert twice", state, mu))
}

// reviewed package-level variables written outside init
var c19GlobalExceptions = map[string]string{
	"internal/core/adt.pMap":                 "debug only (pointer numbering for LogEval output)",
	"internal/core/adt.numberOpened":         "debug only (OpenGraphs)",
	"internal/core/adt.counts":               "guarded by countsMu (checked by guarded-by)",
	"internal/core/runtime.labelMap":         "guarded by runtime.mutex (checked by guarded-by)",
	"internal/core/runtime.labels":           "guarded by runtime.mutex (checked by guarded-by)",
	"pkg/tool/http.muxers":                   "tool task package (cue cmd), not reachable from Value methods; guarded by the package mutex m",
	"pkg/tool/http.listeners":                "tool task package (cue cmd), not reachable from Value methods; guarded by the package mutex m",
}

func c19Globals(c *Ctx) {
	var bad []string
	nvars, nwritten := 0, 0
	for _, p := range c.repoPkgs() {
		rel := strings.TrimPrefix(p.PkgPath, modPrefix)
		if strings.HasPrefix(rel, "internal/cuetxtar") || strings.HasPrefix(rel, "internal/cuetest") || strings.HasPrefix(rel, "cmd/") {
			continue
		}
		// package-level variables
		globals := map[types.Object]bool{}
		for _, name := range p.Types.Scope().Names() {
			if v, ok := p.Types.Scope().Lookup(name).(*types.Var); ok {
				globals[v] = true
				nvars++
			}
		}
		if len(globals) == 0 {
			continue
		}
		// functions reachable only from init: approximate by "named init, or called (statically, in-package) only from such functions"
		pg := c.pkgCallGraph(rel)
		initOnly := map[*types.Func]bool{}
		callers := map[*types.Func]map[*types.Func]bool{}
		for f, cs := range pg.calls {
			for cal := range cs {
				if callers[cal] == nil {
					callers[cal] = map[*types.Func]bool{}
				}
				callers[cal][f] = true
			}
		}
		var isInitOnly func(f *types.Func, depth int) bool
		isInitOnly = func(f *types.Func, depth int) bool {
			if f.Name() == "init" {
				return true
			}
			if v, ok := initOnly[f]; ok {
				return v
			}
			if depth > 6 || f.Exported() {
				return false
			}
			initOnly[f] = false
			cs := callers[f]
			if len(cs) == 0 {
				return false
			}
			for cal := range cs {
				if !isInitOnly(cal, depth+1) {
					return false
				}
			}
			initOnly[f] = true
			return true
		}
		for _, f := range c.funcs(p) {
			if f.Obj == nil || isInitOnly(f.Obj.Origin(), 0) {
				continue
			}
			info := f.Info()
			ast.Inspect(f.Body, func(n ast.Node) bool {
				var lhs []ast.Expr
				switch s := n.(type) {
				case *ast.AssignStmt:
					if s.Tok == token.DEFINE {
						return true
					}
					lhs = s.Lhs
				case *ast.IncDecStmt:
					lhs = []ast.Expr{s.X}
				case *ast.CallExpr:
					if nm := calleeName(info, s); (nm == "delete" || nm == "clear") && len(s.Args) > 0 {
						lhs = []ast.Expr{s.Args[0]}
					}
				}
				for _, l := range lhs {
					id := rootIdent(l)
					if id == nil {
						continue
					}
					o := info.Uses[id]
					if !globals[o] {
						continue
					}
					nwritten++
					if isConcurrencySafe(o.Type()) {
						continue
					}
					key := rel + "." + o.Name()
					if _, ok := c19GlobalExceptions[key]; ok {
						continue
					}
					bad = append(bad, fmt.Sprintf("%s written in %s at %s", key, f.Name, c.pos(id.Pos())))
				}
				return true
			})
		}
	}
	sort.Strings(bad)
	c.check("globals.no-unguarded-mutable-state", "import-closure(cue,cuecontext,encoding/json,encoding/yaml)", token.NoPos, len(bad) == 0,
		fmt.Sprintf("package-level variables written after init on the Value API path must be sync/atomic types, lock-guarded, or reviewed (%d package-level variables, %d post-init writes examined): %s", nvars, nwritten, strings.Join(uniq(bad), "; ")))
}

func c19Caches(c *Ctx) {
	// concurrency-safe cache types
	for _, spec := range []struct{ pkg, typ, field string }{
		{rtP, "index", "typeCache"},
	} {
		tn := c.lookupType(spec.pkg + "." + spec.typ)
		ok := false
		for _, f := range structFields(tn) {
			if f.Name() == spec.field {
				ok = isConcurrencySafe(f.Type())
			}
		}
		c.check("caches.safe-type", spec.pkg+"."+spec.typ+"."+spec.field, tn.Pos(), ok, "this cache is shared by every goroutine using the Context and must be a sync.Map (or otherwise concurrency-safe type)")
	}
	for _, spec := range []struct{ pkg, v string }{{"cue", "fieldCache"}} {
		o := c.pkg(spec.pkg).Types.Scope().Lookup(spec.v)
		c.check("caches.safe-type", spec.pkg+"."+spec.v, token.NoPos, o != nil && isConcurrencySafe(o.Type()), "process-wide cache must be a sync.Map")
	}
	// long-lived shared structs hold no OpContext / Pool
	for _, q := range []string{"cue.Value", "cue.hiddenValue", rtP + ".Runtime", rtP + ".index", "cue.Context"} {
		dot := strings.LastIndex(q, ".")
		tn, _ := c.pkg(q[:dot]).Types.Scope().Lookup(q[dot+1:]).(*types.TypeName)
		if tn == nil {
			continue
		}
		var bad []string
		for _, f := range structFields(tn) {
			tk := typeKey(f.Type())
			if strings.HasSuffix(tk, "adt.OpContext") || tk == "sync.Pool" {
				bad = append(bad, f.Name()+" "+tk)
			}
		}
		c.check("caches.no-shared-opcontext", q, tn.Pos(), len(bad) == 0,
			"a long-lived shared struct must not hold an *adt.OpContext or sync.Pool (every API call must evaluate with a fresh context): "+strings.Join(bad, ", "))
	}
	// values published through fieldCache are written only by their constructor
	p := c.pkg("cue")
	owners := map[string]bool{"cue.typeFields": true, "cue.dominantField": true}
	var bad []string
	n := 0
	for _, f := range c.funcs(p) {
		info := f.Info()
		ast.Inspect(f.Body, func(x ast.Node) bool {
			var lhs []ast.Expr
			switch s := x.(type) {
			case *ast.AssignStmt:
				lhs = s.Lhs
			case *ast.IncDecStmt:
				lhs = []ast.Expr{s.X}
			}
			for _, l := range lhs {
				e := ast.Unparen(l)
				for {
					if ix, ok := e.(*ast.IndexExpr); ok {
						e = ast.Unparen(ix.X)
						continue
					}
					break
				}
				sel, ok := e.(*ast.SelectorExpr)
				if !ok {
					continue
				}
				s := info.Selections[sel]
				if s == nil || s.Kind() != types.FieldVal {
					continue
				}
				tk := typeKey(s.Recv())
				if tk != modPrefix+"cue.structFields" && tk != modPrefix+"cue.goField" {
					continue
				}
				n++
				if !owners[f.Name] {
					bad = append(bad, fmt.Sprintf("%s writes %s at %s", f.Name, exprString(l), c.pos(l.Pos())))
				}
			}
			return true
		})
	}
	c.check("caches.published-values-immutable", "cue.fieldCache", token.NoPos, len(bad) == 0,
		fmt.Sprintf("struct-field tables published through the process-wide fieldCache (sync.Map) are shared by all decoders and may be written only while being built by typeFields (%d writes examined): %s", n, strings.Join(bad, "; ")))
}

func c19FreshContext(c *Ctx) {
	p := c.pkg("cue")
	var makers []string
	for _, f := range c.funcs(p) {
		ast.Inspect(f.Body, func(n ast.Node) bool {
			if call, ok := n.(*ast.CallExpr); ok {
				switch calleeName(f.Info(), call) {
				case "internal/core/eval.NewContext", adtP + ".NewContext", adtP + ".New":
					makers = append(makers, strings.TrimPrefix(f.Name, "cue."))
				}
			}
			return true
		})
	}
	ok := len(makers) > 0
	for _, m := range makers {
		if m != "newContext" {
			ok = false
		}
	}
	c.check("context.created-only-by-newContext", "cue", token.NoPos, ok,
		fmt.Sprintf("in package cue an OpContext must be created only by newContext, which every Value/Context method calls afresh; creators: %v", uniq(makers)))
	// Value.ctx and Context.ctx return a fresh context (no caching in a field)
	for _, name := range []string{"Value.ctx", "(*Context).ctx"} {
		f := c.fn("cue", name)
		okF := false
		g := c.graph(f)
		for _, r := range g.returns() {
			ret := g.Nodes[r].N.(*ast.ReturnStmt)
			if len(ret.Results) == 1 {
				if call, ok := ast.Unparen(ret.Results[0]).(*ast.CallExpr); ok && calleeName(f.Info(), call) == "cue.newContext" {
					okF = true
				} else {
					okF = false
					break
				}
			}
		}
		c.check("context.fresh-per-call", f.Name, f.Decl.Pos(), okF, name+" must return newContext(...) directly: a cached OpContext would be shared between concurrent calls")
	}
}

// c19LooksUp: node n reads container name through an index expression that
// is not an assignment target (m[k] lookup).
func c19LooksUp(info *types.Info, n ast.Node, name string) bool {
	targets := map[ast.Node]bool{}
	if as, ok := n.(*ast.AssignStmt); ok {
		for _, l := range as.Lhs {
			targets[ast.Unparen(l)] = true
		}
	}
	found := false
	inspectShallow(n, func(x ast.Node) bool {
		ix, ok := x.(*ast.IndexExpr)
		if !ok || targets[ix] {
			return true
		}
		switch e := ast.Unparen(ix.X).(type) {
		case *ast.Ident:
			if e.Name == name {
				found = true
			}
		case *ast.SelectorExpr:
			if e.Sel.Name == name {
				found = true
			}
		}
		return true
	})
	return found
}

// c19AtomicRMW: a value allocated from an atomic counter must come from the
// read-modify-write operation itself (x := a.Add(1)), not from a separate
// Load after the Add: between the two another goroutine can Add again and both
// callers observe the same value.
func c19AtomicRMW(c *Ctx) {
	n := 0
	for _, pr := range []string{rtP, adtP, "cue"} {
		for _, f := range c.funcs(c.pkg(pr)) {
			info := f.Info()
			adds := map[string]*ast.CallExpr{}
			loads := map[string]*ast.CallExpr{}
			ast.Inspect(f.Body, func(x ast.Node) bool {
				call, ok := x.(*ast.CallExpr)
				if !ok {
					return true
				}
				nm := calleeName(info, call)
				if !strings.HasPrefix(nm, "sync/atomic.") {
					return true
				}
				sel, ok := ast.Unparen(call.Fun).(*ast.SelectorExpr)
				if !ok {
					return true
				}
				key := exprString(sel.X)
				switch sel.Sel.Name {
				case "Add", "Swap", "CompareAndSwap":
					adds[key] = call
				case "Load":
					loads[key] = call
				}
				return true
			})
			for key, add := range adds {
				ld, both := loads[key]
				if !both {
					continue
				}
				// the Add result is discarded and the Load result is used afterwards
				discarded := false
				ast.Inspect(f.Body, func(x ast.Node) bool {
					if es, ok := x.(*ast.ExprStmt); ok && es.X == ast.Expr(add) {
						discarded = true
					}
					return true
				})
				n++
				c.check("atomic.no-split-rmw", f.Name+"/"+key, add.Pos(), !(discarded && ld.Pos() > add.Pos()),
					"the value taken from the atomic "+key+" must be the result of the Add itself; an Add whose result is dropped followed by a separate Load lets two goroutines obtain the same value")
			}
		}
	}
	c.note("atomic read-modify-write pairs examined: %d", n)
}
