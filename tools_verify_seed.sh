#!/bin/sh
# usage: tools_verify_seed.sh <seed-dir> <pkg-dir-for-demo-files> <go test args...>
# Confirms in a scratch worktree: demo passes on the unchanged tree, patch applies and builds,
# demo fails with the patch, and the package's own tests still pass with the patch.
set -u
seed="$1"; dest="$2"; shift 2
wt=/tmp/vs-$(basename "$seed")
git -C /repo worktree remove --force "$wt" 2>/dev/null
git -C /repo worktree add --detach "$wt" HEAD >/dev/null 2>&1 || exit 3
cd "$wt" || exit 3
export GOFLAGS=-mod=mod
cp "$seed"/*_test.go "$dest"/ 2>/dev/null
echo "== demo on unchanged tree (expect PASS)"
go test -vet=off -count=1 "$@" 2>&1 | tail -5
git apply "$seed/patch.diff" || { echo "PATCH DOES NOT APPLY"; }
echo "== build with patch"
go build ./... 2>&1 | tail -3
echo "== demo with patch (expect FAIL)"
go test -vet=off -count=1 "$@" 2>&1 | tail -8
echo "== package tests with patch, demo removed (expect ok)"
for f in "$seed"/*_test.go; do rm -f "$dest/$(basename "$f")"; done
go test -short -vet=off -count=1 "./$dest/" 2>&1 | tail -5
cd /; git -C /repo worktree remove --force "$wt"
